#!/usr/bin/env python3
"""Counts over seeded/*/meta.json used in DESIGN.md 6.4."""
import glob, json
n = 0; missed = []; thorough = []; neighbour = []
for f in sorted(glob.glob("/verif/seeded/*/meta.json")):
    m = json.load(open(f)); n += 1
    d = m.get("detected_by", "").lower()
    if any(w in d for w in ("missed", "added after", "strengthened", "first run inconclusive")):
        missed.append(m["seed_id"])
    if "thorough" in d and "now run" not in d and "quick tier too" not in d:
        thorough.append(m["seed_id"])
    if "caught only by" in d or "neighbour" in d:
        neighbour.append(m["seed_id"])
print("seeds", n); print("missed at first", len(missed), " ".join(missed)); print("thorough-only", thorough); print("neighbour", neighbour)
