#!/usr/bin/env python3
"""finish_seed.py <seed-id> '<needs>' '<detected_by>' '<result line>'
Fills the needs / detected_by / what_was_run fields of a seed saved provisionally by save_seed.py
(keeps every other field, e.g. existing_test_suite written meanwhile by seed_tests.py)."""
import json, sys
from pathlib import Path

sid, needs, detected, result = sys.argv[1:5]
f = Path(f"/verif/seeded/{sid}/meta.json")
m = json.loads(f.read_text())
m["needs_to_manifest"] = needs
m["detected_by"] = detected
m["what_was_run"][1] = f"./check {m['property']} --tier quick against the changed worktree (VERIF_REPO): {result}"
f.write_text(json.dumps(m, indent=1))
print("updated", sid)
