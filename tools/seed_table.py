#!/usr/bin/env python3
"""Prints the markdown table of seeded changes from /verif/seeded/*/meta.json."""
import json
from pathlib import Path

rows = []
for d in sorted(Path("/verif/seeded").iterdir()):
    m = json.loads((d / "meta.json").read_text())
    t = m.get("existing_test_suite")
    suite = "not yet run" if t is None else (t if isinstance(t, str) else (t["summary"].split(" in ")[0] + ("" if not t["failures_outside_baseline_always_fail"] else " NEW FAILURES " + str(t["failures_outside_baseline_always_fail"]))))
    rows.append(f"| {m['seed_id']} | {m['needs_to_manifest']} | {m['detected_by']} | {suite} |")
print("| Seed | What it needs in order to manifest | Caught by | lerax suite with the change |")
print("|---|---|---|---|")
print("\n".join(rows))
