#!/usr/bin/env python3
"""Runs lerax's own test suite with each seeded change applied (scratch worktree) and records the
result in the seed's meta.json. Usage: seed_tests.py [seed-id ...] (default: all without a result)."""
import json, os, re, subprocess, sys
from pathlib import Path

ROOT = Path("/verif/seeded")
ids = sys.argv[1:] or sorted(p.name for p in ROOT.iterdir() if (p / "meta.json").exists())
for sid in ids:
    d = ROOT / sid
    meta = json.loads((d / "meta.json").read_text())
    if "existing_test_suite" in meta and not os.environ.get("FORCE"):
        continue
    wt = f"/tmp/seedtest_{sid}"
    subprocess.run(["git", "-C", "/repo", "worktree", "add", "-q", "--detach", wt, "HEAD"], check=True)
    try:
        a = subprocess.run(["git", "apply", str(d / "patch.diff")], cwd=wt, capture_output=True, text=True)
        if a.returncode != 0:
            meta["existing_test_suite"] = "patch does not apply to /repo HEAD: " + a.stderr[-300:]
        else:
            env = dict(os.environ, PYTHONPATH=f"{wt}/src")
            env.pop("LERAX_VERIF", None)
            p = subprocess.run(["/venv/bin/python", "-m", "pytest", "-q", "-p", "no:cacheprovider", "--timeout=3600",
                                "--continue-on-collection-errors", "-n", "4", "--no-cov"], cwd=wt, env=env,
                               capture_output=True, text=True)
            out = p.stdout[-4000:]
            m = re.search(r"(\d+ failed, )?(\d+) passed.*", out)
            failed = sorted(set(re.findall(r"FAILED (\S+)", out)))
            non_export = [f for f in failed if "test_export" not in f]
            head = subprocess.run(["git", "-C", "/repo", "log", "--format=%h", "-1"], capture_output=True, text=True).stdout.strip()
            meta["existing_test_suite"] = {"repo_head": head, "summary": m.group(0) if m else out[-300:],
                                           "failures_outside_baseline_always_fail": non_export}
    finally:
        subprocess.run(["git", "-C", "/repo", "worktree", "remove", "--force", wt])
    (d / "meta.json").write_text(json.dumps(meta, indent=1))
    print(sid, meta["existing_test_suite"], flush=True)
