#!/usr/bin/env python3
"""save_seed.py <PID> <n> <seed-id> '<needs>' '<detected_by>' '<result line>'
Copies /tmp/seed_<PID>/deliverable/patch<n>.diff + demo<n>.py (+ notes.md) to /verif/seeded/<seed-id>/."""
import json, shutil, sys
from pathlib import Path

pid, n, sid, needs, detected, result = sys.argv[1:7]
import os
src = Path(f"/tmp/{os.environ.get('SEEDPREFIX', 'seed')}_{pid}/deliverable")
dst = Path(f"/verif/seeded/{sid}")
dst.mkdir(parents=True, exist_ok=True)
shutil.copy(src / f"patch{n}.diff", dst / "patch.diff")
shutil.copy(src / f"demo{n}.py", dst / "demo.py")
if (src / "notes.md").exists():
    shutil.copy(src / "notes.md", dst / "notes.md")
meta = {
    "seed_id": sid,
    "property": pid,
    "needs_to_manifest": needs,
    "what_was_run": [
        "tools/eval_seed.sh: scratch worktree of /repo HEAD; demo.py exits 0 without the change and non-zero with it",
        f"./check {pid} --tier quick against the changed worktree (VERIF_REPO): {result}",
    ],
    "detected_by": detected,
}
(dst / "meta.json").write_text(json.dumps(meta, indent=1))
print("saved", dst)
