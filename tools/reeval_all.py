#!/usr/bin/env python3
"""Re-runs the quick tier of every seed's own check against a scratch worktree with the seeded change applied
(VERIF_REPO), N at a time, and records the outcome in seeded/<id>/meta.json under "final_recheck".
Usage: reeval_all.py [-j N] [seed-id ...]"""
import json, os, subprocess, sys, time
from concurrent.futures import ThreadPoolExecutor
from pathlib import Path

ROOT = Path("/verif/seeded")
args = sys.argv[1:]
J = 4
if args[:1] == ["-j"]:
    J = int(args[1]); args = args[2:]
ids = args or sorted(p.name for p in ROOT.iterdir() if (p / "meta.json").exists())
head = subprocess.run(["git", "-C", "/repo", "log", "--format=%h", "-1"], capture_output=True, text=True).stdout.strip()
vhead = subprocess.run(["git", "-C", "/verif", "log", "--format=%h", "-1"], capture_output=True, text=True).stdout.strip()


def one(sid):
    d = ROOT / sid
    meta = json.loads((d / "meta.json").read_text())
    pid = meta["property"]
    wt = f"/tmp/reeval_{sid}"
    subprocess.run(["git", "-C", "/repo", "worktree", "remove", "--force", wt], capture_output=True)
    subprocess.run(["git", "-C", "/repo", "worktree", "add", "-q", "--detach", wt, "HEAD"], check=True)
    t0 = time.time()
    try:
        a = subprocess.run(["git", "apply", str(d / "patch.diff")], cwd=wt, capture_output=True, text=True)
        if a.returncode != 0:
            res = {"outcome": "patch does not apply", "detail": a.stderr[-200:]}
        else:
            env = dict(os.environ, VERIF_REPO=wt)
            try:
                p = subprocess.run(["./check", pid, "--tier", "quick"], cwd="/verif", env=env, capture_output=True, text=True, timeout=3000)
                out = p.stdout + p.stderr
                keys = sorted({l.split("replay=")[1].split("/")[-1].replace("-seed0.json", "").replace(pid + "-", "", 1)
                               for l in out.splitlines() if l.startswith("VIOLATION")})
                res = {"outcome": "VIOLATION" if keys else ("INCONCLUSIVE" if "INCONCLUSIVE" in out else "not detected"),
                       "exit": p.returncode, "keys": keys[:8], "n_keys": len(keys)}
            except subprocess.TimeoutExpired:
                res = {"outcome": "timeout"}
    finally:
        subprocess.run(["git", "-C", "/repo", "worktree", "remove", "--force", wt], capture_output=True)
    res.update(repo_head=head, verif_head=vhead, wall_s=round(time.time() - t0))
    meta["final_recheck"] = res
    (d / "meta.json").write_text(json.dumps(meta, indent=1))
    print(sid, res["outcome"], res.get("n_keys"), res["wall_s"], flush=True)
    return sid, res


with ThreadPoolExecutor(J) as ex:
    results = list(ex.map(one, ids))
bad = [s for s, r in results if r["outcome"] != "VIOLATION"]
print("NOT CAUGHT:", bad)
