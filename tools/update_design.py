#!/usr/bin/env python3
import subprocess
s = open('/verif/DESIGN.md').read()
t = subprocess.run(['python3', '/verif/tools/seed_table.py'], capture_output=True, text=True).stdout
a, b = s.index('<!-- SEEDS-BEGIN -->') + len('<!-- SEEDS-BEGIN -->'), s.index('<!-- SEEDS-END -->')
open('/verif/DESIGN.md', 'w').write(s[:a] + '\n' + t + s[b:])
print("updated")
