#!/usr/bin/env python3
import subprocess
s = open('/verif/DESIGN.md').read()
t = subprocess.run(['python3', '/verif/tools/seed_table.py'], capture_output=True, text=True).stdout
a, b = s.index('<!-- SEEDS-BEGIN -->') + len('<!-- SEEDS-BEGIN -->'), s.index('<!-- SEEDS-END -->')
open('/verif/DESIGN.md', 'w').write(s[:a] + '\n' + t + s[b:])
s = open('/verif/DESIGN.md').read()
import glob, json
n = 0; missed = []; per = {}
for f in sorted(glob.glob('/verif/seeded/*/meta.json')):
    m = json.load(open(f)); n += 1
    d = m.get('detected_by', '').lower()
    per[m['property']] = per.get(m['property'], 0) + 1
    if any(w in d for w in ('missed', 'added after', 'strengthened', 'first run inconclusive')):
        missed.append(m['seed_id'])
nosuite = [json.load(open(f))['seed_id'] for f in sorted(glob.glob('/verif/seeded/*/meta.json')) if 'existing_test_suite' not in json.load(open(f))]
txt = (f"Of the {n} changes ({', '.join(f'{k}: {v}' for k, v in sorted(per.items()))}), {n - len(missed)} were caught by the property's own "
       f"check as it stood when the change arrived and {len(missed)} were missed at first ({', '.join(missed)}); all {n} are "
       f"caught by the quick tier of the property's own check now."
       + (f" lerax's own suite with the change applied: see the last column (not yet run for: {', '.join(nosuite)})." if nosuite else
          " With every change applied lerax's own suite still gives 160 passed and the 7 baseline failures (last column)."))
import textwrap
a, b = s.index('<!-- STATS-BEGIN -->') + len('<!-- STATS-BEGIN -->'), s.index('<!-- STATS-END -->')
open('/verif/DESIGN.md', 'w').write(s[:a] + '\n' + textwrap.fill(txt, 100) + '\n' + s[b:])
print("updated")
