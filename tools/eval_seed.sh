#!/bin/bash
# eval_seed.sh <PID> <patch.diff> <demo.py> [extra ./check args]
# Applies a seeded change to a scratch worktree of /repo's HEAD, confirms the demonstration
# (passes without, fails with the change), then runs the property's check against the worktree.
PID=$1; PATCH=$(realpath "$2"); DEMO=$(realpath "$3"); shift 3
WT=/tmp/eval_wt_$$
git -C /repo worktree add -q --detach "$WT" HEAD || exit 9
cd "$WT"
echo "== demo on unchanged tree"; PYTHONPATH=$WT/src timeout 1200 /venv/bin/python "$DEMO" >/tmp/eval_demo0_$$.log 2>&1; echo "exit $?"
git apply "$PATCH" || { echo "PATCH DOES NOT APPLY"; cd /; git -C /repo worktree remove --force "$WT"; exit 8; }
echo "== demo with the change"; PYTHONPATH=$WT/src timeout 1200 /venv/bin/python "$DEMO" >/tmp/eval_demo1_$$.log 2>&1; echo "exit $?"; tail -3 /tmp/eval_demo1_$$.log
echo "== check $PID against the changed tree"
cd /verif && VERIF_REPO=$WT ./check "$PID" "$@" 2>&1 | grep -E "^\[C|VIOLATION|INCONCLUSIVE|KNOWN|  violation" | cut -c1-260
cd /; git -C /repo worktree remove --force "$WT"; rm -f /tmp/eval_demo0_$$.log /tmp/eval_demo1_$$.log
