"""throw-away driver for the MuJoCo half of C17"""
from checks.c17_mujoco import MJ_RULE as RULE, MJ_ASSUMPTIONS as ASSUMPTIONS, mujoco_units as units, run_mujoco_unit as run_unit
FLOOR = {"quick": 50, "thorough": 500}
