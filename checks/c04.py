"""C04 An on-policy rollout is a faithful record of the interaction."""

from __future__ import annotations

import numpy as np

RULE = ("cases = one environment stream of a rollout collected by the real PPO/A2C/REINFORCE "
        "collect_rollout/iteration on a random finite MDP (discrete with/without env masks, multi-binary, "
        "bounded Box with a wide policy so many samples need clipping; with/without TimeLimit and "
        "state-truncation so terminal-only, truncation-only and both-at-once endings occur), replayed by a "
        "pure-Python interpreter of the tables; non-trivial = the stream contains >= 1 done (and for Box >= 1 "
        "out-of-bounds sample); distinct by hash of (tables, actions, dones)")
FLOOR = {"quick": 20, "thorough": 200}
ASSUMPTIONS = ["RefMDP interpreter (vlib/mdp.py) is the semantics of the harness-defined FiniteMDP",
               "re-evaluation uses the unchanged policy's own evaluate_action/value (as the property states)",
               "for a stateful policy the bootstrap value is taken with the post-action policy state"]


def units(tier):
    return [{"name": n, "timeout": 2400} for n in ("discrete", "masked", "box", "box_rescaled", "box_halfbounded", "multibinary", "stateful",
                                                     "multidiscrete", "iteration")]


# --------------------------------------------------------------------------------------------
def _build(ctx, i, kind, masks=False, stub=False, rescale=False):
    from lerax.wrapper import TimeLimit
    from vlib.mdp import FiniteMDP, RefMDP, random_tables

    rng = ctx.rng
    nS = int(rng.integers(3, 8))
    if kind == "multibinary":
        nvec, nA = (2, 2), 4
    elif kind == "multidiscrete":
        nvec = (int(rng.integers(2, 4)), int(rng.integers(2, 4)))
        nA = nvec[0] * nvec[1]
    else:
        nvec, nA = (), int(rng.integers(2, 5))
    tabs = random_tables(rng, nS, nA, p_term=float(rng.choice([0.0, 0.15, 0.35])),
                         p_trunc=float(rng.choice([0.0, 0.0, 0.2])), with_masks=masks and kind == "discrete",
                         n_starts=int(rng.integers(1, 4)))

    def md_masks(n_states):
        # MultiDiscrete: one flat mask of sum(nvec) entries per state, every component keeps an allowed value
        m = rng.random((n_states, sum(nvec))) < 0.55
        o = 0
        for n in nvec:
            m[np.arange(n_states), o + rng.integers(0, n, n_states)] = True
            o += n
        return m

    if masks and kind == "multidiscrete":
        tabs["masks"] = md_masks(nS)
    tl = [None, 1, 2, 3, 5][int(rng.integers(0, 5))]
    if i % 4 == 0:
        # force terminal and time-limit truncation on the same step: chain of length L with TimeLimit L
        L = int(rng.integers(1, 4))
        nS = L + 1
        tabs["P"] = np.minimum(np.arange(nS)[:, None] + 1, nS - 1) * np.ones((1, nA), int)
        tabs["R"] = np.round(rng.normal(0, 1, (nS, nA)), 3).astype(np.float32)
        tabs["term"] = np.arange(nS) == L
        tabs["trunc"] = np.zeros(nS, bool)
        tabs["starts"] = np.array([0])
        if masks and kind == "multidiscrete":
            tabs["masks"] = md_masks(nS)
        elif masks:
            m = rng.random((nS, nA)) < 0.6
            m[np.arange(nS), rng.integers(0, nA, nS)] = True
            tabs["masks"] = m
        tl = L
    low, high = (-1.0, 1.0) if i % 2 == 0 else (-0.5, 2.0)
    kw = dict(trunc=tabs["trunc"], masks=tabs["masks"], kind=kind, nvec=nvec, low=low, high=high)
    env = FiniteMDP(tabs["P"], tabs["R"], tabs["term"], tabs["starts"], box_dim=int(rng.integers(1, 3)), **kw)
    ref = RefMDP(tabs["P"], tabs["R"], tabs["term"], tabs["starts"], time_limit=tl, **kw)
    if kind == "box" and rescale:
        # an action wrapper between the algorithm and the MDP: the algorithm must clip to the *wrapper's*
        # advertised box (-1, 1); the wrapper then maps affinely onto the MDP's own bounds
        from lerax.wrapper import RescaleAction

        env = RescaleAction(env)
        ref.outer = (-1.0, 1.0)
    if tl is not None:
        env = TimeLimit(env, tl)
    return env, ref, tabs, tl


def _unwrap(env_state, tl):
    """-> (FState arrays, step_count or None); further wrapper states (e.g. RescaleAction) are peeled off"""
    cnt = None
    if tl is not None:
        cnt = np.asarray(env_state.step_count)
        env_state = env_state.env_state
    while not hasattr(env_state, "s"):
        env_state = env_state.env_state
    return env_state, cnt


def _judge_stream(ctx, tag, ref, tl, gamma, st_in, st_out, buf, ev_values, ev_logp, boot_v, pol_n_in, pol_n_out,
                  pol_states, e, info):
    """Replay one environment's stream. All arrays are NumPy; index e selects the env."""
    f_in, c_in = st_in
    f_out, c_out = st_out
    T = buf["rewards"].shape[-1]
    pick = (lambda x: x) if e is None else (lambda x: x[e])
    s, t_ep, ret = int(pick(f_in["s"])), int(pick(f_in["t"])), float(pick(f_in["ret"]))
    cnt = None if c_in is None else int(pick(c_in))
    if tl is not None and cnt != t_ep:
        ctx.violation("timelimit-counter-out-of-step-with-episode-clock", {"cnt": cnt, "t": t_ep, **info})
    obs, act = pick(buf["obs"]), pick(buf["actions"])
    rew, done = pick(buf["rewards"]), pick(buf["dones"])
    vals, lps = pick(buf["values"]), pick(buf["log_probs"])
    masks = None if buf["masks"] is None else pick(buf["masks"])
    evv, evl, bv = pick(ev_values), pick(ev_logp), pick(boot_v)
    n_done, n_clip, kinds = 0, 0, set()
    pn = None if pol_n_in is None else int(pick(pol_n_in))
    ok = True

    def bad(key, d):
        nonlocal ok
        ok = False
        ctx.violation(key, {**d, **info, "step": k, "env": e})

    for k in range(T):
        ctx.monitor("steps_replayed")
        if int(np.argmax(obs[k])) != s or abs(float(obs[k][s]) - 1.0) > 1e-6:
            bad("recorded-observation-not-of-acting-state", {"want_s": s, "obs": obs[k]})
            return None
        if masks is not None:
            if not np.array_equal(masks[k], ref.masks[s]):
                bad("recorded-mask-not-env-mask", {"got": masks[k], "want": ref.masks[s]})
            if ref.kind == "discrete" and not bool(ref.masks[s][int(act[k])]):
                bad("masked-action-executed", {"action": act[k], "mask": ref.masks[s]})
            if ref.kind == "multidiscrete":
                ctx.monitor("multidiscrete_actions_checked_against_the_offered_mask")
                offs = np.concatenate([[0], np.cumsum(ref.nvec)[:-1]])
                if not all(bool(ref.masks[s][int(o_) + int(a_)]) for o_, a_ in zip(offs, np.asarray(act[k]).ravel())):
                    bad("masked-action-executed", {"action": act[k], "mask": ref.masks[s], "nvec": list(ref.nvec)})
        if pol_states is not None:
            if int(pick(pol_states)[k]) != pn:
                bad("stored-policy-state-not-the-acting-one", {"got": int(pick(pol_states)[k]), "want": pn})
        # re-evaluation under the unchanged policy reproduces the stored value / log-prob
        if abs(float(evv[k]) - float(vals[k])) > 1e-5 + 1e-4 * abs(float(vals[k])):
            bad("stored-value-not-reproduced", {"stored": vals[k], "re-evaluated": evv[k]})
        if abs(float(evl[k]) - float(lps[k])) > 1e-4 + 1e-4 * abs(float(lps[k])):
            bad("stored-logprob-not-of-stored-action",
                {"stored": lps[k], "re-evaluated": evl[k], "ratio": float(np.exp(float(evl[k]) - float(lps[k]))),
                 "action": act[k]})
        outer = getattr(ref, "outer", None)
        if outer is not None:
            a_out = np.clip(np.asarray(act[k], np.float32), np.float32(outer[0]), np.float32(outer[1]))
            a_exec = (np.float32(ref.low) + (a_out - np.float32(outer[0])) * np.float32((ref.high - ref.low) / (outer[1] - outer[0]))).astype(np.float32)
        else:
            a_exec = ref.clip(act[k])
        if ref.kind == "box":
            a32 = np.asarray(act[k], np.float32)
            blo, bhi = (outer if outer is not None else (ref.low, ref.high))
            # outside the bounds, or sitting exactly on a bound (probability zero for an unclipped sample)
            if np.any(a32 <= np.float32(blo)) or np.any(a32 >= np.float32(bhi)):
                n_clip += 1
                ctx.monitor("samples_needing_clipping")
            if np.any(a32 < np.float32(blo)) or np.any(a32 > np.float32(bhi)):
                ctx.monitor("stored_actions_outside_bounds")
        ns, r, term, trunc = ref.step(s, t_ep, a_exec)
        if bool(done[k]) != (term or trunc):
            bad("done-flag-not-terminal-or-truncated", {"done": bool(done[k]), "term": term, "trunc": trunc})
            return None
        boot = (trunc and not term)
        want = r + (gamma * float(bv[k]) if boot else 0.0)
        tol = 2e-5 + 1e-4 * abs(want)
        if abs(float(rew[k]) - want) > tol:
            alt_both = r + gamma * float(bv[k])
            r_unclipped = ref.reward(s, act[k]) if (ref.kind == "box" and outer is None) else r
            if term and trunc and abs(float(rew[k]) - alt_both) <= tol:
                bad("bootstrap-added-on-true-termination", {"got": rew[k], "want": want, "gammaV": gamma * float(bv[k])})
            elif boot and abs(float(rew[k]) - r) <= tol:
                bad("no-bootstrap-on-truncation", {"got": rew[k], "want": want})
            elif term and not trunc and abs(float(rew[k]) - alt_both) <= tol:
                bad("bootstrap-added-on-true-termination", {"got": rew[k], "want": want})
            elif abs(float(rew[k]) - (r_unclipped + (gamma * float(bv[k]) if boot else 0.0))) <= tol:
                bad("reward-computed-with-unclipped-action", {"got": rew[k], "want": want})
            else:
                bad("stored-reward-mismatch", {"got": rew[k], "want": want, "r": r, "boot": boot, "gammaV": gamma * float(bv[k])})
        if pn is not None:
            pn += 1
        if term or trunc:
            n_done += 1
            kinds.add("both" if (term and trunc) else ("term" if term else "trunc"))
            ctx.monitor("episode_ends_" + ("both" if (term and trunc) else ("terminal_only" if term else "truncation_only")))
            # next acting state must be a fresh initial state
            if k + 1 < T:
                s_next = int(np.argmax(obs[k + 1]))
            else:
                s_next = int(pick(f_out["s"]))
            if s_next not in ref.starts:
                bad("no-fresh-initial-state-after-done", {"next_s": s_next, "starts": ref.starts})
                return None
            s, t_ep, ret = s_next, 0, 0.0
            if pn is not None:
                pn = 0
        else:
            s, t_ep, ret = ns, t_ep + 1, ret + r
    # the carried-out step state is the replay's final state
    fs, ft, fr = int(pick(f_out["s"])), int(pick(f_out["t"])), float(pick(f_out["ret"]))
    if (fs, ft) != (s, t_ep):
        ctx.violation("carried-state-not-replay-final-state", {"got": [fs, ft], "want": [s, t_ep], **info, "env": e})
        ok = False
    elif abs(fr - ret) > 1e-4 + 1e-4 * abs(ret):
        ctx.violation("environment-not-driven-with-clipped-action",
                      {"episode_return_in_state": fr, "want": ret, **info, "env": e})
        ok = False
    if tl is not None and int(pick(c_out)) != t_ep:
        ctx.violation("timelimit-counter-not-restarted", {"got": int(pick(c_out)), "want": t_ep, **info, "env": e})
        ok = False
    if pn is not None and int(pick(pol_n_out)) != pn:
        ctx.violation("policy-state-not-restarted-after-done", {"got": int(pick(pol_n_out)), "want": pn, **info, "env": e})
        ok = False
    from vlib.common import digest

    nontrivial = n_done > 0 and (ref.kind != "box" or n_clip > 0)
    ctx.case({**info, "env": e, "T": T, "dones": int(n_done), "kinds": sorted(kinds), "clipped": n_clip,
              "h": digest(ref.P, ref.R, act, done)}, nontrivial=nontrivial, cls=f"{tag}/{'+'.join(sorted(kinds)) or 'no-done'}")
    return ok


def _collect_and_judge(ctx, tag, algo, env, ref, tl, pol, E, i, info, via_iteration=False):
    import equinox as eqx
    import jax
    from jax import random as jr

    cb = algo.consolidate_callbacks(None)
    st = algo.reset(env, pol, key=ctx.key(10_000 + i), callback=cb)
    results = []
    if via_iteration:
        captured = []
        cls = type(algo)
        orig_train = cls.train

        def spy(self, policy, opt_state, buffer, *, key):
            captured.append(buffer)
            return orig_train(self, policy, opt_state, buffer, key=key)

        cls.train = spy
        try:
            state = st
            for it in range(2):
                prev = state
                state = algo.iteration(state, key=ctx.key(20_000 + 10 * i + it), callback=cb)
                if len(captured) != it + 1:
                    ctx.inconc("train spy did not capture the rollout buffer")
                    return
                results.append((prev.step_state, state.step_state, captured[-1], prev.policy))
                ctx.monitor("iteration_rollouts_captured")
        finally:
            cls.train = orig_train
    else:
        if E == 1:
            ss, buf = eqx.filter_jit(algo.collect_rollout)(env, pol, st.step_state, cb, ctx.key(30_000 + i))
        else:
            ss, buf = eqx.filter_jit(eqx.filter_vmap(algo.collect_rollout, in_axes=(None, None, eqx.if_array(0), None, 0)))(
                env, pol, st.step_state, cb, jr.split(ctx.key(30_000 + i), E))
        results.append((st.step_state, ss, buf, pol))

    for (ss_in, ss_out, buf, policy) in results:
        batched = E > 1
        ev = lambda f: (jax.vmap(jax.vmap(f)) if batched else jax.vmap(f))  # noqa: E731
        _, evv, evl, _ = ev(lambda s, o, a, m: policy.evaluate_action(s, o, a, action_mask=m))(
            buf.states, buf.observations, buf.actions, buf.action_masks)
        # bootstrap candidates: V(observation of the successor of step k), successor from the interpreter
        f_in, c_in = _unwrap(ss_in.env_state, tl)
        f_out, c_out = _unwrap(ss_out.env_state, tl)
        F = lambda f: {k: np.asarray(getattr(f, k)) for k in ("s", "t", "ret")}  # noqa: E731
        obs = np.asarray(buf.observations)
        acts = np.asarray(buf.actions)
        shp = obs.shape[:-1]
        succ = np.zeros(shp, np.int64)
        flat_obs = obs.reshape(-1, obs.shape[-1])
        flat_act = acts.reshape((flat_obs.shape[0],) + acts.shape[len(shp):])
        for j in range(flat_obs.shape[0]):
            sj = int(np.argmax(flat_obs[j]))
            if getattr(ref, "outer", None) is not None:
                ao = np.clip(np.asarray(flat_act[j], np.float32), np.float32(ref.outer[0]), np.float32(ref.outer[1]))
                ae = (np.float32(ref.low) + (ao - np.float32(ref.outer[0])) * np.float32((ref.high - ref.low) / (ref.outer[1] - ref.outer[0]))).astype(np.float32)
            else:
                ae = ref.clip(flat_act[j])
            succ.reshape(-1)[j] = int(ref.P[sj, ref.a_index(ae)])
        succ_obs = np.eye(ref.nS, dtype=np.float32)[succ]
        stateful = getattr(buf.states, "n", None) is not None
        if stateful:
            from vlib.stubs import CountState

            post = CountState(buf.states.n + 1)
            bv = ev(lambda s, o: policy.value(s, o)[1])(post, succ_obs)
        else:
            bv = ev(lambda o: policy.value(None, o)[1])(succ_obs)
        B = {"obs": obs, "actions": acts, "rewards": np.asarray(buf.rewards), "dones": np.asarray(buf.dones),
             "values": np.asarray(buf.values), "log_probs": np.asarray(buf.log_probs),
             "masks": None if buf.action_masks is None else np.asarray(buf.action_masks)}
        pol_states = np.asarray(buf.states.n) if stateful else None
        pn_in = np.asarray(ss_in.policy_state.n) if stateful else None
        pn_out = np.asarray(ss_out.policy_state.n) if stateful else None
        if B["rewards"].shape != ((E, algo.num_steps) if batched else (algo.num_steps,)):
            ctx.violation("rollout-shape", {"got": B["rewards"].shape, **info})
            continue
        for e in (range(E) if batched else [None]):
            _judge_stream(ctx, tag, ref, tl, algo.gamma, (F(f_in), c_in), (F(f_out), c_out), B, np.asarray(evv),
                          np.asarray(evl), np.asarray(bv), pn_in, pn_out, pol_states, e, info)
            ctx.monitor("streams_judged")


def _algo(ctx, i, E, T):
    from lerax.algorithm import A2C, PPO, REINFORCE

    cls = [PPO, A2C, REINFORCE][i % 3]
    kw = dict(num_envs=E, num_steps=T, gamma=float(ctx.rng.uniform(0.5, 1.0)))
    if cls is PPO:
        kw.update(num_batches=1, num_epochs=1)
    return cls(**kw), cls.__name__


def _run_kind(ctx, kind, masks=False, stub=False, via_iteration=False, n=None, rescale=False):
    from lerax.policy import MLPActorCriticPolicy

    n = n or ctx.n(10, 60)
    for i in range(n):
        env, ref, tabs, tl = _build(ctx, i, kind, masks=masks, rescale=rescale)
        E = int(ctx.rng.integers(1, 5)) if not via_iteration else int(ctx.rng.integers(1, 4))
        T = int(ctx.rng.choice([1, 2, 5, 9, 16, 33, 64])) if not ctx.quick else int(ctx.rng.choice([1, 3, 8, 17, 32]))
        algo, aname = _algo(ctx, i, E, T)
        info = {"algo": aname, "kind": kind, "E": E, "T": T, "tl": tl, "masks": masks, "stub": stub, "i": i, "rescale_action": rescale}
        try:
            if stub:
                from vlib.stubs import CountingACPolicy

                pol = CountingACPolicy(env, key=ctx.key(i))
            else:
                pol = MLPActorCriticPolicy(env, key=ctx.key(i), feature_size=4, feature_width=8, value_width=8,
                                           action_width=8, log_std_init=float(ctx.rng.choice([0.0, 0.7, 1.5])))
        except Exception as ex:  # construction failure of a documented policy/space pair is C16/C18's finding
            ctx.notes["policy_not_constructible"] = f"{kind}: {type(ex).__name__}: {str(ex)[:200]}"
            ctx.monitor("policy_construction_failures")
            continue
        _collect_and_judge(ctx, kind + ("-masked" if masks else "") + ("-stub" if stub else ""), algo, env, ref, tl,
                           pol, E, i, info, via_iteration=via_iteration)


def u_box_halfbounded(ctx):
    """Box action spaces with half-bounded dimensions (low=0, high=inf and the reverse): the environment is driven, and
    its reward computed, with the action clipped to the finite bound of every dimension; the rollout keeps the action
    the policy chose. No time limit, so stored rewards carry no bootstrap term."""
    import equinox as eqx
    import jax
    import jax.numpy as jnp
    from jax import random as jr
    from lerax.algorithm import A2C, PPO
    from lerax.policy import MLPActorCriticPolicy
    from lerax.space import Box
    from vlib.mdp import FiniteMDP, RefMDP, random_tables

    for i in range(ctx.n(4, 20)):
        nS, nA = int(ctx.rng.integers(3, 7)), int(ctx.rng.integers(2, 5))
        tabs = random_tables(ctx.rng, nS, nA, p_term=float(ctx.rng.choice([0.0, 0.2])), p_trunc=0.0, n_starts=2)
        low, high = -1.0, 1.0
        lo_v = np.array([low, 0.0, -np.inf], np.float32)
        hi_v = np.array([high, np.inf, 2.0], np.float32)
        base = FiniteMDP(tabs["P"], tabs["R"], tabs["term"], tabs["starts"], kind="box", box_dim=3, low=low, high=high)
        env = eqx.tree_at(lambda e: e.action_space, base, Box(jnp.asarray(lo_v), jnp.asarray(hi_v)))
        ref = RefMDP(tabs["P"], tabs["R"], tabs["term"], tabs["starts"], kind="box", low=low, high=high)
        pol = MLPActorCriticPolicy(env, key=ctx.key(i), feature_size=4, feature_width=8, value_width=8, action_width=8, log_std_init=0.7)
        E, T = int(ctx.rng.integers(1, 3)), int(ctx.rng.integers(6, 17))
        algo = [PPO(num_envs=E, num_steps=T, num_batches=1, num_epochs=1), A2C(num_envs=E, num_steps=T)][i % 2]
        cb = algo.consolidate_callbacks(None)
        st = algo.reset(env, pol, key=ctx.key(100 + i), callback=cb)
        if E == 1:
            _, buf = eqx.filter_jit(algo.collect_rollout)(env, pol, st.step_state, cb, ctx.key(200 + i))
            buf = jax.tree.map(lambda x: x[None] if hasattr(x, "shape") else x, buf)
        else:
            _, buf = eqx.filter_jit(eqx.filter_vmap(algo.collect_rollout, in_axes=(None, None, eqx.if_array(0), None, 0)))(
                env, pol, st.step_state, cb, jr.split(ctx.key(200 + i), E))
        obs, acts, rew, done = (np.asarray(x) for x in (buf.observations, buf.actions, buf.rewards, buf.dones))
        n_half = 0
        for e in range(E):
            for t in range(T):
                s = int(np.argmax(obs[e, t]))
                a = acts[e, t].astype(np.float32)
                a_exec = np.clip(a, lo_v, hi_v)
                beyond_half = bool(a[1] < 0.0 or a[2] > 2.0)
                n_half += int(beyond_half)
                want_r = float(ref.R[s, ref.a_index(a_exec)]) + ref.lin * float(np.sum(a_exec.astype(np.float64)))
                ctx.monitor("halfbounded_steps_replayed")
                if beyond_half:
                    ctx.monitor("samples_beyond_the_finite_bound_of_a_half_bounded_dimension")
                if abs(float(rew[e, t]) - want_r) > 2e-5 + 1e-4 * abs(want_r):
                    raw_r = float(ref.R[s, ref.a_index(a_exec)]) + ref.lin * float(np.sum(a.astype(np.float64)))
                    partial = np.where(np.isfinite(lo_v) & np.isfinite(hi_v), a_exec, a)
                    part_r = float(ref.R[s, ref.a_index(a_exec)]) + ref.lin * float(np.sum(partial.astype(np.float64)))
                    key = "stored-reward-mismatch"
                    if abs(float(rew[e, t]) - part_r) <= 2e-5 + 1e-4 * abs(part_r):
                        key = "half-bounded-action-dimension-not-clipped"
                    elif abs(float(rew[e, t]) - raw_r) <= 2e-5 + 1e-4 * abs(raw_r):
                        key = "reward-computed-with-unclipped-action"
                    ctx.violation(key, {"got": float(rew[e, t]), "want": want_r, "action": a, "executed": a_exec, "low": lo_v, "high": hi_v,
                                        "algo": type(algo).__name__, "E": E, "T": T, "i": i, "step": t, "env": e})
                    break
        ctx.case({"algo": type(algo).__name__, "E": E, "T": T, "i": i, "beyond_half_bounds": n_half}, nontrivial=n_half > 0,
                 cls="box-halfbounded")
    ctx.require("samples_beyond_the_finite_bound_of_a_half_bounded_dimension", 10)


def run_unit(name, ctx):
    if name == "box_halfbounded":
        return u_box_halfbounded(ctx)
    if name == "discrete":
        _run_kind(ctx, "discrete")
    elif name == "masked":
        _run_kind(ctx, "discrete", masks=True)
    elif name == "box":
        _run_kind(ctx, "box")
        ctx.require("samples_needing_clipping", 5)
    elif name == "box_rescaled":
        _run_kind(ctx, "box", rescale=True, n=ctx.n(6, 40))
        ctx.require("samples_needing_clipping", 5)
    elif name == "multibinary":
        _run_kind(ctx, "multibinary", n=ctx.n(6, 30))
    elif name == "multidiscrete":
        _run_kind(ctx, "multidiscrete", n=ctx.n(6, 30))
        _run_kind(ctx, "multidiscrete", masks=True, n=ctx.n(6, 30))
        if ctx.monitors.get("policy_construction_failures"):
            # C16/C18 own this defect; this unit then has nothing to observe and says so without failing C04
            ctx.case({"kind": "multidiscrete", "note": "policy not constructible on this tree"}, nontrivial=False)
            return
    elif name == "stateful":
        _run_kind(ctx, "discrete", stub=True, masks=bool(ctx.seed % 2))
    elif name == "iteration":
        _run_kind(ctx, "discrete", via_iteration=True, n=ctx.n(4, 20))
        _run_kind(ctx, "box", via_iteration=True, n=ctx.n(3, 12))
        ctx.require("iteration_rollouts_captured", 2)
    if name != "multidiscrete":
        ctx.require("streams_judged", 3)
