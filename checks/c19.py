"""C19 Reported performance numbers are faithful to what happened."""

from __future__ import annotations

import numpy as np

RULE = ("cases = (a) one random reward/done history pushed through the real LoggingCallbackStepState.next (eager, "
        "jit, vmapped over environments) against a float64 episode/EMA model; (b) one real learn() run of "
        "PPO/A2C/REINFORCE/DQN/SAC with the real LoggingCallback and a recording backend on a unit-reward chain MDP "
        "(episodes end by termination, by TimeLimit truncation, or both) whose logged statistics have a closed form; "
        "(c) one Python-loop run of real iteration() calls on a random MDP whose true reward stream is reconstructed "
        "from the captured rollouts / replay contents by the table interpreter; (d) one average_reward call on a "
        "deterministic MDP with a table policy (start-state returns are digits in base n+1 so the multiset of "
        "episodes is decodable). non-trivial = history with >= 2 episode ends / run with >= 2 log records / "
        ">= 2 start states; distinct by hash of inputs")
FLOOR = {"quick": 60, "thorough": 600}
ASSUMPTIONS = ["EMA starts from 0 (the callback's documented zero initial state)",
               "records are compared at float32 tolerance 1e-5 relative"]


def units(tier):
    return [{"name": n, "timeout": 2400} for n in ("next_direct", "learn_records", "iteration_records", "average_reward",
                                                     "average_reward_stateful", "average_reward_stochastic")]


# ----------------------------------------------------------------------------------- (a)
def _model(rewards, dones, alpha):
    """Property text: at every episode end blend sum of rewards / number of steps since the
    previous episode end with the smoothing factor; unchanged otherwise."""
    ar = al = 0.0
    ret, ln = 0.0, 0
    out = []
    for r, d in zip(rewards, dones):
        ret += float(r)
        ln += 1
        if d:
            ar = alpha * ret + (1 - alpha) * ar
            al = alpha * ln + (1 - alpha) * al
            ret, ln = 0.0, 0
        out.append((ar, al))
    return np.array(out)


def u_next_direct(ctx):
    import equinox as eqx
    import jax
    import jax.numpy as jnp
    from lerax.callback.logging.callback import LoggingCallbackStepState
    from vlib.common import digest

    def run(rewards, dones, alpha):
        def body(s, x):
            s = s.next(x[0], x[1], alpha)
            return s, (s.average_return, s.average_length, s.step)

        return jax.lax.scan(body, LoggingCallbackStepState.initial(), (rewards, dones))[1]

    jrun = eqx.filter_jit(run)
    vrun = eqx.filter_jit(jax.vmap(run, in_axes=(0, 0, None)))
    for i in range(ctx.n(60, 600)):
        T = int(ctx.rng.choice([1, 2, 5, 17, 64, 200]))
        p = float(ctx.rng.choice([0.0, 0.05, 0.3, 0.9, 1.0]))
        alpha = float(ctx.rng.choice([0.0, 1.0, 0.9, 0.5, ctx.rng.uniform(0, 1)]))
        E = int(ctx.rng.choice([1, 1, 3]))
        R = ctx.rng.normal(0, 3, (E, T)).astype(np.float32)
        D = ctx.rng.random((E, T)) < p
        if i % 5 == 0 and T > 4:
            D[:, 1:4] = True  # burst of consecutive one-step episodes
        mode = ["eager", "jit", "vmap"][i % 3]
        if mode == "vmap":
            ar, al, st = vrun(jnp.asarray(R), jnp.asarray(D), alpha)
        else:
            fn = run if (mode == "eager" and T <= 17) else jrun
            outs = [fn(jnp.asarray(R[e]), jnp.asarray(D[e]), alpha) for e in range(E)]
            ar, al, st = (np.stack([np.asarray(o[j]) for o in outs]) for j in range(3))
        ar, al, st = np.asarray(ar, np.float64), np.asarray(al, np.float64), np.asarray(st)
        ctx.case({"T": T, "p": p, "alpha": round(alpha, 4), "E": E, "mode": mode, "h": digest(R, D)},
                 nontrivial=bool((D.sum(axis=1) >= 2).any()), cls=f"next/{mode}")
        ctx.monitor("next_histories")
        for e in range(E):
            want = _model(R[e], D[e], alpha)
            scale = np.maximum(1.0, np.abs(np.cumsum(np.abs(R[e]))))
            if not np.all(np.abs(ar[e] - want[:, 0]) <= 2e-5 * scale + 1e-6):
                t = int(np.argmax(np.abs(ar[e] - want[:, 0])))
                ctx.violation("episode-return-statistic-not-ema-of-episode-sums",
                              {"t": t, "got": ar[e][t], "want": want[t, 0], "alpha": alpha, "dones": D[e][: t + 1].astype(int),
                               "rewards": R[e][: t + 1], "mode": mode})
            if not np.all(np.abs(al[e] - want[:, 1]) <= 2e-5 * np.maximum(1.0, want[:, 1]) + 1e-6):
                t = int(np.argmax(np.abs(al[e] - want[:, 1])))
                ctx.violation("episode-length-statistic-not-ema-of-episode-lengths",
                              {"t": t, "got": al[e][t], "want": want[t, 1], "alpha": alpha, "dones": D[e][: t + 1].astype(int), "mode": mode})
            # unchanged on non-done steps (exact)
            nd = ~D[e]
            prev = np.concatenate([[0.0], ar[e][:-1]])
            if not np.array_equal(ar[e][nd], prev[nd]):
                ctx.violation("statistics-change-without-episode-end", {"alpha": alpha, "mode": mode})
            if not np.array_equal(st[e], np.arange(1, T + 1)):
                ctx.violation("step-counter-not-number-of-steps", {"got": st[e][:8]})


# ----------------------------------------------------------------------------------- backend
def _backend(recorder):
    import equinox as eqx
    from lerax.callback.logging.backend import AbstractLoggingBackend

    class RecBackend(AbstractLoggingBackend):
        rec: object = eqx.field(static=True)

        def open(self, name):
            self.rec.add(("open", name))

        def log_hparams(self, hparams):
            self.rec.add(("hparams", len(hparams)))

        def log_scalars(self, scalars, step):
            self.rec.add(("scalars", {k: float(np.asarray(v)) for k, v in scalars.items()}, int(np.asarray(step))))

        def log_video(self, tag, frames, step, fps):
            pass

        def close(self):
            self.rec.add(("close",))

    return RecBackend(recorder)


def _chain(L, nA, kind, tl, term):
    """Unit reward per step; episode = walk 0 -> L; ends by termination at L (term) and/or TimeLimit tl."""
    from lerax.wrapper import TimeLimit
    from vlib.mdp import FiniteMDP

    nS = L + 1
    P = np.minimum(np.arange(nS)[:, None] + 1, nS - 1) * np.ones((1, nA), int)
    if not term:
        P[nS - 1, :] = 0 if nS > 1 else 0  # cycle, never terminal
    R = np.ones((nS, nA), np.float32)
    env = FiniteMDP(P, R, (np.arange(nS) == L) & term, np.array([0]), kind=kind, box_dim=1, lin=0.0)
    return TimeLimit(env, tl) if tl else env


def u_learn_records(ctx):
    import jax
    from lerax.algorithm import A2C, DQN, PPO, REINFORCE, SAC
    from lerax.callback import LoggingCallback
    from lerax.policy import MLPActorCriticPolicy, MLPQPolicy, MLPSACPolicy
    from vlib.stubs import Recorder

    names = ["PPO", "DQN", "A2C", "SAC", "REINFORCE"]
    for c in range(ctx.n(5, 30)):
        name = names[c % 5]
        kind = "box" if name == "SAC" else "discrete"
        ending = ["trunc", "term", "both"][(c // 5 + c) % 3]
        L = int(ctx.rng.integers(1, 6))
        if ending == "trunc":
            tl, term, Lep = L, False, L
        elif ending == "term":
            tl, term, Lep = None, True, L
        else:
            tl, term, Lep = L, True, L
        env = _chain(max(L, 1) if ending != "trunc" else L + 2, 3, kind, tl, term)
        E, S = int(ctx.rng.integers(1, 4)), int(ctx.rng.integers(1, 7))
        alpha = float(ctx.rng.choice([1.0, 0.9, 0.5, 0.25]))
        ls = 0
        k = ctx.key(c)
        if name == "PPO":
            algo, pol = PPO(num_envs=E, num_steps=S, num_batches=1, num_epochs=1, gamma=0.9), MLPActorCriticPolicy(
                env, key=k, feature_size=4, feature_width=4, value_width=4, action_width=4)
        elif name == "A2C":
            algo, pol = A2C(num_envs=E, num_steps=S, gamma=0.9), MLPActorCriticPolicy(
                env, key=k, feature_size=4, feature_width=4, value_width=4, action_width=4)
        elif name == "REINFORCE":
            algo, pol = REINFORCE(num_envs=E, num_steps=S, gamma=0.9), MLPActorCriticPolicy(
                env, key=k, feature_size=4, feature_width=4, value_width=4, action_width=4)
        elif name == "DQN":
            ls = int(ctx.rng.integers(1, 6))
            algo, pol = DQN(buffer_size=64 * E, learning_starts=ls, num_envs=E, num_steps=S, batch_size=1), MLPQPolicy(
                env, key=k, width_size=4)
        else:
            ls = int(ctx.rng.integers(1, 6))
            algo, pol = SAC(buffer_size=64 * E, learning_starts=ls, num_envs=E, num_steps=S, batch_size=1, q_width_size=4,
                            q_depth=1), MLPSACPolicy(env, key=k, feature_size=4, width_size=4)
        K = int(ctx.rng.integers(2, 7))
        T = K * E * S + int(ctx.rng.integers(0, E * S))
        rec = Recorder()
        n_backends = [1, 2, 3][c % 3]
        others = [Recorder() for _ in range(n_backends - 1)]
        backends = [_backend(rec)] + [_backend(r) for r in others]
        cb = LoggingCallback(backends if n_backends > 1 else backends[0], name=f"run{c}", alpha=alpha)
        out = algo.learn(env, pol, T, key=ctx.key(1000 + c), callback=cb)
        jax.block_until_ready(jax.tree.leaves(out))
        jax.effects_barrier()
        cb.close()
        ev = rec.snapshot()
        # every configured backend receives the same records
        for bi, r in enumerate(others):
            ctx.monitor("additional_backends_compared")
            if [e for e in r.snapshot() if e[0] == "scalars"] != [e for e in ev if e[0] == "scalars"]:
                ctx.violation("backends-receive-different-records",
                              {"algo": name, "backends": n_backends, "backend": bi + 1,
                               "first_steps": [e[2] for e in ev if e[0] == "scalars"],
                               "this_steps": [e[2] for e in r.snapshot() if e[0] == "scalars"]})
        sc = [e for e in ev if e[0] == "scalars"]
        info = {"algo": name, "ending": ending, "episode_len": Lep, "E": E, "S": S, "alpha": alpha, "learning_starts": ls,
                "iterations": K}
        ctx.case(info, nontrivial=K >= 2, cls=f"learn/{name}/{ending}")
        ctx.monitor("learn_runs_with_logging")
        ctx.monitor("log_records_received", len(sc))
        if [e[0] for e in ev][:1] != ["open"] or ev[-1][0] != "close":
            ctx.violation("backend-lifecycle-open-log-close-broken", {**info, "events": [e[0] for e in ev][:6]})
        if len(sc) != K:
            ctx.violation("log-record-count-not-number-of-iterations", {**info, "records": len(sc)})
            continue
        steps = [e[2] for e in sc]
        want_steps = [E * (ls + (j + 1) * S) for j in range(K)]
        if steps != want_steps:
            if sorted(steps) == want_steps:
                ctx.violation("log-records-out-of-iteration-order", {**info, "steps": steps})
            else:
                ctx.violation("logged-step-not-cumulative-environment-steps", {**info, "steps": steps, "want": want_steps})
        for j, e in enumerate(sc):
            n_ep = (ls + (j + 1) * S) // Lep
            want = Lep * (1 - (1 - alpha) ** n_ep)
            got_r, got_l = e[1].get("episode/return"), e[1].get("episode/length")
            if got_r is None or got_l is None:
                ctx.violation("episode-statistics-missing-from-record", {**info, "keys": sorted(e[1])})
                break
            if abs(got_l - want) > 1e-5 * max(1, want) + 1e-6:
                ctx.violation("logged-episode-length-wrong", {**info, "record": j, "got": got_l, "want": want})
                break
            if abs(got_r - want) > 1e-5 * max(1, want) + 1e-6:
                key = "logged-episode-return-wrong"
                if name in ("PPO", "A2C", "REINFORCE") and ending == "trunc":
                    key = "logged-return-includes-bootstrap-value"
                ctx.violation(key, {**info, "record": j, "got": got_r, "want": want})
                break
    ctx.require("log_records_received", 6)
    ctx.require("additional_backends_compared", 2)


# ----------------------------------------------------------------------------------- (c)
def u_iteration_records(ctx):
    """Random MDP, real iteration() loop with the real LoggingCallback; the true reward stream is
    rebuilt by the table interpreter from what was collected."""
    import jax
    from lerax.algorithm import DQN, PPO
    from lerax.callback import LoggingCallback
    from lerax.policy import MLPActorCriticPolicy, MLPQPolicy
    from lerax.wrapper import TimeLimit
    from vlib.mdp import FiniteMDP, RefMDP, random_tables
    from vlib.stubs import Recorder

    for c in range(ctx.n(6, 40)):
        name = ["PPO", "DQN"][c % 2]
        nS, nA = int(ctx.rng.integers(3, 7)), int(ctx.rng.integers(2, 4))
        tabs = random_tables(ctx.rng, nS, nA, p_term=0.25)
        tl = int(ctx.rng.integers(2, 6))
        env = TimeLimit(FiniteMDP(tabs["P"], tabs["R"], tabs["term"], tabs["starts"], obs_kind="onehot_t"), tl)
        ref = RefMDP(tabs["P"], tabs["R"], tabs["term"], tabs["starts"], time_limit=tl)
        E, S = int(ctx.rng.integers(1, 4)), int(ctx.rng.integers(2, 9))
        alpha = float(ctx.rng.choice([1.0, 0.7, 0.3]))
        rec = Recorder()
        cb = LoggingCallback(_backend(rec), name=f"it{c}", alpha=alpha)
        K = int(ctx.rng.integers(2, 5))
        streams = [[] for _ in range(E)]  # per env list of (s, t, a, done)
        ls = 0
        if name == "PPO":
            algo = PPO(num_envs=E, num_steps=S, num_batches=1, num_epochs=1, gamma=0.9)
            pol = MLPActorCriticPolicy(env, key=ctx.key(c), feature_size=4, feature_width=4, value_width=4, action_width=4)
            captured = []
            orig = PPO.train

            def spy(self, policy, opt_state, buffer, *, key):
                captured.append(buffer)
                return orig(self, policy, opt_state, buffer, key=key)

            PPO.train = spy
            try:
                st = algo.reset(env, pol, key=ctx.key(100 + c), callback=cb)
                for k in range(K):
                    st = algo.iteration(st, key=ctx.key(1000 * c + k), callback=cb)
            finally:
                PPO.train = orig
            for buf in captured:
                obs, act, dn = np.asarray(buf.observations), np.asarray(buf.actions), np.asarray(buf.dones)
                if E == 1:
                    obs, act, dn = obs[None], act[None], dn[None]
                for e in range(E):
                    for j in range(S):
                        streams[e].append((int(np.argmax(obs[e, j][:nS])), int(round(float(obs[e, j][nS]))), int(act[e, j]), bool(dn[e, j])))
        else:
            ls = int(ctx.rng.integers(1, 5))
            algo = DQN(buffer_size=256 * E, learning_starts=ls, num_envs=E, num_steps=S, batch_size=1, gamma=0.9)
            pol = MLPQPolicy(env, key=ctx.key(c), width_size=4, epsilon=0.5)
            st = algo.reset(env, pol, key=ctx.key(100 + c), callback=cb)
            for k in range(K):
                st = algo.iteration(st, key=ctx.key(1000 * c + k), callback=cb)
            b = st.step_state.buffer
            obs, act, dn, pos = np.asarray(b.observations), np.asarray(b.actions), np.asarray(b.dones), np.asarray(b.position)
            if E == 1:
                obs, act, dn, pos = obs[None], act[None], dn[None], pos[None]
            for e in range(E):
                for j in range(int(pos[e])):
                    streams[e].append((int(np.argmax(obs[e, j][:nS])), int(round(float(obs[e, j][nS]))), int(act[e, j]), bool(dn[e, j])))
        jax.effects_barrier()
        cb.close()
        sc = [e for e in rec.snapshot() if e[0] == "scalars"]
        info = {"algo": name, "E": E, "S": S, "alpha": alpha, "tl": tl, "K": K, "learning_starts": ls}
        n_done = sum(x[3] for s in streams for x in s)
        ctx.case({**info, "dones": int(n_done), "c": c}, nontrivial=n_done >= 2, cls=f"iteration/{name}")
        ctx.monitor("iteration_runs_with_logging")
        if len(sc) != K:
            ctx.violation("log-record-count-not-number-of-iterations", {**info, "records": len(sc)})
            continue
        # true reward stream from the interpreter; done flags cross-checked
        per_env = []
        bad = False
        for e in range(E):
            rs, ds = [], []
            for (s, t, a, d) in streams[e]:
                ns, r, term, trunc = ref.step(s, t, a)
                if d != (term or trunc):
                    bad = True
                rs.append(r)
                ds.append(term or trunc)
            per_env.append(_model(rs, ds, alpha))
        if bad:
            ctx.inconc("collected done flags disagree with the interpreter (C04/C05 territory)")
            continue
        for j, e in enumerate(sc):
            upto = ls + (j + 1) * S
            want_r = float(np.mean([m[upto - 1, 0] for m in per_env]))
            want_l = float(np.mean([m[upto - 1, 1] for m in per_env]))
            ctx.monitor("records_compared_with_reconstruction")
            if abs(e[1]["episode/return"] - want_r) > 1e-4 * max(1, abs(want_r)) + 1e-5:
                ctx.violation("logged-episode-return-wrong", {**info, "record": j, "got": e[1]["episode/return"], "want": want_r})
                break
            if abs(e[1]["episode/length"] - want_l) > 1e-4 * max(1, abs(want_l)) + 1e-5:
                ctx.violation("logged-episode-length-wrong", {**info, "record": j, "got": e[1]["episode/length"], "want": want_l})
                break
            if e[2] != E * upto:
                ctx.violation("logged-step-not-cumulative-environment-steps", {**info, "got": e[2], "want": E * upto})
                break
    ctx.require("records_compared_with_reconstruction", 6)


# ----------------------------------------------------------------------------------- (d)
def u_average_reward(ctx):
    import equinox as eqx
    from lerax.benchmark import average_reward
    from lerax.wrapper import TimeLimit
    from vlib.mdp import FiniteMDP, RefMDP, random_tables
    from vlib.stubs import TableACPolicy

    jar = eqx.filter_jit(average_reward)
    seen_starts_runs = 0
    for c in range(ctx.n(30, 300)):
        multi = c % 2 == 1
        cap_pre = [None, 1, 2, 4, 16, 0][int(ctx.rng.integers(0, 6))] if c % 7 else 0  # 0: the helper takes no step at all
        n_ep = int(ctx.rng.integers(1, 6))
        nA = int(ctx.rng.integers(2, 4))
        if multi:
            # m start states; start j walks a private path of length len_j to a terminal sink; total reward (n+1)^j
            m = int(ctx.rng.integers(2, 4))
            lens = [int(ctx.rng.integers(1, 4)) for _ in range(m)]
            nS = 1 + sum(lens)
            P = np.zeros((nS, nA), int)
            R = np.zeros((nS, nA), np.float32)
            term = np.zeros(nS, bool)
            term[0] = True
            starts, nxt = [], 1
            table = ctx.rng.integers(0, nA, nS)
            G = []
            for j in range(m):
                path = list(range(nxt, nxt + lens[j])) + [0]
                nxt += lens[j]
                starts.append(path[0])
                g = float((n_ep + 1) ** j)
                G.append(g)
                for u, v in zip(path[:-1], path[1:]):
                    P[u, :] = v
                R[path[0], table[path[0]]] = g  # reward only for the policy's action on the first step
                for u in path[:-1]:
                    for a in range(nA):
                        if a != table[u]:
                            P[u, a] = u  # other actions would loop forever: the policy's action matters
            tabs = dict(P=P, R=R, term=term, starts=np.array(starts))
            tl = None
        else:
            nS = int(ctx.rng.integers(3, 8))
            tabs = random_tables(ctx.rng, nS, nA, p_term=0.25, n_starts=1)
            table = ctx.rng.integers(0, nA, nS)
            tl = [None, 2, 3, 6][int(ctx.rng.integers(0, 4))]
            if ((c // 2) % 2 == 0 or cap_pre == 0) and tl is None:
                tl = 3  # these cases take the uncapped path below (or would, if a zero cap were mistaken for "no cap"):
                #         the episode must end on its own
        env = FiniteMDP(tabs["P"], tabs["R"], tabs["term"], tabs["starts"])
        ref = RefMDP(tabs["P"], tabs["R"], tabs["term"], tabs["starts"], time_limit=tl)
        if tl:
            env = TimeLimit(env, tl)
        pol = TableACPolicy(env, table)
        det = bool(c % 3 == 0)
        played = table
        if not multi and c % 2 == 0:
            # a policy whose key-less action differs from its keyed one: the helper must play the requested mode
            from vlib.stubs import KeyAwareTablePolicy

            keyed = (table + 1 + ctx.rng.integers(0, nA - 1, nS)) % nA
            pol = KeyAwareTablePolicy(env, table, keyed)
            played = table if det else keyed
            ctx.monitor("evaluations_of_a_mode_sensitive_policy")
            ctx.monitor(f"evaluations_of_a_mode_sensitive_policy/{'deterministic' if det else 'sampling'}")

        def ref_return(s0, cap):
            s, t, tot = s0, 0, 0.0
            while cap is None or t < cap:
                ns, r, term, trunc = ref.step(s, t, int(played[s]))
                tot += r
                s, t = ns, t + 1
                if term or trunc:
                    return tot, True
                if cap is None and t > 10_000:
                    return None, False
            return tot, False

        cap = cap_pre
        if type(pol).__name__ == "KeyAwareTablePolicy" and (c // 2) % 2 == 0:
            cap = None  # the uncapped (while-loop) path of the helper
        rets = {int(s): ref_return(int(s), cap) for s in tabs["starts"]}
        if cap is None and any(v[0] is None for v in rets.values()):
            cap = 16  # episode never ends: only the capped helper is defined
            rets = {int(s): ref_return(int(s), cap) for s in tabs["starts"]}
        got = float(jar(env, pol, num_episodes=n_ep, max_steps=cap, deterministic=det, key=ctx.key(c)))
        info = {"multi_start": multi, "episodes": n_ep, "cap": cap, "tl": tl, "deterministic": det, "c": c}
        ctx.case({**info, "nS": int(env.unwrapped.nS)}, nontrivial=multi or any(v[1] for v in rets.values()),
                 cls=f"average_reward/{'multi' if multi else 'single'}/{'while' if cap is None else 'scan'}")
        ctx.monitor("average_reward_calls")
        if type(pol).__name__ == "KeyAwareTablePolicy":
            ctx.monitor(f"mode_sensitive/{'while' if cap is None else 'scan'}/{'deterministic' if det else 'sampling'}")
        if not multi:
            want = rets[int(tabs["starts"][0])][0]
            if abs(got - want) > 1e-5 * max(1, abs(want)) + 1e-6:
                # name the mechanism
                s0 = int(tabs["starts"][0])
                full = ref_return(s0, None if cap is None else 10 * (cap or 1))[0]
                key = "average-reward-not-episode-return"
                if type(pol).__name__ == "KeyAwareTablePolicy":
                    other, played_saved = (pol.keyed if det else pol.table), played
                    played = np.asarray(other)
                    alt = ref_return(s0, cap)[0]
                    played = played_saved
                    if alt is not None and abs(got - alt) < 1e-5 * max(1, abs(alt)):
                        key = "average-reward-plays-the-other-mode-than-requested"
                if full is not None and cap is not None and abs(got - full) < 1e-5 * max(1, abs(full)):
                    key = "average-reward-ignores-step-cap"
                ctx.violation(key, {**info, "got": got, "want": want})
        elif cap == 0:
            ctx.monitor("zero_step_cap_evaluations")
            if got != 0.0:
                ctx.violation("average-reward-ignores-step-cap", {**info, "got": got, "want": 0.0})
        else:
            total = got * n_ep
            base = n_ep + 1
            # every episode ends (paths lead to the sink) unless the cap cuts it: the first-step reward is always collected
            digits, rem = [], int(round(total))
            for j in range(len(G)):
                digits.append(rem % base)
                rem //= base
            ok = abs(total - round(total)) < 1e-3 and rem == 0 and sum(digits) == n_ep
            if not ok:
                ctx.violation("average-reward-not-mean-of-n-episode-returns", {**info, "got": got, "n*mean": total, "returns": G})
            else:
                ctx.monitor("multiset_decoded")
                if n_ep >= 3 and max(digits) < n_ep:
                    seen_starts_runs += 1
                ctx.notes.setdefault("digit_samples", []).append(digits) if len(ctx.notes.get("digit_samples", [])) < 5 else None
    if seen_starts_runs == 0:
        ctx.violation("evaluation-episodes-not-independent", {"note": "no run with >= 3 episodes ever used two different start states"})
    ctx.require("multiset_decoded", 5)
    for k in ("while/deterministic", "while/sampling", "scan/deterministic", "scan/sampling"):
        ctx.require("mode_sensitive/" + k, 1)


def u_average_reward_stateful(ctx):
    """A policy whose action depends on its *internal state* (a step counter), not on the observation:
    the evaluation helper must carry the policy state along the episode."""
    import equinox as eqx
    import jax
    import jax.numpy as jnp
    from typing import ClassVar
    from lerax.benchmark import average_reward
    from lerax.policy import AbstractPolicy
    from lerax.wrapper import TimeLimit
    from vlib.mdp import FiniteMDP, RefMDP, random_tables
    from vlib.stubs import CountState

    class OpenLoop(AbstractPolicy):
        name: ClassVar[str] = "OpenLoop"
        action_space: object
        observation_space: object
        plan: jax.Array

        def __init__(self, env, plan):
            self.action_space, self.observation_space = env.action_space, env.observation_space
            self.plan = jnp.asarray(plan, jnp.int32)

        def reset(self, *, key):
            return CountState(jnp.array(0, jnp.int32))

        def __call__(self, state, observation, *, key=None, action_mask=None):
            return CountState(state.n + 1), self.plan[jnp.minimum(state.n, self.plan.shape[0] - 1)]

    jar = eqx.filter_jit(average_reward)
    for c in range(ctx.n(20, 150)):
        nS, nA = int(ctx.rng.integers(3, 7)), int(ctx.rng.integers(2, 4))
        tabs = random_tables(ctx.rng, nS, nA, p_term=0.2, n_starts=1)
        tl = int(ctx.rng.integers(2, 7))
        env = TimeLimit(FiniteMDP(tabs["P"], tabs["R"], tabs["term"], tabs["starts"]), tl)
        ref = RefMDP(tabs["P"], tabs["R"], tabs["term"], tabs["starts"], time_limit=tl)
        plan = ctx.rng.integers(0, nA, 8)
        cap = [None, 2, 4, 16][int(ctx.rng.integers(0, 4))]
        s, t, want, acts = int(tabs["starts"][0]), 0, 0.0, []
        while cap is None or t < cap:
            a = int(plan[min(t, 7)])
            acts.append(a)
            ns, r, term, trunc = ref.step(s, t, a)
            want += r
            s, t = ns, t + 1
            if term or trunc:
                break
        got = float(jar(env, OpenLoop(env, plan), num_episodes=int(ctx.rng.integers(1, 4)), max_steps=cap,
                        deterministic=bool(c % 2), key=ctx.key(c)))
        varied = len(set(acts)) > 1
        ctx.case({"plan": plan, "cap": cap, "tl": tl, "steps": t, "c": c}, nontrivial=varied,
                 cls=f"average_reward/stateful/{'while' if cap is None else 'scan'}")
        ctx.monitor("stateful_policy_evaluations")
        if varied:
            ctx.monitor("stateful_policy_evaluations_with_varying_actions")
        if abs(got - want) > 1e-5 * max(1, abs(want)) + 1e-6:
            ctx.violation("evaluation-does-not-carry-policy-state", {"got": got, "want": want, "plan": plan, "cap": cap, "tl": tl})
    ctx.require("stateful_policy_evaluations_with_varying_actions", 5)


def u_average_reward_stochastic(ctx):
    """A stochastic environment evaluated with a stochastic policy: every step the environment flips a fair coin
    with its transition key and pays 1 when the coin equals the action, and the policy plays a fair coin drawn
    with its own key. Independent draws give a return that is Binomial(T, 1/2); the mean over the episodes is
    judged inside a 6-sigma band of T/2 (and an all-agree / all-differ stream is what shared keys produce)."""
    import equinox as eqx
    import jax
    import jax.numpy as jnp
    from jax import random as jr
    from typing import ClassVar
    from lerax.benchmark import average_reward
    from lerax.env import AbstractEnv, AbstractEnvState
    from lerax.policy import AbstractPolicy
    from lerax.space import Box, Discrete

    class CoinState(AbstractEnvState):
        t: jax.Array
        hit: jax.Array

    class CoinEnv(AbstractEnv):
        name: ClassVar[str] = "CoinEnv"
        action_space: object
        observation_space: object
        T: int = eqx.field(static=True)

        def __init__(self, T):
            self.T = T
            self.action_space, self.observation_space = Discrete(2), Box(0.0, 1e6, shape=(1,))

        def initial(self, *, key):
            return CoinState(jnp.array(0, jnp.int32), jnp.array(0.0, jnp.float32))

        def action_mask(self, state, *, key):
            return None

        def transition(self, state, action, *, key):
            coin = jr.bernoulli(key, 0.5).astype(jnp.int32)
            return CoinState(state.t + 1, (coin == jnp.asarray(action).astype(jnp.int32)).astype(jnp.float32))

        def observation(self, state, *, key):
            return state.t[None].astype(jnp.float32)

        def reward(self, state, action, next_state, *, key):
            return next_state.hit

        def terminal(self, state, *, key):
            return state.t >= self.T

        def truncate(self, state):
            return jnp.array(False)

        def state_info(self, state):
            return {}

        def transition_info(self, state, action, next_state):
            return {}

        def default_renderer(self):
            raise NotImplementedError

        def render(self, state, renderer):
            raise NotImplementedError

    class CoinPolicy(AbstractPolicy):
        name: ClassVar[str] = "CoinPolicy"
        action_space: object
        observation_space: object

        def __init__(self, env):
            self.action_space, self.observation_space = env.action_space, env.observation_space

        def reset(self, *, key):
            return None

        def __call__(self, state, observation, *, key=None, action_mask=None):
            a = jnp.array(0, jnp.int32) if key is None else jr.bernoulli(key, 0.5).astype(jnp.int32)
            return None, a

    jar = eqx.filter_jit(average_reward)
    for c in range(ctx.n(6, 30)):
        T = int(ctx.rng.integers(3, 12))
        n_ep = int(ctx.rng.choice([256, 512, 1024]))
        cap = [None, T, T + 5, 64][c % 4]
        env = CoinEnv(T)
        got = float(jar(env, CoinPolicy(env), num_episodes=n_ep, max_steps=cap, deterministic=False, key=ctx.key(c)))
        mean, sd = T / 2.0, (T / 4.0) ** 0.5 / n_ep ** 0.5
        info = {"T": T, "episodes": n_ep, "cap": cap, "got": got, "expected": mean, "sigma_of_the_mean": sd}
        ctx.case(info, nontrivial=True, cls=f"average_reward/stochastic/{'while' if cap is None else 'scan'}")
        ctx.monitor("stochastic_evaluations")
        ctx.monitor(f"stochastic_evaluations/{'while' if cap is None else 'scan'}")
        if abs(got - mean) > 6.0 * sd:
            ctx.violation("average-reward-of-independent-coin-flips-outside-6-sigma",
                          {**info, "sigmas": (got - mean) / sd,
                           "note": "T or 0 is what an action key shared with the transition produces"})
    ctx.require("stochastic_evaluations/while", 1)
    ctx.require("stochastic_evaluations/scan", 3)


def run_unit(name, ctx):
    if name == "average_reward_stochastic":
        return u_average_reward_stochastic(ctx)
    if name == "average_reward_stateful":
        return u_average_reward_stateful(ctx)
    {"next_direct": u_next_direct, "learn_records": u_learn_records, "iteration_records": u_iteration_records,
     "average_reward": u_average_reward}[name](ctx)
