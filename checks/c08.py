"""C08 On-policy losses equal the published objectives (PPO clip, A2C, REINFORCE)."""

from __future__ import annotations

import numpy as np

RULE = ("cases = generated RolloutBuffers (random / huge / exactly-constant advantages, stored log-probs shifted so "
        "ratios fall inside, near and outside both clip edges with both advantage signs, stored values near/far "
        "for value clipping) x real MLPActorCriticPolicy on Discrete and Box spaces x every flag combination and "
        "coefficient grids, fed to the real static loss functions and their *_grad; float64 formulas from the "
        "property text are the oracle; one-sample buffers decide gradient support; real train_batch/train steps "
        "are compared with an independent optax chain. non-trivial = at least one sample's ratio outside the clip "
        "interval (PPO) or both advantage signs present (A2C/REINFORCE); distinct by hash of inputs. "
        "Excluded as ill-conditioned: advantage normalisation of constant advantages unless mean is exact in float32")
FLOOR = {"quick": 60, "thorough": 600}
ASSUMPTIONS = ["policy.evaluate_action outputs (float32) are inputs of the float64 reference formulas",
               "value error convention 0.5*MSE as the code documents (CleanRL)",
               "optax.clip_by_global_norm and optax.adam as independent reference optimiser"]


def units(tier):
    return [{"name": n, "timeout": 2400} for n in ("ppo_discrete", "ppo_box", "a2c_reinforce", "grad_support",
                                                     "onpolicy_ratio", "optimiser", "optimiser_iterations")]


def _env(ctx, kind, i):
    from vlib.mdp import FiniteMDP, random_tables

    nS, nA = int(ctx.rng.integers(3, 7)), int(ctx.rng.integers(2, 5))
    t = random_tables(ctx.rng, nS, nA)
    return FiniteMDP(t["P"], t["R"], t["term"], t["starts"], kind=kind, box_dim=int(ctx.rng.integers(1, 4)))


def _policy(ctx, env, i):
    from lerax.policy import MLPActorCriticPolicy

    return MLPActorCriticPolicy(env, key=ctx.key(i), feature_size=4, feature_width=8, value_width=8, action_width=8,
                                log_std_init=float(ctx.rng.uniform(-1, 0.5)))


def _gen_buffer(ctx, env, pol, N, adv_kind, i, clip=0.2):
    """Returns (RolloutBuffer, dict of float64 arrays as the oracle sees them)."""
    import jax
    import jax.numpy as jnp
    from jax import random as jr
    from lerax.buffer import RolloutBuffer

    rng = ctx.rng
    ks = jr.split(ctx.key(50_000 + i), N)
    obs = jax.vmap(lambda k: env.observation_space.sample(key=k))(ks)
    acts = jax.vmap(lambda k: env.action_space.sample(key=k))(jr.split(ctx.key(60_000 + i), N))
    if env.kind == "box":
        acts = acts * 1.5  # some outside the bounds as unclipped policy samples would be
    masks = None
    if env.kind == "discrete" and (i // 2) % 2 == 1:
        # an environment that offers action masks: the stored samples are allowed actions and every
        # quantity of the loss is the masked law's
        nA = env.action_space.n
        m = rng.random((N, nA)) < 0.6
        a_np = np.asarray(acts)
        m[np.arange(N), a_np] = True
        masks = jnp.asarray(m)
    _, v, lp, ent = jax.vmap(lambda o, a, mk: pol.evaluate_action(None, o, a, action_mask=mk))(obs, acts, masks)
    v, lp, ent = np.asarray(v, np.float64), np.asarray(lp, np.float64), np.asarray(ent, np.float64)
    if masks is not None:
        # independent masked log-softmax over the policy's own unmasked logits
        _, _, lp_unmasked, _ = jax.vmap(lambda o, a: pol.evaluate_action(None, o, a))(obs, acts)
        feats = jax.vmap(lambda o: pol.encoder(pol.observation_space.flatten_sample(o)))(obs)
        logits = np.asarray(jax.vmap(lambda f: pol.action_head(f).logits)(feats), np.float64)
        ml = np.where(np.asarray(masks), logits, -np.inf)
        ml = ml - np.log(np.sum(np.exp(ml - ml.max(axis=1, keepdims=True)), axis=1, keepdims=True)) - ml.max(axis=1, keepdims=True)
        lp_ref = ml[np.arange(N), np.asarray(acts)]
        lp = lp_ref  # the oracle's log-probs come from the reference masked softmax
    # target ratios: inside, near and beyond both edges
    choices = np.array([1.0, 1 - 0.5 * clip, 1 + 0.5 * clip, 1 - clip - 0.05, 1 + clip + 0.05, 1 - 3 * clip, 1 + 3 * clip,
                        1 - clip + 1e-3, 1 + clip - 1e-3, 0.2, 4.0])
    ratio = rng.choice(choices, size=N) * np.exp(rng.normal(0, 0.01, N))
    old_lp = (lp - np.log(ratio)).astype(np.float32)
    if adv_kind == "normal":
        adv = rng.normal(0, 1, N)
    elif adv_kind == "huge":
        adv = rng.normal(0, 1, N) * 1e5
    elif adv_kind == "skewed":
        adv = rng.standard_t(2, N) + 3
    elif adv_kind == "constant":
        adv = np.full(N, float(rng.choice([0.5, 1.0, -2.0])))
    else:
        raise ValueError(adv_kind)
    adv = adv.astype(np.float32)
    old_v = (v + rng.choice([0.0, 0.05, -0.05, 0.5, -0.5, 3.0], size=N) * rng.uniform(0.5, 1.5, N)).astype(np.float32)
    ret = (v + rng.normal(0, 1, N) * rng.choice([0.1, 1.0, 10.0], size=N)).astype(np.float32)
    buf = RolloutBuffer(observations=obs, actions=acts, rewards=jnp.zeros(N), dones=jnp.zeros(N, bool),
                        log_probs=jnp.asarray(old_lp), values=jnp.asarray(old_v), states=None, action_masks=masks,
                        returns=jnp.asarray(ret), advantages=jnp.asarray(adv))
    return buf, dict(masked=masks is not None, v=v, lp=lp, ent=ent, old_lp=old_lp.astype(np.float64), adv=adv.astype(np.float64),
                     old_v=old_v.astype(np.float64), ret=ret.astype(np.float64))


def _normalise(adv):
    a32 = adv.astype(np.float32)
    if np.all(a32 == a32[0]):
        return np.zeros_like(adv)  # exact-mean constant case: (A-mean)=0 exactly
    return (adv - adv.mean()) / (adv.std() + float(np.finfo(np.float32).eps))


def ppo_ref(d, normalize, clip, clip_value, vf_coef, ent_coef):
    log_ratio = d["lp"] - d["old_lp"]
    ratio = np.exp(log_ratio)
    approx_kl = np.mean(ratio - 1 - log_ratio)
    adv = _normalise(d["adv"]) if normalize else d["adv"]
    pol = -np.mean(np.minimum(ratio * adv, np.clip(ratio, 1 - clip, 1 + clip) * adv))
    if clip_value:
        vclip = d["old_v"] + np.clip(d["v"] - d["old_v"], -clip, clip)
        vl = np.mean(np.maximum((d["v"] - d["ret"]) ** 2, (vclip - d["ret"]) ** 2)) / 2
        vl_min = np.mean(np.minimum((d["v"] - d["ret"]) ** 2, (vclip - d["ret"]) ** 2)) / 2
    else:
        vl = vl_min = np.mean((d["v"] - d["ret"]) ** 2) / 2
    el = -np.mean(d["ent"])
    return dict(total=pol + vf_coef * vl + ent_coef * el, policy=pol, value=vl, entropy=el, approx_kl=approx_kl,
                value_min=vl_min, ratio=ratio, adv=adv)


def _cmp(a, b, scale=1.0, rtol=2e-4):
    return abs(float(a) - float(b)) <= rtol * max(abs(float(b)), scale) + 1e-6


def _const_ok(N, adv):
    # constant advantages are only well-conditioned under normalisation if the float32 mean is exact
    return (N & (N - 1)) == 0


def u_ppo(ctx, kind):
    import equinox as eqx
    from lerax.algorithm import PPO

    lossfn = eqx.filter_jit(PPO.ppo_loss)
    n = ctx.n(40, 400)
    for i in range(n):
        env = _env(ctx, kind, i)
        pol = _policy(ctx, env, i)
        N = int(ctx.rng.choice([1, 2, 8, 16, 37, 64]))
        adv_kind = ["normal", "huge", "skewed", "constant"][i % 4]
        clip = float(ctx.rng.choice([0.1, 0.2, 0.3]))
        normalize = bool((i // 4) % 2)
        clip_value = bool((i // 8) % 2)
        if normalize and (N == 1 or (adv_kind == "constant" and not _const_ok(N, None))):
            normalize = False
        vf, ec = float(ctx.rng.choice([0.0, 0.5, 1.0])), float(ctx.rng.choice([0.0, 0.01, 0.5]))
        buf, d = _gen_buffer(ctx, env, pol, N, adv_kind, i, clip)
        loss, stats = lossfn(pol, buf, normalize, clip, clip_value, vf, ec)
        ref = ppo_ref(d, normalize, clip, clip_value, vf, ec)
        outside = int(np.sum((ref["ratio"] < 1 - clip) | (ref["ratio"] > 1 + clip)))
        from vlib.common import digest

        ctx.case({"kind": kind, "N": N, "adv": adv_kind, "normalize": normalize, "clip_value": clip_value, "clip": clip,
                  "vf": vf, "ent": ec, "outside": outside, "h": digest(d["lp"], d["old_lp"], d["adv"])},
                 nontrivial=outside > 0, cls=f"ppo-{kind}/{adv_kind}/norm{int(normalize)}/vclip{int(clip_value)}")
        ctx.monitor("ppo_loss_evaluations")
        if d["masked"]:
            ctx.monitor("loss_evaluations_on_masked_buffers")
        sc = float(np.max(np.abs(ref["adv"]))) * float(np.max(ref["ratio"])) if N else 1.0
        info = {"kind": kind, "N": N, "adv": adv_kind, "normalize": normalize, "clip_value": clip_value, "clip": clip}
        if not _cmp(stats.policy_loss, ref["policy"], sc):
            ctx.violation("ppo-policy-loss-not-clipped-surrogate", {**info, "got": float(stats.policy_loss), "want": ref["policy"]})
        if not _cmp(stats.value_loss, ref["value"], float(np.max((d["v"] - d["ret"]) ** 2))):
            if clip_value and _cmp(stats.value_loss, ref["value_min"], 1.0):
                ctx.violation("ppo-value-clipping-takes-min-not-max",
                              {**info, "got": float(stats.value_loss), "want_max": ref["value"], "min": ref["value_min"]})
            else:
                ctx.violation("ppo-value-loss-mismatch", {**info, "got": float(stats.value_loss), "want": ref["value"]})
        if not _cmp(stats.entropy_loss, ref["entropy"], 1.0):
            ctx.violation("ppo-entropy-loss-mismatch", {**info, "got": float(stats.entropy_loss), "want": ref["entropy"]})
        if not _cmp(stats.approx_kl, ref["approx_kl"], float(np.max(ref["ratio"]))):
            ctx.violation("ppo-approx-kl-mismatch", {**info, "got": float(stats.approx_kl), "want": ref["approx_kl"]})
        want_total = float(stats.policy_loss) + vf * float(stats.value_loss) + ec * float(stats.entropy_loss)
        if not _cmp(loss, want_total, max(sc, 1.0)) or not _cmp(stats.total_loss, want_total, max(sc, 1.0)):
            ctx.violation("ppo-total-loss-not-weighted-sum", {**info, "got": float(loss), "want": want_total})


def u_a2c_reinforce(ctx):
    import equinox as eqx
    from lerax.algorithm import A2C, REINFORCE

    a2c = eqx.filter_jit(A2C.a2c_loss)
    rf = eqx.filter_jit(REINFORCE.reinforce_loss)
    n = ctx.n(40, 400)
    for i in range(n):
        kind = ["discrete", "box"][i % 2]
        env = _env(ctx, kind, i)
        pol = _policy(ctx, env, i)
        N = int(ctx.rng.choice([1, 2, 8, 16, 37, 64]))
        adv_kind = ["normal", "huge", "skewed", "constant"][(i // 2) % 4]
        normalize = bool((i // 8) % 2)
        if normalize and (N == 1 or (adv_kind == "constant" and not _const_ok(N, None))):
            normalize = False
        vf, ec = float(ctx.rng.choice([0.0, 0.5, 1.0])), float(ctx.rng.choice([0.0, 0.01, 0.5]))
        buf, d = _gen_buffer(ctx, env, pol, N, adv_kind, i)
        adv = _normalise(d["adv"]) if normalize else d["adv"]
        pl = -np.mean(d["lp"] * adv)
        vl = np.mean((d["v"] - d["ret"]) ** 2) / 2
        el = -np.mean(d["ent"])
        sc = float(np.max(np.abs(adv)) * np.max(np.abs(d["lp"])))
        from vlib.common import digest

        both = bool((adv > 0).any() and (adv < 0).any())
        which = "a2c" if (i // 16) % 2 == 0 else "reinforce"
        ctx.case({"algo": which, "kind": kind, "N": N, "adv": adv_kind, "normalize": normalize, "vf": vf, "ent": ec,
                  "h": digest(d["lp"], d["adv"], d["ret"])}, nontrivial=both, cls=f"{which}-{kind}/{adv_kind}/norm{int(normalize)}")
        info = {"algo": which, "kind": kind, "N": N, "adv": adv_kind, "normalize": normalize}
        if d["masked"]:
            ctx.monitor("loss_evaluations_on_masked_buffers")
            ctx.monitor(f"{which}_loss_evaluations_on_masked_buffers")
        if which == "a2c":
            loss, st = a2c(pol, buf, normalize, vf, ec)
            want = pl + vf * vl + ec * el
            ctx.monitor("a2c_loss_evaluations")
            if not _cmp(st.entropy_loss, el, 1.0):
                ctx.violation("a2c-entropy-loss-mismatch", {**info, "got": float(st.entropy_loss), "want": el})
        else:
            loss, st = rf(pol, buf, normalize, vf)
            want = pl + vf * vl
            ctx.monitor("reinforce_loss_evaluations")
        if not _cmp(st.policy_loss, pl, sc):
            ctx.violation(f"{which}-policy-loss-not-logprob-times-advantage", {**info, "got": float(st.policy_loss), "want": pl})
        if not _cmp(st.value_loss, vl, float(np.max((d["v"] - d["ret"]) ** 2))):
            ctx.violation(f"{which}-value-loss-mismatch", {**info, "got": float(st.value_loss), "want": vl})
        if not _cmp(loss, want, max(sc, 1.0)):
            ctx.violation(f"{which}-total-loss-not-weighted-sum", {**info, "got": float(loss), "want": want})


def _gnorm(tree):
    from vlib.common import inexact_leaves

    return float(np.sqrt(sum(float(np.sum(np.square(x.astype(np.float64)))) for x in inexact_leaves(tree))))


def u_grad_support(ctx):
    """A sample whose ratio left the clip interval in the direction its advantage favours
    contributes no policy gradient; every other sample does."""
    import equinox as eqx
    from lerax.algorithm import PPO

    g = eqx.filter_jit(PPO.ppo_loss_grad)
    n = ctx.n(40, 300)
    for i in range(n):
        kind = ["discrete", "box"][i % 2]
        env = _env(ctx, kind, i)
        pol = _policy(ctx, env, i)
        clip = float(ctx.rng.choice([0.1, 0.2, 0.3]))
        buf, d = _gen_buffer(ctx, env, pol, 1, "normal", i, clip)
        ratio = float(np.exp(d["lp"][0] - d["old_lp"][0]))
        if abs(ratio - (1 - clip)) < 5e-3 or abs(ratio - (1 + clip)) < 5e-3 or abs(d["adv"][0]) < 1e-3:
            continue  # too close to an edge to call
        adv = float(d["adv"][0])
        (_, _), grads = g(pol, buf, False, clip, False, 0.0, 0.0)
        gn = _gnorm(grads)
        should_be_zero = (adv > 0 and ratio > 1 + clip) or (adv < 0 and ratio < 1 - clip)
        ctx.case({"kind": kind, "ratio": round(ratio, 4), "adv": round(adv, 4), "clip": clip, "zero": should_be_zero},
                 nontrivial=True, cls=f"grad-support/{'clipped' if should_be_zero else 'active'}")
        ctx.monitor("one_sample_gradients")
        if should_be_zero:
            ctx.monitor("one_sample_gradients_in_clipped_region")
            if gn != 0.0:
                ctx.violation("ppo-clipped-sample-still-has-policy-gradient", {"ratio": ratio, "adv": adv, "clip": clip, "grad_norm": gn})
        else:
            if gn == 0.0 and kind == "discrete":
                # a one-hot/relu dead network could legitimately give zero; require a live log-prob gradient first
                (_, _), g2 = g(pol, buf, False, 10.0, False, 0.0, 0.0)
                if _gnorm(g2) > 0:
                    ctx.violation("ppo-active-sample-has-no-policy-gradient", {"ratio": ratio, "adv": adv, "clip": clip})
            elif gn == 0.0:
                (_, _), g2 = g(pol, buf, False, 10.0, False, 0.0, 0.0)
                if _gnorm(g2) > 0:
                    ctx.violation("ppo-active-sample-has-no-policy-gradient", {"ratio": ratio, "adv": adv, "clip": clip})
    ctx.require("one_sample_gradients_in_clipped_region", 5)


def u_onpolicy_ratio(ctx):
    """On data collected by the current policy every ratio is 1 and approx_kl is 0."""
    import equinox as eqx
    from jax import random as jr
    from lerax.algorithm import PPO
    from lerax.wrapper import TimeLimit

    n = ctx.n(8, 40)
    for i in range(n):
        kind = ["discrete", "box"][i % 2]
        env = TimeLimit(_env(ctx, kind, i), int(ctx.rng.integers(2, 6)))
        pol = _policy(ctx, env, i)
        stateful = kind == "discrete" and (i // 2) % 2 == 1
        if stateful:
            # a policy with memory: the log-prob stored at step t was computed from the memory *before* the step
            from vlib.stubs import CountingACPolicy

            pol = CountingACPolicy(env, key=ctx.key(i))
            ctx.monitor("onpolicy_buffers_of_a_stateful_policy")
        if kind == "box":
            pol = eqx.tree_at(lambda p: p.action_head.action_dist.log_std, pol,
                              replace_fn=lambda x: x * 0 + float(ctx.rng.choice([0.5, 1.0])))
        E, T = int(ctx.rng.integers(1, 4)), int(ctx.rng.integers(4, 33))
        algo = PPO(num_envs=E, num_steps=T, num_batches=1, num_epochs=1)
        cb = algo.consolidate_callbacks(None)
        st = algo.reset(env, pol, key=ctx.key(100 + i), callback=cb)
        if E == 1:
            _, buf = eqx.filter_jit(algo.collect_rollout)(env, pol, st.step_state, cb, ctx.key(200 + i))
        else:
            _, buf = eqx.filter_jit(eqx.filter_vmap(algo.collect_rollout, in_axes=(None, None, eqx.if_array(0), None, 0)))(
                env, pol, st.step_state, cb, jr.split(ctx.key(200 + i), E))
        flat = buf.flatten_axes()
        loss, stats = eqx.filter_jit(PPO.ppo_loss)(pol, flat, True, 0.2, False, 0.5, 0.0)
        adv = np.asarray(flat.advantages, np.float64)
        want_pl = -float(np.mean(_normalise(adv)))
        oob = 0
        if kind == "box":
            a = np.asarray(flat.actions)
            oob = int(np.sum((a < env.action_space.low) | (a > env.action_space.high)))
        ctx.case({"kind": kind, "E": E, "T": T, "oob": oob, "i": i, "stateful": stateful}, nontrivial=(kind != "box" or oob > 0),
                 cls=f"onpolicy-ratio/{kind}{'-stateful' if stateful else ''}")
        ctx.monitor("onpolicy_buffers")
        if abs(float(stats.approx_kl)) > 1e-5:
            ctx.violation("approx-kl-nonzero-on-own-data", {"approx_kl": float(stats.approx_kl), "kind": kind, "oob": oob,
                                                            "stateful_policy": stateful})
        if abs(float(stats.policy_loss) - want_pl) > 1e-4 + 1e-4 * abs(want_pl):
            ctx.violation("first-ratio-not-one-on-own-data", {"policy_loss": float(stats.policy_loss), "want": want_pl, "kind": kind})
    ctx.require("onpolicy_buffers", 4)
    ctx.require("onpolicy_buffers_of_a_stateful_policy", 2)


def u_optimiser(ctx):
    """Gradient updates go through clip_by_global_norm + adam: compare one real update with an
    independent optax chain on the same gradient; Adam's first moment exposes the clipped gradient."""
    import equinox as eqx
    import jax
    import optax
    from lerax.algorithm import A2C, PPO, REINFORCE
    from vlib.common import inexact_leaves

    n = ctx.n(12, 60)
    for i in range(n):
        kind = ["discrete", "box"][i % 2]
        env = _env(ctx, kind, i)
        pol = _policy(ctx, env, i)
        N = 16
        mgn = float(ctx.rng.choice([0.05, 0.5, 5.0]))
        lr = float(ctx.rng.choice([1e-3, 1e-2]))
        which = ["ppo", "a2c", "reinforce"][i % 3]
        buf, d = _gen_buffer(ctx, env, pol, N, "huge" if i % 2 else "normal", i)
        params = eqx.filter(pol, eqx.is_inexact_array)
        # every coefficient is *requested* through the constructor with a value of its own (no two equal, none at its
        # default); the reference below uses the requested numbers, not what the algorithm object says it stored
        vfc, entc = float(ctx.rng.choice([0.05, 0.25, 0.9])), float(ctx.rng.choice([0.0, 0.013, 0.07]))
        clipc, cvl = float(ctx.rng.choice([0.1, 0.3])), bool(i % 4 == 1)
        if which == "ppo":
            algo = PPO(num_envs=1, num_steps=N, num_batches=1, num_epochs=1, max_grad_norm=mgn, learning_rate=lr,
                       normalize_advantages=False, clip_coefficient=clipc, clip_value_loss=cvl,
                       value_loss_coefficient=vfc, entropy_loss_coefficient=entc)
            (ref_loss, _), grads = PPO.ppo_loss_grad(pol, buf, False, clipc, cvl, vfc, entc)
            opt_state = algo.optimizer.init(params)
            new_pol, new_opt, st_ = eqx.filter_jit(algo.train_batch)(pol, opt_state, buf)
            got_loss = float(st_.total_loss)
        elif which == "a2c":
            algo = A2C(num_envs=1, num_steps=N, max_grad_norm=mgn, learning_rate=lr, normalize_advantages=False,
                       value_loss_coefficient=vfc, entropy_loss_coefficient=entc)
            (ref_loss, _), grads = A2C.a2c_loss_grad(pol, buf, False, vfc, entc)
            opt_state = algo.optimizer.init(params)
            new_pol, new_opt, lg_ = eqx.filter_jit(algo.train)(pol, opt_state, buf, key=ctx.key(i))
            got_loss = float(lg_["loss"])
        else:
            algo = REINFORCE(num_envs=1, num_steps=N, max_grad_norm=mgn, learning_rate=lr, normalize_advantages=False,
                             value_loss_coefficient=vfc)
            (ref_loss, _), grads = REINFORCE.reinforce_loss_grad(pol, buf, False, vfc)
            opt_state = algo.optimizer.init(params)
            new_pol, new_opt, lg_ = eqx.filter_jit(algo.train)(pol, opt_state, buf, key=ctx.key(i))
            got_loss = float(lg_["loss"])
        ctx.monitor("train_losses_compared_with_requested_coefficients")
        if abs(got_loss - float(ref_loss)) > 1e-5 + 2e-4 * abs(float(ref_loss)):
            ctx.violation("training-loss-not-the-objective-with-the-requested-coefficients",
                          {"algo": which, "got": got_loss, "want": float(ref_loss), "value_loss_coefficient": vfc,
                           "entropy_loss_coefficient": entc, "clip_coefficient": clipc, "clip_value_loss": cvl, "max_grad_norm": mgn})
        gn = _gnorm(grads)
        ref_opt = optax.chain(optax.clip_by_global_norm(mgn), optax.adam(lr))
        upd, ref_state = ref_opt.update(grads, ref_opt.init(params), params)
        ref_pol = eqx.apply_updates(pol, upd)
        exceeded = gn > mgn
        ctx.case({"algo": which, "kind": kind, "max_grad_norm": mgn, "lr": lr, "grad_norm": round(gn, 4), "clipped": exceeded},
                 nontrivial=exceeded, cls=f"optimiser/{which}/{'clipped' if exceeded else 'unclipped'}")
        ctx.monitor("optimiser_steps")
        if exceeded:
            ctx.monitor("optimiser_steps_with_active_clipping")
        a, b = inexact_leaves(new_pol), inexact_leaves(ref_pol)
        p0 = inexact_leaves(pol)
        md = max(float(np.max(np.abs(x - y))) for x, y in zip(a, b) if x.size)
        moved = max(float(np.max(np.abs(x - y))) for x, y in zip(a, p0) if x.size)
        if md > 1e-6 + 1e-3 * lr:
            ctx.violation("parameter-update-not-clip-then-adam", {"algo": which, "maxdiff": md, "lr": lr, "moved": moved})
        if moved == 0.0 and gn > 0:
            ctx.violation("update-not-applied-to-policy", {"algo": which})
        # first moment of Adam = (1-b1) * clipped gradient
        def find_mu(o, depth=0):
            if hasattr(o, "mu") and hasattr(o, "nu"):
                return o.mu
            if depth > 6:
                return None
            kids = list(o) if isinstance(o, (tuple, list)) else [getattr(o, f) for f in getattr(o, "_fields", [])]
            if hasattr(o, "inner_state"):
                kids.append(o.inner_state)
            for k in kids:
                r = find_mu(k, depth + 1)
                if r is not None:
                    return r
            return None

        m_real, m_ref = find_mu(new_opt), find_mu(ref_state)
        mu_real = None if m_real is None else _gnorm(m_real)
        mu_ref = _gnorm(m_ref)
        if mu_real is None:
            ctx.inconc("could not locate Adam first moment in the real optimiser state")
        else:
            ctx.monitor("adam_first_moment_observed")
            if abs(mu_real - mu_ref) > 1e-6 + 1e-3 * mu_ref:
                ctx.violation("gradient-not-clipped-by-global-norm",
                              {"algo": which, "mu_norm": mu_real, "want": mu_ref, "grad_norm": gn, "max_grad_norm": mgn})
    ctx.require("optimiser_steps_with_active_clipping", 3)
    ctx.require("adam_first_moment_observed", 3)


def u_optimiser_iterations(ctx):
    """The optimiser is a stateful transformation: across real iteration() calls the state train() returns must be
    the state the next train() receives (invariant at the train() call boundary, observed by a recording wrapper),
    so Adam moments accumulate and a learning-rate schedule advances. A schedule that drops to 0 after k steps must
    freeze the policy from then on; with a constant rate every real update is compared with an independent
    optax chain whose state is carried across the iterations."""
    import equinox as eqx
    import jax
    import optax
    from lerax.algorithm import A2C, PPO, REINFORCE
    from lerax.wrapper import TimeLimit
    from vlib.common import inexact_leaves

    def bits(tree):
        return [np.asarray(x) for x in jax.tree.leaves(tree) if hasattr(x, "shape")]

    def same(a, b):
        la, lb = bits(a), bits(b)
        return len(la) == len(lb) and all(x.shape == y.shape and np.array_equal(x, y, equal_nan=True) for x, y in zip(la, lb))

    n = ctx.n(9, 45)
    for i in range(n):
        kind = ["discrete", "box"][i % 2]
        which = ["a2c", "reinforce", "ppo"][i % 3]
        env = TimeLimit(_env(ctx, kind, i), int(ctx.rng.integers(3, 9)))
        pol = _policy(ctx, env, i)
        E, T = int(ctx.rng.integers(1, 3)), int(ctx.rng.integers(4, 9))
        mgn = float(ctx.rng.choice([0.05, 0.5, 5.0]))
        lr0 = float(ctx.rng.choice([1e-3, 1e-2]))
        frozen_after = int(ctx.rng.integers(1, 3)) if (i // 3) % 2 == 1 else None  # optimiser steps until the rate is 0
        if frozen_after is not None and which == "ppo":
            frozen_after = 1  # the first minibatch step of the first epoch is live, every later one is frozen
        lr = lr0 if frozen_after is None else optax.piecewise_constant_schedule(lr0, {frozen_after: 0.0})
        if which == "a2c":
            algo = A2C(num_envs=E, num_steps=T, max_grad_norm=mgn, learning_rate=lr, normalize_advantages=False)
            grad = lambda p, b: A2C.a2c_loss_grad(p, b, False, algo.value_loss_coefficient, algo.entropy_loss_coefficient)[1]  # noqa: E731
            steps_per_iter = 1
        elif which == "reinforce":
            algo = REINFORCE(num_envs=E, num_steps=T, max_grad_norm=mgn, learning_rate=lr, normalize_advantages=False)
            grad = lambda p, b: REINFORCE.reinforce_loss_grad(p, b, False, algo.value_loss_coefficient)[1]  # noqa: E731
            steps_per_iter = 1
        else:
            ne, nb = int(ctx.rng.integers(1, 3)), int(ctx.rng.integers(1, 4))
            if (i // 3) % 2 == 1:
                ne, nb = int(ctx.rng.integers(1, 3)), int(ctx.rng.integers(2, 4))  # schedule cases: several minibatches per epoch
            algo = PPO(num_envs=E, num_steps=T, num_batches=nb, num_epochs=ne, max_grad_norm=mgn, learning_rate=lr)
            grad, steps_per_iter = None, ne * nb
        cls = type(algo)
        orig_train = cls.train
        calls = []

        def spy(self, policy, opt_state, buffer, *, key, _orig=orig_train, _calls=calls):
            out = _orig(self, policy, opt_state, buffer, key=key)
            _calls.append((policy, opt_state, buffer, out[0], out[1]))
            return out

        cls.train = spy
        try:
            cb = algo.consolidate_callbacks(None)
            st = algo.reset(env, pol, key=ctx.key(1000 + i), callback=cb)
            n_it = 4
            states = [st]
            for it in range(n_it):
                st = algo.iteration(st, key=ctx.key(2000 + 10 * i + it), callback=cb)
                states.append(st)
        finally:
            cls.train = orig_train
        if i % 4 == 3:
            jax.clear_caches()  # every case compiles its own programs; thousands of live executables exhaust the mappings
        if len(calls) != n_it:
            ctx.inconc(f"train() wrapper saw {len(calls)} calls in {n_it} iterations")
            continue
        desc = {"algo": which, "kind": kind, "E": E, "T": T, "max_grad_norm": mgn, "lr": lr0, "frozen_after": frozen_after,
                "steps_per_iter": steps_per_iter, "i": i}
        ctx.case(desc, nontrivial=True, cls=f"optimiser-iterations/{which}/{'schedule' if frozen_after else 'constant'}")
        params0 = eqx.filter(pol, eqx.is_inexact_array)
        ref_opt = optax.chain(optax.clip_by_global_norm(mgn), optax.adam(lr0))
        ref_state = ref_opt.init(params0)
        steps_done = 0
        for it, (p_in, o_in, buf, p_out, o_out) in enumerate(calls):
            ctx.monitor("train_calls_observed")
            prev_state, next_state = states[it], states[it + 1]
            if not same(o_in, prev_state.opt_state) or not same(p_in, prev_state.policy):
                ctx.violation("train-not-given-the-state-of-the-algorithm", {**desc, "iteration": it})
            if not same(o_out, next_state.opt_state):
                ctx.violation("optimiser-state-returned-by-train-not-kept", {**desc, "iteration": it})
            if not same(p_out, next_state.policy):
                ctx.violation("policy-returned-by-train-not-kept", {**desc, "iteration": it})
            if it > 0:
                ctx.monitor("optimiser_state_carry_checked")
                if not same(o_in, calls[it - 1][4]):
                    ctx.violation("optimiser-state-not-carried-to-next-iteration",
                                  {**desc, "iteration": it, "equals_initial_state": same(o_in, calls[0][1])})
            a, b = inexact_leaves(p_out), inexact_leaves(p_in)
            moved = max(float(np.max(np.abs(x - y))) for x, y in zip(a, b) if x.size)
            if frozen_after is not None:
                if steps_done < frozen_after:
                    # at least one optimiser step of this iteration ran at the live rate: it must be visible in the
                    # policy train() returns, whatever later (zero-rate) minibatch steps did after it
                    ctx.monitor("iterations_with_live_then_frozen_steps" if steps_done + steps_per_iter > frozen_after
                                else "iterations_with_live_steps_only")
                    if moved == 0.0:
                        ctx.violation("live-optimiser-steps-left-no-trace-in-the-returned-policy",
                                      {**desc, "iteration": it, "optimiser_steps_before": steps_done,
                                       "live_steps_this_iteration": min(frozen_after - steps_done, steps_per_iter)})
                if steps_done >= frozen_after:
                    ctx.monitor("frozen_schedule_iterations_checked")
                    if moved != 0.0:
                        ctx.violation("policy-moves-although-the-schedule-has-reached-zero",
                                      {**desc, "iteration": it, "optimiser_steps_before": steps_done, "moved": moved})
            elif grad is not None:
                g = grad(p_in, buf.flatten_axes())
                upd, ref_state = ref_opt.update(g, ref_state, eqx.filter(p_in, eqx.is_inexact_array))
                want = inexact_leaves(eqx.apply_updates(p_in, upd))
                gl = inexact_leaves(g)
                md = 0.0
                for x, y, gg in zip(a, want, gl):
                    ok = np.abs(gg) > 1e-6  # Adam's m/sqrt(v) is ill-conditioned where the gradient is at eps level
                    if x.size and ok.any():
                        md = max(md, float(np.max(np.abs(x - y)[ok])))
                ctx.monitor("iterations_compared_with_carried_reference_optimiser")
                if md > 1e-6 + 2e-2 * lr0:
                    ctx.violation("parameter-update-over-iterations-not-clip-then-adam-with-carried-state",
                                  {**desc, "iteration": it, "maxdiff": md, "moved": moved})
            steps_done += steps_per_iter
    ctx.require("optimiser_state_carry_checked", 9)
    ctx.require("frozen_schedule_iterations_checked", 3)
    ctx.require("iterations_with_live_then_frozen_steps", 1)
    ctx.require("iterations_compared_with_carried_reference_optimiser", 6)


def run_unit(name, ctx):
    if name == "optimiser_iterations":
        return u_optimiser_iterations(ctx)
    if name == "ppo_discrete":
        u_ppo(ctx, "discrete")
    elif name == "ppo_box":
        u_ppo(ctx, "box")
    elif name == "a2c_reinforce":
        u_a2c_reinforce(ctx)
    elif name == "grad_support":
        u_grad_support(ctx)
    elif name == "onpolicy_ratio":
        u_onpolicy_ratio(ctx)
    elif name == "optimiser":
        u_optimiser(ctx)
