"""C15 Action distributions are coherent probability laws."""

from __future__ import annotations

import itertools

import numpy as np

RULE = ("cases = one distribution object (class, parameter form, float32 parameters) of the seven lerax "
        "classes, built and queried by the real code under jit+vmap (batched parameters) and eagerly; "
        "discrete laws: log_prob/prob on the whole enumerated support, 16k-64k samples, 1k "
        "sample_and_log_prob pairs; continuous laws: log_prob/prob on a 1-D (or 2-D for d=2) quadrature "
        "grid placed by the harness over +-8 sigma of the base normal, samples and pairs as above; "
        "non-trivial = the law is not a point mass (discrete: >= 2 outcomes of positive probability) and, "
        "for continuous laws, 'resolved': >= 2000 float32 ulps per standard deviation at the centre and, for "
        "squashed laws, the +-7 sigma range of the base normal inside the region where float32 resolves "
        "the bound (saturating laws are only judged on local relations); distinct by hash of class, form, "
        "mode and parameters")
FLOOR = {"quick": 150, "thorough": 1500}
ASSUMPTIONS = [
    "float64 NumPy/SciPy arithmetic; softmax / sigmoid / normal density formulas are the definitions of "
    "the categorical / Bernoulli / normal laws; quadrature node placement is the harness's own change of "
    "variables (exact for any density), the integrand values come from the real log_prob/prob",
    "distreqx is a library: its wrappers are judged end-to-end through lerax, its internals are not",
    "tolerances: prob vs exp(log_prob) 1e-7 + 3e-5(1+|lp|) relative; discrete mass 1e-5; quadrature mass 1e-3; "
    "log_prob vs definition 2e-5 + 1e-5|lp| (+ float32 conditioning of the inverse squashing); "
    "statistical monitors per-case alpha 1e-6 (chi-square 1e-7) or 5.5 sigma",
    "excluded as ambiguous: density exactly at or outside the bounds of a squashed law; +inf Bernoulli "
    "logits; unnormalised probs; saturating squashed laws (|loc| + 7 scale beyond logit(1 - 2e-4 * "
    "max(1, max|bound| / width))) for the normalisation and sample/density monitors; Python-float "
    "bounds (the constructors reject them; noted, not judged)",
    "samples of a squashed law may exceed a bound by 2 float32 ulps of max(|low|,|high|) (rounding of "
    "low + (high-low)*1.0)",
]

S_QUICK, S_THOROUGH = 16384, 65536
K_PAIRS = 1024


def units(tier):
    t = 1500 if tier == "thorough" else 600
    return [{"name": n, "timeout": t} for n in
            ("categorical", "bernoulli", "multicat-flat", "multicat-seq", "normal", "squashednormal", "mvn", "squashedmvn")]


# --------------------------------------------------------------------------------------
# generic judge for a law on a finite enumerated support
# --------------------------------------------------------------------------------------

def _raises(ctx, cls, method, e, desc):
    ctx.violation(f"{cls}-{method}-raises", {"case": desc, "error": f"{type(e).__name__}: {str(e)[:300]}"})


def judge_finite(ctx, cls, desc, p_ref, lp, pr, ent, mode_idx, smp_idx, ss_idx, sl, lps,
                 mode_raw=None, lp_tol_scale=1.0, wrap_info=None):
    """All C15 relations for one law whose support has been enumerated.

    p_ref (M,) float64 reference probabilities from the definition; lp/pr (M,) real log_prob/prob on the
    support; ent real entropy; mode_idx index of the real mode in the support (-1 outside); smp_idx (S,)
    indices of real samples (-1 outside); ss_idx/sl (K,) real sample_and_log_prob; lps (K,) real
    log_prob(returned sample). wrap_info: what is needed to name the int8 mechanism when a law has more
    than 128 classes (classes, raw samples, whether the most probable index is >= 128)."""
    from vlib.c15_helpers import ALPHA_CHI, chi_square, note_max, note_min, prob_exp_mismatch, xlogx_sum

    lp, pr = np.asarray(lp, np.float64), np.asarray(pr, np.float64)
    M = len(p_ref)
    w = dict(desc)
    ok = True

    def bad(key, extra):
        nonlocal ok
        ok = False
        d = dict(w)
        d.update(extra)
        ctx.violation(f"{cls}-{key}", d)

    # prob == exp(log_prob)
    exc, i = prob_exp_mismatch(pr, lp)
    ctx.monitor("prob_vs_exp_logprob_points", M)
    if exc > 0:
        bad("prob-not-exp-logprob", {"index": i, "prob": pr[i], "log_prob": lp[i], "exp_log_prob": float(np.exp(lp[i]))})
    # total mass
    mass = float(np.sum(pr))
    note_max(ctx, "max_abs_discrete_mass_error", abs(mass - 1))
    ctx.monitor("discrete_mass_sums")
    if not abs(mass - 1) <= 1e-5:
        bad("mass-not-one", {"sum_prob": mass, "prob": pr})
    # log_prob vs the definition
    with np.errstate(divide="ignore"):
        lref = np.log(p_ref)
    inf_ref = ~np.isfinite(lref)
    tol = lp_tol_scale * (2e-5 + 1e-5 * np.abs(np.where(inf_ref, 0, lref)))
    err = np.where(inf_ref, np.where(lp == -np.inf, 0.0, np.inf), np.abs(lp - np.where(inf_ref, 0, lref)))
    # reference probabilities below float32 range may legitimately come out as -inf
    tiny = (~inf_ref) & (lref < -85.0) & (lp == -np.inf)
    err = np.where(tiny, 0.0, err)
    err = np.where(np.isnan(err), np.inf, err)
    note_max(ctx, "max_logprob_err_over_tol_discrete", np.max(err / tol))
    if np.any(err > tol):
        i = int(np.argmax(err - tol))
        bad("logprob-vs-definition", {"index": i, "got": lp[i], "want": lref[i], "tol": tol[i]})
    # entropy == -E[log p] (exact expectation over the enumerated support, real values) and vs definition
    if ent is not None:
        ent = float(ent)
        h_real, h_ref = xlogx_sum(lp), xlogx_sum(lref)
        ctx.monitor("entropy_vs_expectation")
        tol_h = 3e-5 + 1e-5 * abs(h_ref)
        note_max(ctx, "max_entropy_err_over_tol_discrete", max(abs(ent - h_real), abs(ent - h_ref)) / tol_h)
        if not (abs(ent - h_real) <= tol_h and abs(ent - h_ref) <= tol_h):
            bad("entropy-not-neg-expected-logprob", {"entropy": ent, "minus_sum_p_log_p_real": h_real, "definition": h_ref})
    # mode
    ctx.monitor("mode_checked")
    int8_wide = wrap_info is not None and wrap_info["classes"] > 128 and np.asarray(wrap_info["raw"]).dtype == np.int8
    mode_bad = None
    if mode_idx < 0:
        mode_bad = ("mode-outside-support", {"mode_value": mode_raw})
    elif not p_ref[mode_idx] >= np.max(p_ref) * (1 - 1e-5) - 1e-12:
        mode_bad = ("mode-not-most-probable", {"mode_value": mode_raw, "p_mode": p_ref[mode_idx], "p_max": float(np.max(p_ref))})
    if mode_bad is not None:
        if int8_wide and wrap_info["argmax_unrepresentable"]:
            # the most probable class index is >= 128 and the mode comes back as int8
            bad("mode-int8-wraps-above-128-classes", dict(mode_bad[1], classes=wrap_info["classes"], symptom=mode_bad[0]))
        else:
            bad(*mode_bad)
    # samples in the support, never of probability zero, and distributed as p_ref
    for name, idx in (("sample", smp_idx), ("sample_and_log_prob", ss_idx)):
        idx = np.asarray(idx)
        ctx.monitor("samples_support_checked", len(idx))
        out = int(np.sum(idx < 0))
        kname = name.replace("_", "-")
        wrapkey = f"{kname}-int8-wraps-above-128-classes"
        if out:
            if int8_wide:
                bad(wrapkey, {"classes": wrap_info["classes"], "outside": out, "of": len(idx),
                              "example": (lambda r: r[(r < 0) | (r >= wrap_info["classes"])][:8])(np.asarray(wrap_info["raw"]).ravel())})
            else:
                bad(f"{kname}-outside-support", {"outside": out, "of": len(idx)})
            continue  # the draws are not elements of the support: nothing further to compare
        counts = np.bincount(idx, minlength=M)
        stat, dof, pval, impossible = chi_square(counts, p_ref)
        if impossible:
            bad(wrapkey if int8_wide else f"{kname}-has-zero-probability", {"draws_of_zero_probability": impossible, "of": len(idx)})
        if dof >= 1:
            ctx.monitor("chi_square_tests")
            if not int8_wide:
                note_min(ctx, "min_chi_square_pvalue", pval)
            if pval < ALPHA_CHI:
                top = np.argsort(-np.abs(counts - p_ref * counts.sum()))[:6]
                bad(wrapkey if int8_wide else f"{kname}s-do-not-follow-probs",
                    {"chi2": stat, "dof": dof, "p": pval, "draws": int(counts.sum()), "cells": top,
                     "observed": counts[top], "expected": p_ref[top] * counts.sum()})
    # sample_and_log_prob returns the log-probability of the sample it returns
    sl, lps, ss_idx = np.asarray(sl, np.float64), np.asarray(lps, np.float64), np.asarray(ss_idx)
    ctx.monitor("sample_and_log_prob_pairs", len(sl))
    inb = ss_idx >= 0  # pairs whose sample is outside the support were reported above
    safe = np.where(inb, ss_idx, 0)
    with np.errstate(invalid="ignore"):
        d1 = np.where(sl == lps, 0.0, np.abs(sl - lps))
        d2 = np.where(sl == lp[safe], 0.0, np.abs(sl - lp[safe]))
    d = np.maximum(np.where(np.isnan(d1), np.inf, d1), np.where(np.isnan(d2), np.inf, d2))
    d = np.where(inb, d, 0.0)
    tol2 = 1e-5 + 1e-6 * np.abs(np.where(np.isfinite(sl), sl, 0))
    if np.any(d > tol2):
        i = int(np.argmax(d - tol2))
        wit = {"sample_support_index": int(ss_idx[i]), "returned_log_prob": float(sl[i]),
               "log_prob_of_returned_sample": float(lps[i]), "log_prob_of_same_value_as_int32": float(lp[ss_idx[i]])}
        if int8_wide and sl[i] == -np.inf and lps[i] == -np.inf and np.isfinite(lp[ss_idx[i]]):
            # the int8 sample is in the support, yet its log-probability comes back as -inf
            bad("log-prob-of-int8-sample-minus-inf-above-128-classes", dict(wit, classes=wrap_info["classes"]))
        elif int8_wide:
            bad("sample-and-log-prob-int8-wraps-above-128-classes", dict(wit, classes=wrap_info["classes"]))
        else:
            bad("sample-and-log-prob-inconsistent", wit)
    return ok


# --------------------------------------------------------------------------------------
# parameter generators (float32)
# --------------------------------------------------------------------------------------

def gen_logits(rng, n, kind):
    if kind == "gauss":
        l = rng.normal(0, float(rng.choice([0.1, 1.0, 5.0])), size=n)
    elif kind == "range":
        l = rng.uniform(-40, 40, size=n)
    elif kind == "peaked":
        l = rng.normal(0, 1, size=n)
        l[rng.integers(0, n)] += 30.0
    elif kind == "uniform":
        l = np.full(n, float(rng.normal(0, 3)))
    elif kind == "neginf":
        l = rng.normal(0, 2, size=n)
        k = int(rng.integers(1, n)) if n > 1 else 0
        l[rng.permutation(n)[:k]] = -np.inf
    else:
        raise ValueError(kind)
    return l.astype(np.float32)


LOGIT_KINDS = ("gauss", "range", "peaked", "uniform", "neginf", "gauss")


def gen_probs(rng, n, kind):
    if kind == "dirichlet":
        q = rng.dirichlet(np.full(n, float(rng.choice([0.3, 1.0, 10.0]))))
    elif kind == "zeros":
        q = rng.dirichlet(np.ones(n))
        k = int(rng.integers(1, n)) if n > 1 else 0
        q[rng.permutation(n)[:k]] = 0.0
    elif kind == "onehot":
        q = np.zeros(n)
        q[rng.integers(0, n)] = 1.0
    elif kind == "uniform":
        q = np.ones(n)
    else:
        raise ValueError(kind)
    q = np.where(q < 1e-30, 0.0, q)
    q = (q / q.sum()).astype(np.float32)
    q = (q / q.sum(dtype=np.float32)).astype(np.float32)
    return q


PROB_KINDS = ("dirichlet", "zeros", "dirichlet", "uniform", "onehot", "dirichlet")


def _favour_last(p, form):
    """In place: make the last class the most probable one (logits or normalised probs)."""
    if form == "logits":
        p[-1] = np.float32(np.max(p[np.isfinite(p)]) + 3.0)
    else:
        p *= np.float32(0.5)
        p[-1] += np.float32(1.0) - p.sum(dtype=np.float32)


def ref_probs(form, param):
    """Definition: logits are unnormalised log-probabilities, probs are probabilities."""
    from vlib.c15_helpers import log_softmax64

    p = np.asarray(param, np.float64)
    if form == "logits":
        return np.exp(log_softmax64(p))
    return p / p.sum()


def _nontrivial_p(p):
    return int(np.sum(np.asarray(p) > 0)) >= 2


# --------------------------------------------------------------------------------------
# Categorical
# --------------------------------------------------------------------------------------

def u_categorical(ctx):
    import equinox as eqx
    import jax
    import jax.numpy as jnp
    from jax import random as jr
    from lerax.distribution import Categorical
    from vlib.common import digest

    S = ctx.n(S_QUICK, S_THOROUGH)
    K = K_PAIRS

    def build(form, p):
        return Categorical(logits=p) if form == "logits" else Categorical(probs=p)

    def make(form, n, s):
        def one(p, key):
            d = build(form, p)
            vals = jnp.arange(n)
            ks = jr.split(key, s + K)
            ss, sl = jax.vmap(d.sample_and_log_prob)(ks[s:])
            return dict(lp=jax.vmap(d.log_prob)(vals), pr=jax.vmap(d.prob)(vals), ent=d.entropy(), mode=d.mode(),
                        smp=jax.vmap(d.sample)(ks[:s]), ss=ss, sl=sl, lps=jax.vmap(d.log_prob)(ss))
        return one

    def judge(form, n, p, o, mode, kind, cls="categorical"):
        p_ref = ref_probs(form, p)
        desc = {"class": "Categorical", "form": form, "n": n, "kind": kind, "mode": mode, "h": digest(p),
                "param_head": p[:8]}
        ctx.case(desc, nontrivial=_nontrivial_p(p_ref), cls=f"Categorical/{form}/{kind}/n{n}/{mode}")
        ctx.monitor("categorical_cases")

        def idx(a):
            a = np.asarray(a).astype(np.int64)
            return np.where((a >= 0) & (a < n), a, -1)
        m = int(np.asarray(o["mode"]))
        judge_finite(ctx, cls, desc, p_ref, o["lp"], o["pr"], o["ent"], int(idx(m)), idx(o["smp"]), idx(o["ss"]),
                     o["sl"], o["lps"], mode_raw=m, wrap_info={"classes": n, "raw": np.asarray(o["smp"]),
                                             "argmax_unrepresentable": int(np.argmax(p_ref)) >= 128})

    ns = [2, 3, 5, 17, 128]
    B = ctx.n(6, 96)
    ki = 0
    for form in ("logits", "probs"):
        for n in ns:
            kinds = LOGIT_KINDS if form == "logits" else PROB_KINDS
            klist = [kinds[i % len(kinds)] for i in range(B)]
            P = np.stack([(gen_logits if form == "logits" else gen_probs)(ctx.rng, n, k) for k in klist])
            try:
                f = eqx.filter_jit(jax.vmap(make(form, n, S)))
                out = jax.tree.map(np.asarray, f(jnp.asarray(P), jr.split(ctx.key(ki), B)))
            except Exception as e:  # a valid parameterisation must not raise
                _raises(ctx, "categorical", "jit-vmap", e, {"form": form, "n": n})
                continue
            finally:
                ki += 1
            for b in range(B):
                judge(form, n, P[b], {k: v[b] for k, v in out.items()}, "jit+vmap", klist[b])
            # eager: the same oracle on the un-jitted, un-batched call path
            for b in range(ctx.n(1, 3)):
                try:
                    o = jax.tree.map(np.asarray, make(form, n, 2048)(jnp.asarray(P[b]), ctx.key(10_000 + ki * 10 + b)))
                except Exception as e:
                    _raises(ctx, "categorical", "eager", e, {"form": form, "n": n, "param": P[b]})
                    continue
                judge(form, n, P[b], o, "eager", klist[b])
    # more than 128 classes: a valid parameterisation like any other (own case class so that a defect
    # there cannot hide the results above)
    for n in ([200, 129] if ctx.quick else [129, 200, 256, 300, 1000]):
        for form in ("logits", "probs"):
            Bw = ctx.n(3, 8)
            kinds = ["gauss", "peaked", "uniform"] if form == "logits" else ["dirichlet", "uniform", "zeros"]
            klist = [kinds[i % 3] for i in range(Bw)]
            P = np.stack([(gen_logits if form == "logits" else gen_probs)(ctx.rng, n, k) for k in klist])
            _favour_last(P[0], form)  # every run has a law whose most probable class is the last one
            try:
                f = eqx.filter_jit(jax.vmap(make(form, n, 4096)))
                out = jax.tree.map(np.asarray, f(jnp.asarray(P), jr.split(ctx.key(500 + ki), Bw)))
            except Exception as e:
                _raises(ctx, "categorical", "jit-vmap", e, {"form": form, "n": n})
                continue
            finally:
                ki += 1
            for b in range(Bw):
                judge(form, n, P[b], {k: v[b] for k, v in out.items()}, "jit+vmap", klist[b] + "-wide")
                ctx.monitor("categorical_cases_above_128_classes")
    # masked laws are action distributions like any other: the restriction of a law whose excluded classes carry
    # (almost) all of the mass -- excluded logits up to 500 above the allowed ones -- is still a coherent law
    def make_masked(n, s):
        def one(pm, key):
            lg, m = pm[:n], pm[n:] > 0.5
            d = Categorical(logits=lg).mask(m)
            vals = jnp.arange(n)
            ks = jr.split(key, s + K)
            ss, sl = jax.vmap(d.sample_and_log_prob)(ks[s:])
            return dict(lp=jax.vmap(d.log_prob)(vals), pr=jax.vmap(d.prob)(vals), ent=d.entropy(), mode=d.mode(),
                        smp=jax.vmap(d.sample)(ks[:s]), ss=ss, sl=sl, lps=jax.vmap(d.log_prob)(ss))
        return one

    for n in ([3, 17] if ctx.quick else [2, 3, 5, 17, 128]):
        Bm = ctx.n(8, 48)
        PM, gaps = [], []
        for b in range(Bm):
            lg = gen_logits(ctx.rng, n, "gauss")
            m = ctx.rng.random(n) < 0.6
            m[int(ctx.rng.integers(n))] = True
            if m.all():
                m[int(ctx.rng.integers(n))] = n == 1
            gap = [0.0, 40.0, 120.0, 500.0][b % 4]
            lg = np.where(m, lg, lg + gap).astype(np.float32)
            PM.append(np.concatenate([lg, m.astype(np.float32)]))
            gaps.append(gap)
        PM = np.stack(PM)
        try:
            out = jax.tree.map(np.asarray, eqx.filter_jit(jax.vmap(make_masked(n, S)))(jnp.asarray(PM), jr.split(ctx.key(900 + ki), Bm)))
        except Exception as e:
            _raises(ctx, "categorical", "jit-vmap-masked", e, {"form": "masked-logits", "n": n})
            continue
        finally:
            ki += 1
        for b in range(Bm):
            lg, m = PM[b][:n].astype(np.float64), PM[b][n:] > 0.5
            z = np.where(m, lg, -np.inf)
            p_ref = np.exp(z - z[m].max())
            p_ref = p_ref / p_ref.sum()
            o = {k: v[b] for k, v in out.items()}
            desc = {"class": "Categorical", "form": "masked-logits", "n": n, "excluded_logits_raised_by": gaps[b], "mode": "jit+vmap",
                    "h": digest(PM[b]), "logits": lg[:8], "mask": m[:8]}
            ctx.case(desc, nontrivial=bool((~m).any()), cls=f"Categorical/masked/gap{int(gaps[b])}/n{n}")
            ctx.monitor("categorical_masked_cases")

            def idx(a, n=n):
                a = np.asarray(a).astype(np.int64)
                return np.where((a >= 0) & (a < n), a, -1)
            mm = int(np.asarray(o["mode"]))
            judge_finite(ctx, "categorical-masked", desc, p_ref, o["lp"], o["pr"], o["ent"], int(idx(mm)), idx(o["smp"]), idx(o["ss"]),
                         o["sl"], o["lps"], mode_raw=mm)
    ctx.require("categorical_cases", 20)
    ctx.require("chi_square_tests", 10)
    ctx.require("sample_and_log_prob_pairs", 1000)
    ctx.require("categorical_cases_above_128_classes", 2)
    ctx.require("categorical_masked_cases", 8)


# --------------------------------------------------------------------------------------
# Bernoulli (a vector of independent binary laws; log_prob / entropy are per element)
# --------------------------------------------------------------------------------------

def gen_bern(rng, d, form, kind):
    if form == "logits":
        if kind == "gauss":
            l = rng.normal(0, 2, size=d)
        elif kind == "range":
            l = rng.uniform(-40, 40, size=d)
        else:  # neginf: what mask() produces
            l = rng.normal(0, 2, size=d)
            l[rng.permutation(d)[: int(rng.integers(1, d + 1))]] = -np.inf
        return l.astype(np.float32)
    if kind == "gauss":
        q = rng.uniform(0, 1, size=d)
    elif kind == "range":
        q = 10.0 ** rng.uniform(-8, 0, size=d)
        flip = rng.random(d) < 0.5
        q = np.where(flip, 1 - q, q)
    else:
        q = rng.uniform(0, 1, size=d)
        q[rng.permutation(d)[: int(rng.integers(1, d + 1))]] = rng.choice([0.0, 1.0])
    return q.astype(np.float32)


def bern_ref(form, param):
    x = np.asarray(param, np.float64)
    if form == "logits":
        with np.errstate(over="ignore"):
            p1 = np.exp(-np.logaddexp(0, -x))
            p0 = np.exp(-np.logaddexp(0, x))
        return p0, p1
    return 1.0 - x, x


def u_bernoulli(ctx):
    import equinox as eqx
    import jax
    import jax.numpy as jnp
    from jax import random as jr
    from lerax.distribution import Bernoulli
    from vlib.c15_helpers import ALPHA_CHI, chi_square, note_min
    from vlib.common import digest

    S = ctx.n(S_QUICK, S_THOROUGH)
    K = K_PAIRS

    def make(form, d, s):
        def one(p, key):
            dist = Bernoulli(logits=p) if form == "logits" else Bernoulli(probs=p)
            z, o = jnp.zeros(d, jnp.int32), jnp.ones(d, jnp.int32)
            ks = jr.split(key, s + K)
            ss, sl = jax.vmap(dist.sample_and_log_prob)(ks[s:])
            return dict(lp0=dist.log_prob(z), lp1=dist.log_prob(o), pr0=dist.prob(z), pr1=dist.prob(o),
                        lpF=dist.log_prob(z.astype(bool)), lpT=dist.log_prob(o.astype(bool)),
                        ent=dist.entropy(), mode=dist.mode(), smp=jax.vmap(dist.sample)(ks[:s]),
                        ss=ss, sl=sl, lps=jax.vmap(dist.log_prob)(ss))
        return one

    def judge(form, d, p, o, mode, kind):
        p0, p1 = bern_ref(form, p)
        desc = {"class": "Bernoulli", "form": form, "d": d, "kind": kind, "mode": mode, "h": digest(p), "param": p[:8]}
        nontriv = bool(np.any((p1 > 0) & (p1 < 1)))
        ctx.case(desc, nontrivial=nontriv, cls=f"Bernoulli/{form}/{kind}/d{d}/{mode}")
        ctx.monitor("bernoulli_cases")
        for name in ("ent", "mode", "lp0", "lp1"):
            if np.asarray(o[name]).shape != (d,):
                ctx.violation("bernoulli-shape", {"case": desc, "what": name, "shape": np.asarray(o[name]).shape})
                return

        def idx(a):
            a = np.asarray(a).astype(np.int64)
            return np.where((a >= 0) & (a <= 1), a, -1)
        for j in range(d):
            dj = dict(desc, element=j, p=float(p1[j]))
            judge_finite(ctx, "bernoulli", dj, np.array([p0[j], p1[j]]), [o["lp0"][j], o["lp1"][j]],
                         [o["pr0"][j], o["pr1"][j]], o["ent"][j], int(idx(o["mode"][j])), idx(o["smp"][:, j]),
                         idx(o["ss"][:, j]), o["sl"][:, j], o["lps"][:, j], mode_raw=int(o["mode"][j]))
        # boolean sample points mean the same as 0/1
        ctx.monitor("bernoulli_bool_points", 2 * d)
        if not (np.array_equal(o["lpF"], o["lp0"]) and np.array_equal(o["lpT"], o["lp1"])):
            ctx.violation("bernoulli-bool-vs-int-sample-point", {"case": desc, "lp_false": o["lpF"], "lp_0": o["lp0"],
                                                                  "lp_true": o["lpT"], "lp_1": o["lp1"]})
        # the elements are drawn independently: joint cell counts against the product of the marginals
        if d <= 4 and idx(o["smp"]).min() >= 0:
            cells = np.asarray(o["smp"]).astype(np.int64) @ (2 ** np.arange(d))
            pj = np.ones(1)
            for j in range(d):  # cell index = sum_j bit_j 2^j
                pj = np.concatenate([pj * p0[j], pj * p1[j]])
            stat, dof, pval, _ = chi_square(np.bincount(cells, minlength=2 ** d), pj)
            if dof >= 1:
                ctx.monitor("bernoulli_joint_chi_square")
                note_min(ctx, "min_chi_square_pvalue", pval)
                if pval < ALPHA_CHI:
                    ctx.violation("bernoulli-elements-not-independent", {"case": desc, "chi2": stat, "dof": dof, "p": pval})

    B = ctx.n(9, 120)
    kinds = ("gauss", "range", "edge")
    ki = 0
    for form in ("logits", "probs"):
        for d in (1, 3, 8):
            klist = [kinds[i % 3] for i in range(B)]
            P = np.stack([gen_bern(ctx.rng, d, form, k) for k in klist])
            ki += 1
            try:
                f = eqx.filter_jit(jax.vmap(make(form, d, S)))
                out = jax.tree.map(np.asarray, f(jnp.asarray(P), jr.split(ctx.key(ki), B)))
            except Exception as e:
                _raises(ctx, "bernoulli", "jit-vmap", e, {"form": form, "d": d})
                continue
            for b in range(B):
                judge(form, d, P[b], {k: v[b] for k, v in out.items()}, "jit+vmap", klist[b])
            for b in range(ctx.n(1, 3)):
                try:
                    o = jax.tree.map(np.asarray, make(form, d, 2048)(jnp.asarray(P[b]), ctx.key(10_000 + ki * 10 + b)))
                except Exception as e:
                    _raises(ctx, "bernoulli", "eager", e, {"form": form, "d": d, "param": P[b]})
                    continue
                judge(form, d, P[b], o, "eager", klist[b])
    ctx.require("bernoulli_cases", 20)
    ctx.require("chi_square_tests", 10)
    ctx.require("bernoulli_joint_chi_square", 3)
    ctx.require("sample_and_log_prob_pairs", 1000)


# --------------------------------------------------------------------------------------
# MultiCategorical (product law; flat + action_dims or sequence parameters)
# --------------------------------------------------------------------------------------

MC_DIMS = [(2, 3), (3, 3, 2), (5,), (4, 1, 6), (2, 2, 2, 2), (7, 11)]
MC_FORMS = ["flat-logits", "flat-probs", "seq-logits", "seq-probs", "seq-logits+dims"]


def u_multicategorical(ctx, which):
    import equinox as eqx
    import jax
    import jax.numpy as jnp
    from jax import random as jr
    from lerax.distribution import Categorical, MultiCategorical
    from vlib.common import digest

    S = ctx.n(S_QUICK, S_THOROUGH)
    K = K_PAIRS

    def make(form, dims, s):
        cuts = np.cumsum(dims)[:-1]
        support = jnp.asarray(np.array(list(itertools.product(*[range(n) for n in dims])), np.int32))
        kind = "logits" if "logits" in form else "probs"

        def one(flat, key):
            pieces = [flat[a:b] for a, b in zip([0, *cuts], [*cuts, sum(dims)])]  # harness-side split
            if form.startswith("flat"):
                d = MultiCategorical(**{kind: flat}, action_dims=dims)
            elif form.endswith("+dims"):
                d = MultiCategorical(**{kind: list(pieces)}, action_dims=list(dims))
            else:
                d = MultiCategorical(**{kind: tuple(pieces)})
            comps = [Categorical(**{kind: p}) for p in pieces]  # independently constructed components
            ks = jr.split(key, s + K)
            ss, sl = jax.vmap(d.sample_and_log_prob)(ks[s:])
            out = dict(lp=jax.vmap(d.log_prob)(support), pr=jax.vmap(d.prob)(support), ent=d.entropy(), mode=d.mode(),
                       smp=jax.vmap(d.sample)(ks[:s]), ss=ss, sl=sl, lps=jax.vmap(d.log_prob)(ss),
                       comp_lp=[jax.vmap(c.log_prob)(jnp.arange(n)) for c, n in zip(comps, dims)],
                       comp_ent=jnp.stack([c.entropy() for c in comps]))
            if max(dims) <= 128:
                # the same values as the narrowest integer type that holds them (actions stored compactly)
                out["lp_int8"] = jax.vmap(d.log_prob)(support.astype(jnp.int8))
            if support.shape[0] >= 12:
                # a block of points with two / three leading axes in one call (a rollout block [steps, envs, dims])
                out["lp_block23"] = d.log_prob(support[:6].reshape(2, 3, len(dims)))
                out["lp_block33"] = d.log_prob(support[:9].reshape(3, 3, len(dims)))
                out["lp_block223"] = d.log_prob(support[:12].reshape(2, 2, 3, len(dims)))
            return out
        return one, np.asarray(support)

    def gen(dims, form, kind_i):
        parts = []
        for j, n in enumerate(dims):
            if "logits" in form:
                parts.append(gen_logits(ctx.rng, n, LOGIT_KINDS[(kind_i + j) % len(LOGIT_KINDS)] if n > 1 else "gauss"))
            else:
                parts.append(gen_probs(ctx.rng, n, PROB_KINDS[(kind_i + j) % len(PROB_KINDS)] if n > 1 else "uniform"))
        return np.concatenate(parts)

    def judge(form, dims, flat, o, support, mode, tag=""):
        kind = "logits" if "logits" in form else "probs"
        cuts = np.cumsum(dims)[:-1]
        comps = [ref_probs(kind, p) for p in np.split(flat, cuts)]
        p_ref = np.ones(1)
        for c in comps:
            p_ref = (p_ref[:, None] * c[None, :]).ravel()
        desc = {"class": "MultiCategorical", "form": form, "dims": list(dims), "mode": mode, "h": digest(flat),
                "param_head": flat[:8]}
        ctx.case(desc, nontrivial=_nontrivial_p(p_ref), cls=f"MultiCategorical/{form}/{'x'.join(map(str, dims))}{tag}/{mode}")
        ctx.monitor("multicategorical_cases")
        k = len(dims)
        if np.asarray(o["mode"]).shape != (k,) or np.asarray(o["smp"]).shape[1:] != (k,) or np.asarray(o["lp"]).shape != (len(support),):
            ctx.violation("multicategorical-shape", {"case": desc, "mode_shape": np.asarray(o["mode"]).shape,
                                                     "sample_shape": np.asarray(o["smp"]).shape, "lp_shape": np.asarray(o["lp"]).shape})
            return

        def idx(a):
            a = np.asarray(a).astype(np.int64).reshape(-1, k)
            inside = np.all((a >= 0) & (a < np.asarray(dims)), axis=1)
            return np.where(inside, np.ravel_multi_index(tuple(np.where(inside[:, None], a, 0).T), dims), -1)
        judge_finite(ctx, "multicategorical", desc, p_ref, o["lp"], o["pr"], o["ent"], int(idx(o["mode"])[0]),
                     idx(o["smp"]), idx(o["ss"]), o["sl"], o["lps"], mode_raw=np.asarray(o["mode"]),
                     lp_tol_scale=float(k),
                     wrap_info={"classes": max(dims), "raw": np.asarray(o["smp"]),
                                "argmax_unrepresentable": any(int(np.argmax(c)) >= 128 for c in comps)})
        # product law: joint log_prob / entropy == sums over the independently constructed components
        want = np.zeros(len(support))
        for j in range(k):
            want = want + np.asarray(o["comp_lp"][j], np.float64)[support[:, j]]
        lp = np.asarray(o["lp"], np.float64)
        with np.errstate(invalid="ignore"):
            diff = np.where(lp == want, 0.0, np.abs(lp - want))
        diff = np.where(np.isnan(diff), np.inf, diff)
        ctx.monitor("product_law_points", len(support))
        tol = 1e-5 * k + 1e-6 * np.abs(np.where(np.isfinite(want), want, 0))
        if np.any(diff > tol):
            i = int(np.argmax(diff - tol))
            ctx.violation("multicategorical-logprob-not-sum-of-components",
                          {"case": desc, "value": support[i], "got": float(lp[i]), "want": float(want[i])})
        if "lp_int8" in o:
            ctx.monitor("log_prob_of_int8_values_points", len(support))
            a8, a32 = np.asarray(o["lp_int8"], np.float64), np.asarray(o["lp"], np.float64)
            if not np.array_equal(np.isfinite(a8), np.isfinite(a32)) or np.any(np.abs(a8 - a32)[np.isfinite(a32)] > 1e-6):
                j = int(np.argmax(np.where(np.isfinite(a32) & np.isfinite(a8), np.abs(a8 - a32), np.inf)))
                ctx.violation("multicategorical-log-prob-depends-on-the-integer-dtype-of-the-value",
                              {"case": desc, "value": support[j], "as_int8": float(a8[j]), "as_int32": float(a32[j])})
        for nm, shp in (("lp_block23", (2, 3)), ("lp_block33", (3, 3)), ("lp_block223", (2, 2, 3))):
            if nm in o:
                ctx.monitor("log_prob_of_value_blocks_points", int(np.prod(shp)))
                got_b, want_b = np.asarray(o[nm], np.float64), np.asarray(o["lp"], np.float64)[: int(np.prod(shp))].reshape(shp)
                fin_b = np.isfinite(want_b)
                if got_b.shape != want_b.shape or not np.array_equal(np.isfinite(got_b), fin_b) or np.any(np.abs(got_b - want_b)[fin_b] > 1e-5):
                    ctx.violation("multicategorical-log-prob-of-a-block-of-values-not-pointwise",
                                  {"case": desc, "block_shape": list(shp), "got_shape": list(got_b.shape), "got": got_b, "want": want_b})
        he = float(np.sum(np.asarray(o["comp_ent"], np.float64)))
        if not abs(float(o["ent"]) - he) <= 1e-5 * k + 1e-5 * abs(he):
            ctx.violation("multicategorical-entropy-not-sum-of-components", {"case": desc, "got": float(o["ent"]), "want": he})

    def support_of(dims):
        return np.array(list(itertools.product(*[range(n) for n in dims])), np.int32)

    def run_batched(form, dims, s, P, key):
        """jit(vmap(...)); the flat form is also run under vmap alone when jit cannot build it, so that
        a construction defect under jit does not hide what the splitting itself does."""
        one, _ = make(form, dims, s)
        keys = jr.split(key, len(P))
        try:
            return jax.tree.map(np.asarray, eqx.filter_jit(jax.vmap(one))(jnp.asarray(P), keys)), "jit+vmap"
        except Exception as e:
            if form.startswith("flat") and type(e).__name__ == "ConcretizationTypeError":
                ctx.violation("multicategorical-flat-form-raises-under-jit",
                              {"form": form, "dims": list(dims), "error": f"{type(e).__name__}: {str(e)[:200]}"})
            else:
                _raises(ctx, "multicategorical", "jit-vmap", e, {"form": form, "dims": dims})
        try:
            one, _ = make(form, dims, min(s, 8192))
            return jax.tree.map(np.asarray, jax.vmap(one)(jnp.asarray(P), keys)), "vmap"
        except Exception as e:
            _raises(ctx, "multicategorical", "vmap", e, {"form": form, "dims": dims})
            return None, None

    def direct_batch(form, dims, P, out):
        """The same B parameter rows given to ONE law with a leading batch axis (no vmap), as policies that
        receive batched observations do: every batched answer must be the per-row answer already judged."""
        kind = "logits" if "logits" in form else "probs"
        cuts = np.cumsum(dims)[:-1]
        Pj = jnp.asarray(P)
        pieces = [Pj[:, a:b] for a, b in zip([0, *cuts], [*cuts, sum(dims)])]
        desc = {"class": "MultiCategorical", "form": form, "dims": list(dims), "mode": "batched-parameters", "B": len(P),
                "h": digest(P)}
        try:
            if form.startswith("flat"):
                d = MultiCategorical(**{kind: Pj}, action_dims=dims)
            elif form.endswith("+dims"):
                d = MultiCategorical(**{kind: list(pieces)}, action_dims=list(dims))
            else:
                d = MultiCategorical(**{kind: tuple(pieces)})
            ent, mode = np.asarray(d.entropy()), np.asarray(d.mode())
            vals = jnp.asarray(np.asarray(out["ss"])[:, 0, :])  # one judged sample per row
            lp, pr = np.asarray(d.log_prob(vals)), np.asarray(d.prob(vals))
            s2, l2 = d.sample_and_log_prob(ctx.key(77))
            l2b = np.asarray(d.log_prob(s2))
            s2, l2 = np.asarray(s2), np.asarray(l2)
        except Exception as e:
            _raises(ctx, "multicategorical", "batched-parameters", e, desc)
            return
        ctx.case(desc, nontrivial=True, cls=f"MultiCategorical/{form}/{'x'.join(map(str, dims))}/batched-parameters")
        ctx.monitor("multicategorical_batched_parameter_laws")
        B_, k = len(P), len(dims)
        want_ent, want_mode = np.asarray(out["ent"], np.float64), np.asarray(out["mode"])
        want_lp = np.asarray(out["sl"], np.float64)[:, 0]
        if ent.shape != (B_,) or mode.shape != (B_, k) or lp.shape != (B_,) or s2.shape != (B_, k) or l2.shape != (B_,):
            ctx.violation("multicategorical-batched-parameters-shape",
                          {"case": desc, "entropy": ent.shape, "mode": mode.shape, "log_prob": lp.shape, "sample": s2.shape})
            return
        if np.any(np.abs(ent - want_ent) > 1e-5 * k + 1e-5 * np.abs(want_ent)):
            ctx.violation("multicategorical-batched-entropy-not-per-row", {"case": desc, "got": ent, "want": want_ent})
        if not np.array_equal(mode.astype(np.int64), want_mode.astype(np.int64)):
            ctx.violation("multicategorical-batched-mode-not-per-row", {"case": desc, "got": mode, "want": want_mode})
        fin = np.isfinite(want_lp)
        if np.any(np.abs(lp[fin] - want_lp[fin]) > 1e-4 + 1e-5 * np.abs(want_lp[fin])) or np.any(np.abs(pr[fin] - np.exp(want_lp[fin])) > 1e-5):
            ctx.violation("multicategorical-batched-log-prob-not-per-row", {"case": desc, "got": lp, "want": want_lp})
        if np.any(s2 < 0) or np.any(s2 >= np.asarray(dims)[None, :]):
            ctx.violation("multicategorical-batched-sample-outside-support", {"case": desc, "sample": s2})
        elif np.any(np.abs(l2 - l2b) > 1e-4 + 1e-5 * np.abs(l2b)):
            ctx.violation("multicategorical-batched-sample-and-log-prob-inconsistent", {"case": desc, "got": l2, "want": l2b})

    B = ctx.n(4, 48)
    ki = 0
    for dims in MC_DIMS:
        for form in MC_FORMS:
            if not form.startswith(which):
                continue
            if ctx.quick and (dims in ((5,), (2, 2, 2, 2)) or (form == "seq-logits+dims" and dims != (4, 1, 6))):
                continue
            P = np.stack([gen(dims, form, i) for i in range(B)])
            ki += 1
            out, how = run_batched(form, dims, S, P, ctx.key(ki))
            if out is None:
                continue
            for b in range(B):
                judge(form, dims, P[b], jax.tree.map(lambda v: v[b], out), support_of(dims), how)
            direct_batch(form, dims, P, out)
            if len(dims) > 1:
                direct_batch(form, dims, P[: len(dims)], jax.tree.map(lambda v: v[: len(dims)], out))  # B == components
            if ki % 3 == 0 or not ctx.quick:
                try:
                    one, support = make(form, dims, 2048)
                    o = jax.tree.map(np.asarray, one(jnp.asarray(P[0]), ctx.key(10_000 + ki)))
                except Exception as e:
                    _raises(ctx, "multicategorical", "eager", e, {"form": form, "dims": dims, "param": P[0]})
                    continue
                judge(form, dims, P[0], o, support, "eager")
    # a component with more than 128 classes
    # ... and laws whose components all fit int8 (<= 128 classes) while the concatenated parameter vector is
    # longer than 128 (int8 samples are then legitimate, but index arithmetic on them must not wrap)
    for dims in ([(3, 200), (100, 100)] if ctx.quick else [(3, 200), (129, 2), (2, 300), (100, 100), (127, 2, 2), (70, 70)]):
        for form in ("flat-logits", "seq-probs"):
            if not form.startswith(which):
                continue
            Bw = 3
            P = np.stack([gen(dims, form, 0 if i == 0 else 5) for i in range(Bw)])
            big = int(np.argmax(dims))
            a = int(np.sum(dims[:big]))
            _favour_last(P[0][a:a + dims[big]], form.split("-")[1])
            ki += 1
            out, how = run_batched(form, dims, 4096, P, ctx.key(ki))
            if out is None:
                continue
            for b in range(Bw):
                judge(form, dims, P[b], jax.tree.map(lambda v: v[b], out), support_of(dims), how, tag="-wide")
                ctx.monitor("multicategorical_cases_above_128_classes")
    ctx.require("multicategorical_cases", 20)
    ctx.require("product_law_points", 100)
    ctx.require("chi_square_tests", 10)
    ctx.require("multicategorical_cases_above_128_classes", 2)
    ctx.require("multicategorical_batched_parameter_laws", 4)


# --------------------------------------------------------------------------------------
# continuous laws in one dimension
# --------------------------------------------------------------------------------------

Z_GRID, Z_FULL, M_GRID = 8.0, 7.0, 961
R_MIN = 2000.0  # float32 ulps per standard deviation required before mass / KS / quadrature are judged


def normal_geom(loc, sc, m=M_GRID):
    """Quadrature nodes for Normal(loc, sc): y = x, uniform over +-8 sigma."""
    from vlib.c15_helpers import EPS32, normal_logpdf64

    loc, sc = float(loc), float(sc)
    xg = loc + sc * np.linspace(-Z_GRID, Z_GRID, m)
    return dict(xg=xg, h=float(xg[1] - xg[0]), yg=xg.astype(np.float32), jac=np.ones(m), to_x=lambda y: np.asarray(y, np.float64),
                lo=None, hi=None, full=True, R=sc / (EPS32 * (abs(loc) + 3 * sc)),
                lp_ref=lambda y: normal_logpdf64(y, loc, sc), ent_ref=0.5 * np.log(2 * np.pi * np.e * sc * sc),
                slp_tol=lambda y: 1.0 * np.abs((np.asarray(y, np.float64) - loc) / sc) * EPS32 * np.maximum(np.abs(y), 1e-30) / sc)


def squash_region(lo, hi):
    """|x| <= X is where float32 resolves y = lo + (hi-lo)*s(x) from the bounds (>= 1600 ulps away)."""
    from vlib.c15_helpers import logit64

    lo, hi = float(lo), float(hi)
    kappa = max(abs(lo), abs(hi)) / (hi - lo)
    delta = 2e-4 * max(1.0, kappa)
    return float(logit64(1 - delta)), kappa


def squashed_geom(loc, sc, lo, hi, m=M_GRID):
    """Nodes for a law on (lo, hi): harness's own change of variables y = lo + (hi-lo)*sigmoid(x), x uniform
    over the part of loc +- 8 sc that float32 resolves. The weights dy/dx belong to this map, so the
    quadrature is exact for any density on (lo, hi); only the integrand comes from the code under test."""
    from vlib.c15_helpers import EPS32, logit64, sigmoid64

    loc, sc, lo, hi = float(loc), float(sc), float(lo), float(hi)
    w = hi - lo
    X, kappa = squash_region(lo, hi)
    a, b = max(loc - Z_GRID * sc, -X), min(loc + Z_GRID * sc, X)
    if not a < b:  # the law lives entirely in the saturated region: a token grid around the centre of (lo, hi)
        a, b = -1.0, 1.0
    xg = np.linspace(a, b, m)
    s = sigmoid64(xg)
    full = (abs(loc) + Z_FULL * sc) <= X
    s3 = sigmoid64(np.array([loc - 3 * sc, loc + 3 * sc]))
    R = sc * float(np.min(s3 * (1 - s3))) / (EPS32 * max(kappa, 1.0))

    def to_x(y):
        return logit64((np.asarray(y, np.float64) - lo) / w)

    def slp_tol(y):
        u = (np.asarray(y, np.float64) - lo) / w
        x = logit64(u)
        with np.errstate(divide="ignore", invalid="ignore"):
            t = 4 * EPS32 * (kappa + 1.0) / (u * (1 - u)) * (np.abs(x - loc) / (sc * sc) + 1.0)
        return np.where((u > 0) & (u < 1), t, np.inf)
    return dict(xg=xg, h=float(xg[1] - xg[0]), yg=(lo + w * s).astype(np.float32), jac=w * s * (1 - s), to_x=to_x, lo=lo, hi=hi,
                full=bool(full), R=R, lp_ref=None, ent_ref=None, slp_tol=slp_tol, kappa=kappa, loc=loc, sc=sc)


def judge_1d(ctx, cls, desc, g, o, entropy_error=None):
    """C15 relations for a one-dimensional continuous law. o: real lp/pr on g['yg'], smp, ss, sl, lps, mode,
    pr_mode, ent (None when the code declares entropy undefined)."""
    from vlib.c15_helpers import ALPHA, EPS32, cumtrapz, ks_against_cdf, note_max, note_min, prob_exp_mismatch, trapz

    resolved = g["R"] >= R_MIN
    judged_global = resolved and g["full"]
    lp, pr = np.asarray(o["lp"], np.float64), np.asarray(o["pr"], np.float64)
    ok = True

    def bad(key, extra):
        nonlocal ok
        ok = False
        d = dict(desc)
        d.update(extra)
        ctx.violation(f"{cls}-{key}", d)

    exc, i = prob_exp_mismatch(pr, lp)
    ctx.monitor("prob_vs_exp_logprob_points", len(lp))
    if exc > 0:
        bad("prob-not-exp-logprob", {"y": float(g["yg"][i]), "prob": pr[i], "log_prob": lp[i]})
    if g["lp_ref"] is not None:
        ref = g["lp_ref"](np.asarray(g["yg"], np.float64))
        tol = 2e-5 + 1e-5 * np.abs(ref)
        err = np.abs(lp - ref)
        err = np.where(np.isnan(err), np.inf, err)
        note_max(ctx, "max_logprob_err_over_tol_continuous", np.max(err / tol))
        ctx.monitor("logprob_vs_density_formula_points", len(lp))
        if np.any(err > tol):
            i = int(np.argmax(err - tol))
            bad("logprob-vs-definition", {"y": float(g["yg"][i]), "got": lp[i], "want": ref[i]})
    integrand = np.where(np.isfinite(pr), pr, 0.0) * g["jac"]
    mass = trapz(integrand, g["h"])
    F = cumtrapz(integrand, g["h"])
    if judged_global:
        ctx.monitor("quadrature_mass_checked")
        note_max(ctx, "max_abs_quadrature_mass_error", abs(mass - 1))
        if not abs(mass - 1) <= 1e-3:
            bad("mass-not-one", {"integral_of_prob_over_support": mass, "R": g["R"]})
    elif resolved:
        ctx.monitor("partial_mass_checked")
        if not mass <= 1 + 1e-3:
            bad("mass-over-part-of-support-exceeds-one", {"integral": mass, "x_range": [g["xg"][0], g["xg"][-1]]})
    # entropy
    if o.get("ent") is not None:
        ent = float(o["ent"])
        sl = np.asarray(o["sl"], np.float64)
        ctx.monitor("entropy_defined_cases")
        if g["ent_ref"] is not None:
            ctx.monitor("entropy_vs_formula")
            if not abs(ent - g["ent_ref"]) <= 1e-5 * (1 + abs(g["ent_ref"])):
                bad("entropy-vs-definition", {"entropy": ent, "want": g["ent_ref"]})
        if judged_global:
            with np.errstate(invalid="ignore"):
                hq = -trapz(np.where(pr > 0, pr * lp, 0.0) * g["jac"], g["h"])
            ctx.monitor("entropy_vs_quadrature")
            note_max(ctx, "max_entropy_quadrature_err", abs(ent - hq))
            if not abs(ent - hq) <= 2e-3 * (1 + abs(hq)):
                bad("entropy-not-neg-expected-logprob", {"entropy": ent, "minus_integral_p_log_p": hq})
        if np.all(np.isfinite(sl)):
            mc, se = -float(np.mean(sl)), float(np.std(sl, ddof=1) / np.sqrt(len(sl)))
            zs = (ent - mc) / max(se, 1e-12)
            ctx.monitor("entropy_vs_monte_carlo")
            note_max(ctx, "max_entropy_mc_sigma", abs(zs))
            if not abs(ent - mc) <= 5.5 * se + 1e-4 * (1 + abs(ent)):
                bad("entropy-not-monte-carlo-neg-logprob", {"entropy": ent, "mc": mc, "se": se, "sigmas": zs})
    elif entropy_error is not None:
        ctx.monitor("entropy_declared_undefined")
    # mode
    m = float(np.asarray(o["mode"]))
    ctx.monitor("mode_checked")
    ulp = 2 * EPS32 * (max(abs(g["lo"]), abs(g["hi"])) if g["lo"] is not None else 0.0)
    if not np.isfinite(m) or (g["lo"] is not None and not (g["lo"] - ulp <= m <= g["hi"] + ulp)):
        bad("mode-outside-support", {"mode_value": m})
    elif g["lp_ref"] is not None and resolved:
        pm = float(np.asarray(o["pr_mode"]))
        if not pm >= np.nanmax(pr) * (1 - 1e-4):
            bad("mode-not-most-probable", {"mode_value": m, "prob_at_mode": pm, "max_prob_on_grid": float(np.nanmax(pr))})
    # samples
    for name, smp in (("sample", o["smp"]), ("sample-and-log-prob", o["ss"])):
        smp = np.asarray(smp, np.float64)
        ctx.monitor("samples_support_checked", len(smp))
        if not np.all(np.isfinite(smp)):
            bad(f"{name}-not-finite", {"count": int(np.sum(~np.isfinite(smp)))})
            continue
        if g["lo"] is not None:
            outside = (smp < g["lo"] - ulp) | (smp > g["hi"] + ulp)
            if (smp < g["lo"]).any() or (smp > g["hi"]).any():
                ctx.notes["samples_beyond_bound_within_2ulp"] = ctx.notes.get("samples_beyond_bound_within_2ulp", 0) + int(
                    np.sum(((smp < g["lo"]) | (smp > g["hi"])) & ~outside))
            if outside.any():
                i = int(np.argmax(outside))
                bad(f"{name}-outside-support", {"count": int(outside.sum()), "of": len(smp), "example": smp[i]})
                continue
        if g.get("sc") is not None:
            # no point masses other than float32 saturation: every repeated value against its own cell probability
            from vlib.c15_helpers import squashed_atoms

            atom, nv = squashed_atoms(smp, g["loc"], g["sc"], g["lo"], g["hi"])
            ctx.monitor("repeated_sample_values_judged_as_atoms", nv)
            if atom is not None:
                bad(f"{name}s-have-a-point-mass-the-density-does-not", atom)
        if judged_global and abs(mass - 1) < 0.5:
            u = np.interp(g["to_x"](smp), g["xg"], F / mass, left=0.0, right=1.0)
            dks, pval = ks_against_cdf(u)
            ctx.monitor("ks_tests")
            note_min(ctx, "min_ks_pvalue", pval)
            if pval < ALPHA:
                bad(f"{name}s-do-not-follow-density", {"ks_D": dks, "p": pval, "draws": len(smp),
                                                       "sample_mean": float(smp.mean()), "sample_std": float(smp.std())})
    # sample_and_log_prob returns log_prob(returned sample)
    ss, sl, lps = (np.asarray(o[k], np.float64) for k in ("ss", "sl", "lps"))
    tol = 1e-4 + 1e-5 * np.abs(sl) + g["slp_tol"](ss)
    deciding = tol < 0.05
    ctx.monitor("sample_and_log_prob_pairs", int(deciding.sum()))
    err = np.abs(sl - lps)
    err = np.where(np.isnan(err), np.inf, err)
    if deciding.any():
        note_max(ctx, "max_slp_err_over_tol", np.max(err[deciding] / tol[deciding]))
    if np.any(deciding & (err > tol)):
        i = int(np.argmax(np.where(deciding, err - tol, -np.inf)))
        bad("sample-and-log-prob-inconsistent", {"sample": ss[i], "returned_log_prob": sl[i],
                                                 "log_prob_of_returned_sample": lps[i], "tol": tol[i]})
    return ok


def gen_normal_params(rng, i):
    sc = 10.0 ** rng.uniform(-2, 1)
    loc = [0.0, rng.normal(0, 1), rng.normal(0, 10), rng.uniform(-100, 100)][i % 4]
    return np.float32(loc), np.float32(sc)


def u_normal(ctx):
    import equinox as eqx
    import jax
    import jax.numpy as jnp
    from jax import random as jr
    from lerax.distribution import Normal
    from vlib.c15_helpers import normal_logpdf64

    S, K = ctx.n(S_QUICK, S_THOROUGH), 4096

    def make(s):
        def one(loc, sc, yg, key):
            d = Normal(loc, sc)
            ks = jr.split(key, s + K)
            ss, sl = jax.vmap(d.sample_and_log_prob)(ks[s:])
            m = d.mode()
            return dict(lp=jax.vmap(d.log_prob)(yg), pr=jax.vmap(d.prob)(yg), ent=d.entropy(), mode=m, pr_mode=d.prob(m),
                        smp=jax.vmap(d.sample)(ks[:s]), ss=ss, sl=sl, lps=jax.vmap(d.log_prob)(ss))
        return one

    def judge(loc, sc, g, o, mode):
        desc = {"class": "Normal", "loc": float(loc), "scale": float(sc), "mode": mode, "R": g["R"]}
        nt = g["R"] >= R_MIN
        ctx.case(desc, nontrivial=nt, cls=f"Normal/{'resolved' if nt else 'coarse'}/{mode}")
        ctx.monitor("normal_cases")
        judge_1d(ctx, "normal", desc, g, o)

    B = 16
    f = eqx.filter_jit(jax.vmap(make(S)))
    for rep in range(ctx.n(3, 120)):
        prm = [gen_normal_params(ctx.rng, i) for i in range(B)]
        geo = [normal_geom(l, s) for l, s in prm]
        try:
            out = jax.tree.map(np.asarray, f(jnp.asarray([p[0] for p in prm]), jnp.asarray([p[1] for p in prm]),
                                             jnp.asarray(np.stack([g["yg"] for g in geo])), jr.split(ctx.key(rep), B)))
        except Exception as e:
            _raises(ctx, "normal", "jit-vmap", e, {"params": prm})
            continue
        for b in range(B):
            judge(*prm[b], geo[b], {k: v[b] for k, v in out.items()}, "jit+vmap")
    for b in range(ctx.n(3, 12)):
        loc, sc = gen_normal_params(ctx.rng, b)
        g = normal_geom(loc, sc)
        try:
            # Python floats are valid parameters too (ArrayLike)
            args = (float(loc), float(sc)) if b % 2 else (jnp.asarray(loc), jnp.asarray(sc))
            o = jax.tree.map(np.asarray, make(4096)(*args, jnp.asarray(g["yg"]), ctx.key(1000 + b)))
        except Exception as e:
            _raises(ctx, "normal", "eager", e, {"loc": loc, "scale": sc})
            continue
        judge(loc, sc, g, o, "eager")
    # vector form: independent elements, everything element-wise
    for b in range(ctx.n(3, 12)):
        d = int(ctx.rng.integers(2, 6))
        prm = [gen_normal_params(ctx.rng, i + b) for i in range(d)]
        loc, sc = np.array([p[0] for p in prm]), np.array([p[1] for p in prm])
        y = (loc + sc * ctx.rng.normal(0, 2, size=d)).astype(np.float32)
        desc = {"class": "Normal", "form": "vector", "loc": loc, "scale": sc, "y": y}
        ctx.case(desc, nontrivial=True, cls="Normal/vector/eager")
        try:
            dist = Normal(jnp.asarray(loc), jnp.asarray(sc))
            lp, ent = np.asarray(dist.log_prob(jnp.asarray(y)), np.float64), np.asarray(dist.entropy(), np.float64)
            smp, (ss, sl) = np.asarray(dist.sample(ctx.key(2000 + b))), jax.tree.map(np.asarray, dist.sample_and_log_prob(ctx.key(3000 + b)))
            lps = np.asarray(dist.log_prob(jnp.asarray(ss)), np.float64)
        except Exception as e:
            _raises(ctx, "normal", "vector-form", e, desc)
            continue
        ref = normal_logpdf64(y, loc.astype(np.float64), sc.astype(np.float64))
        ctx.monitor("normal_vector_form_cases")
        if lp.shape != (d,) or smp.shape != (d,) or ent.shape != (d,) or not np.all(np.abs(lp - ref) <= 2e-5 + 1e-5 * np.abs(ref)):
            ctx.violation("normal-vector-form-not-elementwise", {"case": desc, "got": lp, "want": ref, "sample_shape": smp.shape})
        if not np.all(np.abs(ent - 0.5 * np.log(2 * np.pi * np.e * sc.astype(np.float64) ** 2)) <= 2e-5):
            ctx.violation("normal-entropy-vs-definition", {"case": desc, "got": ent})
        if not np.all(np.abs(np.asarray(sl, np.float64) - lps) <= 1e-4 + 5e-3 * np.abs(lps)):
            ctx.violation("normal-sample-and-log-prob-inconsistent", {"case": desc, "returned": sl, "log_prob_of_sample": lps})
    ctx.require("normal_cases", 20)
    ctx.require("quadrature_mass_checked", 10)
    ctx.require("ks_tests", 10)
    ctx.require("entropy_vs_monte_carlo", 10)
    ctx.require("sample_and_log_prob_pairs", 1000)


BOUNDS_FIXED = [(-1.0, 1.0), (0.0, 1.0), (-2.0, 2.0), (-0.4, 0.4), (0.0, 255.0)]


def gen_bounds(rng, i):
    if i % 3 == 0:
        lo, hi = BOUNDS_FIXED[(i // 3) % len(BOUNDS_FIXED)]
    else:
        w = 10.0 ** rng.uniform(-2, 2)
        c = w * float(rng.choice([0.0, 0.5, 3.0, 20.0])) * float(rng.choice([-1.0, 1.0])) * rng.uniform(0.5, 1.0)
        lo, hi = c - w / 2, c + w / 2
    lo, hi = np.float32(lo), np.float32(hi)
    assert lo < hi
    return lo, hi


def gen_squashed_params(rng, i, lo, hi):
    """Two thirds 'full' (base normal's +-7 sigma inside the float32-resolved region), one third anything
    up to scale 10 / |loc| 20 (saturating: judged on local relations only)."""
    X, _ = squash_region(lo, hi)
    if i % 3 == 2:
        return np.float32(rng.uniform(-20, 20) if i % 2 else rng.normal(0, 2)), np.float32(10.0 ** rng.uniform(-2, 1))
    sc = 10.0 ** rng.uniform(-2, np.log10(0.95 * X / Z_FULL))
    loc = rng.uniform(-1, 1) * (0.98 * X - Z_FULL * sc) * float(rng.choice([0.3, 1.0]))
    return np.float32(loc), np.float32(sc)


def u_squashednormal(ctx):
    import equinox as eqx
    import jax
    import jax.numpy as jnp
    from jax import random as jr
    from lerax.distribution import SquashedNormal

    S, K = ctx.n(S_QUICK, S_THOROUGH), 4096
    ent_state = {}

    def make(s, default_bounds=False):
        def one(loc, sc, hi, lo, yg, key):
            d = SquashedNormal(loc, sc) if default_bounds else SquashedNormal(loc, sc, high=hi, low=lo)
            ks = jr.split(key, s + K)
            ss, sl = jax.vmap(d.sample_and_log_prob)(ks[s:])
            out = dict(lp=jax.vmap(d.log_prob)(yg), pr=jax.vmap(d.prob)(yg), mode=d.mode(),
                       smp=jax.vmap(d.sample)(ks[:s]), ss=ss, sl=sl, lps=jax.vmap(d.log_prob)(ss))
            try:
                out["ent"] = d.entropy()
                ent_state["err"] = None
            except NotImplementedError as e:  # the code declares the entropy undefined
                ent_state["err"] = str(e)[:120]
            except Exception as e:
                ent_state["err"] = None
                ent_state["other"] = f"{type(e).__name__}: {str(e)[:200]}"
            return out
        return one

    def judge(loc, sc, lo, hi, g, o, mode, tag=""):
        desc = {"class": "SquashedNormal", "loc": float(loc), "scale": float(sc), "low": float(lo), "high": float(hi),
                "mode": mode, "R": g["R"], "full": g["full"]}
        nt = g["R"] >= R_MIN and g["full"]
        kind = "resolved" if nt else ("saturating" if not g["full"] else "coarse")
        ctx.case(desc, nontrivial=nt, cls=f"SquashedNormal/{kind}{tag}/{mode}")
        ctx.monitor("squashednormal_cases")
        if "other" in ent_state:
            ctx.violation("squashednormal-entropy-raises", {"case": desc, "error": ent_state.pop("other")})
        judge_1d(ctx, "squashednormal", desc, g, o, entropy_error=ent_state.get("err"))

    B = 16
    f = eqx.filter_jit(jax.vmap(make(S)))
    for rep in range(ctx.n(4, 160)):
        bnd = [gen_bounds(ctx.rng, rep * B + i) for i in range(B)]
        prm = [gen_squashed_params(ctx.rng, i, *bnd[i]) for i in range(B)]
        geo = [squashed_geom(*prm[i], *bnd[i]) for i in range(B)]
        try:
            out = jax.tree.map(np.asarray, f(jnp.asarray([p[0] for p in prm]), jnp.asarray([p[1] for p in prm]),
                                             jnp.asarray([b[1] for b in bnd]), jnp.asarray([b[0] for b in bnd]),
                                             jnp.asarray(np.stack([g["yg"] for g in geo])), jr.split(ctx.key(rep), B)))
        except Exception as e:
            _raises(ctx, "squashednormal", "jit-vmap", e, {"params": prm, "bounds": bnd})
            continue
        for b in range(B):
            judge(*prm[b], *bnd[b], geo[b], {k: v[b] for k, v in out.items()}, "jit+vmap")
    for b in range(ctx.n(4, 16)):
        default = b % 2 == 1
        lo, hi = (np.float32(-1), np.float32(1)) if default else gen_bounds(ctx.rng, b)
        loc, sc = gen_squashed_params(ctx.rng, 0, lo, hi)
        g = squashed_geom(loc, sc, lo, hi)
        try:
            o = jax.tree.map(np.asarray, make(4096, default)(jnp.asarray(loc), jnp.asarray(sc), jnp.asarray(hi), jnp.asarray(lo),
                                                             jnp.asarray(g["yg"]), ctx.key(1000 + b)))
        except Exception as e:
            _raises(ctx, "squashednormal", "eager", e, {"loc": loc, "scale": sc, "low": lo, "high": hi, "default_bounds": default})
            continue
        judge(loc, sc, lo, hi, g, o, "eager", tag="-default-bounds" if default else "")
    try:  # observation only (the design treats Python-float bounds as outside the property)
        SquashedNormal(0.0, 1.0, high=2.0, low=-2.0)
        ctx.notes["python_float_bounds"] = "accepted"
    except Exception as e:
        ctx.notes["python_float_bounds"] = f"rejected: {type(e).__name__}: {str(e)[:80]}"
    ctx.notes["entropy"] = ent_state.get("err") or "defined"
    ctx.require("squashednormal_cases", 20)
    ctx.require("quadrature_mass_checked", 10)
    ctx.require("ks_tests", 10)
    ctx.require("sample_and_log_prob_pairs", 1000)
    if ent_state.get("err") is None:
        ctx.require("entropy_vs_monte_carlo", 5)


# --------------------------------------------------------------------------------------
# diagonal (product) continuous laws
# --------------------------------------------------------------------------------------

G2 = 201   # nodes per axis of the 2-D quadrature grid
N_PTS = 256


def judge_nd(ctx, cls, desc, geoms, o, pts, grids2=None, entropy_error=None):
    """C15 relations for a d-dimensional product law. geoms: per-dimension 1-D geometry (nodes/weights and,
    for the plain normal, the density formula); o: real outputs (see make_nd); pts (P,d) sample points."""
    from vlib.c15_helpers import ALPHA, EPS32, cumtrapz, ks_against_cdf, note_max, note_min, prob_exp_mismatch, trapz

    D = len(geoms)
    resolved = all(g["R"] >= R_MIN for g in geoms)
    judged_global = resolved and all(g["full"] for g in geoms)
    lp, pr = np.asarray(o["lp"], np.float64), np.asarray(o["pr"], np.float64)

    def bad(key, extra):
        d = dict(desc)
        d.update(extra)
        ctx.violation(f"{cls}-{key}", d)

    exc, i = prob_exp_mismatch(pr, lp)
    ctx.monitor("prob_vs_exp_logprob_points", len(lp))
    if exc > 0:
        bad("prob-not-exp-logprob", {"y": pts[i], "prob": pr[i], "log_prob": lp[i]})
    # product law: log_prob == sum over independently constructed components
    comp_lp = np.asarray(o["comp_lp"], np.float64)            # (P, D)
    want = comp_lp.sum(axis=1)
    cond = np.sum([g["slp_tol"](pts[:, j]) for j, g in enumerate(geoms)], axis=0)
    tol = 2e-5 * D + 1e-5 * np.abs(want) + cond
    err = np.abs(lp - want)
    err = np.where(np.isnan(err), np.inf, err)
    deciding = tol < 0.05
    ctx.monitor("product_law_points", int(deciding.sum()))
    if deciding.any():
        note_max(ctx, "max_product_law_err_over_tol", np.max(err[deciding] / tol[deciding]))
    if np.any(deciding & (err > tol)):
        i = int(np.argmax(np.where(deciding, err - tol, -np.inf)))
        bad("logprob-not-sum-of-components", {"y": pts[i], "got": lp[i], "want": want[i], "components": comp_lp[i]})
    if geoms[0]["lp_ref"] is not None:
        ref = np.sum([g["lp_ref"](pts[:, j].astype(np.float64)) for j, g in enumerate(geoms)], axis=0)
        tolr = 2e-5 * D + 1e-5 * np.abs(ref)
        ctx.monitor("logprob_vs_density_formula_points", len(ref))
        e2 = np.where(np.isnan(lp), np.inf, np.abs(lp - ref))
        note_max(ctx, "max_logprob_err_over_tol_continuous", np.max(e2 / tolr))
        if np.any(e2 > tolr):
            i = int(np.argmax(e2 - tolr))
            bad("logprob-vs-definition", {"y": pts[i], "got": lp[i], "want": ref[i]})
    # total mass on the 2-D grid
    if grids2 is not None:
        g1, g2 = grids2
        prj = np.asarray(o["prj"], np.float64).reshape(G2, G2)
        lpj = np.asarray(o["lpj"], np.float64).reshape(G2, G2)
        exc, i = prob_exp_mismatch(prj, lpj)
        ctx.monitor("prob_vs_exp_logprob_points", prj.size)
        if exc > 0:
            bad("prob-not-exp-logprob", {"grid_index": i, "prob": prj.ravel()[i], "log_prob": lpj.ravel()[i]})
        integrand = np.where(np.isfinite(prj), prj, 0.0) * g1["jac"][:, None] * g2["jac"][None, :]
        m1 = np.array([trapz(integrand[a, :], g2["h"]) for a in range(G2)])
        m2 = np.array([trapz(integrand[:, b], g1["h"]) for b in range(G2)])
        mass = trapz(m1, g1["h"])
        marg = [(g1, cumtrapz(m1, g1["h"]), mass), (g2, cumtrapz(m2, g2["h"]), mass)]
        if judged_global:
            ctx.monitor("quadrature_mass_checked")
            note_max(ctx, "max_abs_quadrature_mass_error", abs(mass - 1))
            if not abs(mass - 1) <= 1e-3:
                bad("mass-not-one", {"integral_of_prob_over_support_2d": mass})
    else:
        # marginal j of a product law = its independently constructed component (tied to the joint law by
        # the product-law monitor above); integrate the component's real density
        marg = []
        cg = np.asarray(o["comp_cg"], np.float64)
        for j, g in enumerate(geoms):
            integ = np.where(np.isfinite(cg[j]), cg[j], 0.0) * g["jac"]
            marg.append((g, cumtrapz(integ, g["h"]), trapz(integ, g["h"])))
    # entropy
    if o.get("ent") is not None:
        ent = float(o["ent"])
        ctx.monitor("entropy_defined_cases")
        if o.get("comp_ent") is not None:
            hs = float(np.sum(np.asarray(o["comp_ent"], np.float64)))
            ctx.monitor("entropy_vs_components")
            if not abs(ent - hs) <= 2e-5 * D + 1e-5 * abs(hs):
                bad("entropy-not-sum-of-components", {"entropy": ent, "sum_of_component_entropies": hs})
        if geoms[0]["ent_ref"] is not None:
            hr = float(np.sum([g["ent_ref"] for g in geoms]))
            if not abs(ent - hr) <= 2e-5 * D + 1e-5 * abs(hr):
                bad("entropy-vs-definition", {"entropy": ent, "want": hr})
        sl = np.asarray(o["sl"], np.float64)
        if np.all(np.isfinite(sl)):
            mc, se = -float(np.mean(sl)), float(np.std(sl, ddof=1) / np.sqrt(len(sl)))
            ctx.monitor("entropy_vs_monte_carlo")
            note_max(ctx, "max_entropy_mc_sigma", abs(ent - mc) / max(se, 1e-12))
            if not abs(ent - mc) <= 5.5 * se + 1e-4 * (1 + abs(ent)):
                bad("entropy-not-monte-carlo-neg-logprob", {"entropy": ent, "mc": mc, "se": se})
        if grids2 is not None and judged_global:
            with np.errstate(invalid="ignore"):
                hq_i = np.where(prj > 0, prj * lpj, 0.0) * g1["jac"][:, None] * g2["jac"][None, :]
            hq = -trapz(np.array([trapz(hq_i[a, :], g2["h"]) for a in range(G2)]), g1["h"])
            ctx.monitor("entropy_vs_quadrature")
            if not abs(ent - hq) <= 2e-3 * (1 + abs(hq)):
                bad("entropy-not-neg-expected-logprob", {"entropy": ent, "minus_integral_p_log_p": hq})
    elif entropy_error is not None:
        ctx.monitor("entropy_declared_undefined")
    # mode
    m = np.asarray(o["mode"], np.float64)
    ctx.monitor("mode_checked")
    ulps = np.array([2 * EPS32 * (max(abs(g["lo"]), abs(g["hi"])) if g["lo"] is not None else 0.0) for g in geoms])
    los = np.array([g["lo"] if g["lo"] is not None else -np.inf for g in geoms])
    his = np.array([g["hi"] if g["hi"] is not None else np.inf for g in geoms])
    if m.shape != (D,) or not np.all(np.isfinite(m)) or not np.all((m >= los - ulps) & (m <= his + ulps)):
        bad("mode-outside-support", {"mode_value": m})
    elif geoms[0]["lp_ref"] is not None and resolved:
        pm = float(np.asarray(o["pr_mode"]))
        if not pm >= np.nanmax(pr) * (1 - 1e-4):
            bad("mode-not-most-probable", {"mode_value": m, "prob_at_mode": pm, "max_prob_seen": float(np.nanmax(pr))})
    # samples
    for name, smp in (("sample", o["smp"]), ("sample-and-log-prob", o["ss"])):
        smp = np.asarray(smp, np.float64)
        ctx.monitor("samples_support_checked", len(smp))
        if smp.ndim != 2 or smp.shape[1] != D:
            bad(f"{name}-shape", {"shape": smp.shape})
            continue
        if not np.all(np.isfinite(smp)):
            bad(f"{name}-not-finite", {"count": int(np.sum(~np.isfinite(smp)))})
            continue
        outside = np.any((smp < los - ulps) | (smp > his + ulps), axis=1)
        if outside.any():
            bad(f"{name}-outside-support", {"count": int(outside.sum()), "of": len(smp), "example": smp[int(np.argmax(outside))]})
            continue
        if geoms[0].get("sc") is not None:
            from vlib.c15_helpers import squashed_atoms

            for j, g in enumerate(geoms):
                atom, nv = squashed_atoms(smp[:, j], g["loc"], g["sc"], g["lo"], g["hi"])
                ctx.monitor("repeated_sample_values_judged_as_atoms", nv)
                if atom is not None:
                    bad(f"{name}s-have-a-point-mass-the-density-does-not", dict(atom, dimension=j))
        if judged_global:
            for j, (g, F, mass_j) in enumerate(marg):
                if not abs(mass_j - 1) < 0.5:
                    continue
                u = np.interp(g["to_x"](smp[:, j]), g["xg"], F / mass_j, left=0.0, right=1.0)
                dks, pval = ks_against_cdf(u)
                ctx.monitor("ks_tests")
                note_min(ctx, "min_ks_pvalue", pval)
                if pval < ALPHA:
                    bad(f"{name}s-do-not-follow-density", {"dimension": j, "ks_D": dks, "p": pval, "draws": len(smp)})
            if D >= 2:
                # independence of the components: Pearson correlation of every pair, r*sqrt(n) ~ N(0,1)
                xs = np.stack([g["to_x"](smp[:, j]) for j, g in enumerate(geoms)], axis=1)
                if np.all(np.isfinite(xs)):
                    r = np.corrcoef(xs, rowvar=False)
                    zmax = float(np.max(np.abs(r[np.triu_indices(D, 1)])) * np.sqrt(len(smp)))
                    ctx.monitor("independence_tests")
                    note_max(ctx, "max_pair_correlation_sigma", zmax)
                    if zmax > 5.5 + 0.5 * np.log(D * (D - 1) / 2):  # Bonferroni slack over the pairs
                        bad(f"{name}-components-not-independent", {"max_abs_r_times_sqrt_n": zmax, "draws": len(smp)})
    # sample_and_log_prob
    ss, sl, lps = (np.asarray(o[k], np.float64) for k in ("ss", "sl", "lps"))
    if ss.ndim == 2 and ss.shape[1] == D:
        tol = 1e-4 * D + 1e-5 * np.abs(sl) + np.sum([g["slp_tol"](ss[:, j]) for j, g in enumerate(geoms)], axis=0)
        deciding = tol < 0.05
        ctx.monitor("sample_and_log_prob_pairs", int(deciding.sum()))
        err = np.where(np.isnan(sl - lps), np.inf, np.abs(sl - lps))
        if deciding.any():
            note_max(ctx, "max_slp_err_over_tol", np.max(err[deciding] / tol[deciding]))
        if np.any(deciding & (err > tol)):
            i = int(np.argmax(np.where(deciding, err - tol, -np.inf)))
            bad("sample-and-log-prob-inconsistent", {"sample": ss[i], "returned_log_prob": sl[i],
                                                     "log_prob_of_returned_sample": lps[i], "tol": tol[i]})


def make_nd(build, comp, D, s, K, ent_state, with_grid):
    import jax
    import jax.numpy as jnp
    from jax import random as jr

    def one(loc, sc, hi, lo, pts, cg, jg, key):
        d = build(loc, sc, hi, lo)
        comps = [comp(loc[i], sc[i], hi, lo, i) for i in range(D)]
        ks = jr.split(key, s + K)
        ss, sl = jax.vmap(d.sample_and_log_prob)(ks[s:])
        m = d.mode()
        out = dict(lp=jax.vmap(d.log_prob)(pts), pr=jax.vmap(d.prob)(pts), mode=m, pr_mode=d.prob(m),
                   comp_lp=jnp.stack([jax.vmap(c.log_prob)(pts[:, i]) for i, c in enumerate(comps)], axis=-1),
                   comp_cg=jnp.stack([jax.vmap(c.prob)(cg[i]) for i, c in enumerate(comps)]),
                   smp=jax.vmap(d.sample)(ks[:s]), ss=ss, sl=sl, lps=jax.vmap(d.log_prob)(ss))
        if with_grid:
            out["lpj"], out["prj"] = jax.vmap(d.log_prob)(jg), jax.vmap(d.prob)(jg)
        try:
            out["ent"] = d.entropy()
            ent_state["err"] = None
        except NotImplementedError as e:  # the code declares the entropy undefined
            ent_state["err"] = str(e)[:120]
        except Exception as e:
            ent_state["err"] = None
            ent_state["other"] = f"{type(e).__name__}: {str(e)[:200]}"
        try:
            out["comp_ent"] = jnp.stack([c.entropy() for c in comps])
        except Exception:  # component entropies undefined: the sum-of-components relation is not judged
            pass
        return out
    return one


def nd_inputs(rng, geoms, geoms2):
    """Sample points (inside the resolved region of every dimension), per-dimension 1-D grids, 2-D grid."""
    D = len(geoms)
    pts = np.stack([g["pt"](rng, N_PTS) for g in geoms], axis=1).astype(np.float32)
    cg = np.stack([g["yg"] for g in geoms])
    if geoms2 is not None:
        a, b = np.meshgrid(geoms2[0]["yg"], geoms2[1]["yg"], indexing="ij")
        jg = np.stack([a.ravel(), b.ravel()], axis=1).astype(np.float32)
    else:
        jg = np.zeros((1, D), np.float32)
    return pts, cg, jg


def _with_pt_normal(g, loc, sc):
    g["pt"] = lambda rng, n: float(loc) + float(sc) * rng.normal(0, 2, size=n)
    return g


def _with_pt_squashed(g, loc, sc, lo, hi):
    from vlib.c15_helpers import sigmoid64

    X, _ = squash_region(lo, hi)

    def pt(rng, n):
        x = np.clip(float(loc) + float(sc) * rng.normal(0, 1.5, size=n), -X, X)
        return float(lo) + (float(hi) - float(lo)) * sigmoid64(x)
    g["pt"] = pt
    return g


def u_mvn(ctx):
    import equinox as eqx
    import jax
    import jax.numpy as jnp
    from jax import random as jr
    from lerax.distribution import MultivariateNormalDiag, Normal
    from vlib.c15_helpers import normal_logpdf64

    S, K = ctx.n(S_QUICK, S_THOROUGH), 4096
    ent_state = {}
    build = lambda loc, sc, hi, lo: MultivariateNormalDiag(loc, sc)  # noqa: E731
    comp = lambda l, s, hi, lo, i: Normal(l, s)  # noqa: E731

    def geoms_for(prm, m=M_GRID):
        return [_with_pt_normal(normal_geom(l, s, m), l, s) for l, s in prm]

    def judge(D, prm, geoms, geoms2, o, pts, mode):
        desc = {"class": "MultivariateNormalDiag", "d": D, "loc": [float(p[0]) for p in prm], "scale": [float(p[1]) for p in prm], "mode": mode}
        nt = all(g["R"] >= R_MIN for g in geoms)
        ctx.case(desc, nontrivial=nt, cls=f"MultivariateNormalDiag/d{D}/{'resolved' if nt else 'coarse'}/{mode}")
        ctx.monitor("mvn_cases")
        judge_nd(ctx, "mvn", desc, geoms, o, pts, grids2=geoms2)

    B = 8
    for D in (2, 1, 3, 6):
        f = eqx.filter_jit(jax.vmap(make_nd(build, comp, D, S, K, ent_state, D == 2)))
        for rep in range(ctx.n(2, 50) if D != 2 else ctx.n(3, 60)):
            prms = [[gen_normal_params(ctx.rng, int(ctx.rng.integers(0, 3))) for _ in range(D)] for _ in range(B)]
            geos = [geoms_for(p) for p in prms]
            geos2 = [geoms_for(p, G2) for p in prms] if D == 2 else [None] * B
            ins = [nd_inputs(ctx.rng, geos[b], geos2[b]) for b in range(B)]
            loc = jnp.asarray([[p[0] for p in prm] for prm in prms])
            sc = jnp.asarray([[p[1] for p in prm] for prm in prms])
            try:
                out = jax.tree.map(np.asarray, f(loc, sc, jnp.zeros(B), jnp.zeros(B), *(jnp.asarray(np.stack([i[k] for i in ins])) for k in range(3)),
                                                 jr.split(ctx.key(D * 100 + rep), B)))
            except Exception as e:
                _raises(ctx, "mvn", "jit-vmap", e, {"d": D})
                break
            for b in range(B):
                judge(D, prms[b], geos[b], geos2[b], jax.tree.map(lambda v: v[b], out), ins[b][0], "jit+vmap")
    # eager; also the documented defaults loc=None (zeros) and scale_diag=None (ones)
    for b in range(ctx.n(4, 12)):
        D = 3
        prm = [gen_normal_params(ctx.rng, 1) for _ in range(D)]
        form = ["both", "loc-none", "scale-none", "both"][b % 4]
        if form == "loc-none":
            prm = [(np.float32(0), s) for _, s in prm]
        if form == "scale-none":
            prm = [(l, np.float32(1)) for l, _ in prm]
        geoms = geoms_for(prm)
        pts, cg, jg = nd_inputs(ctx.rng, geoms, None)
        loc, sc = jnp.asarray([p[0] for p in prm]), jnp.asarray([p[1] for p in prm])
        bld = {"both": build, "loc-none": lambda l, s, h, lo: MultivariateNormalDiag(scale_diag=s),
               "scale-none": lambda l, s, h, lo: MultivariateNormalDiag(loc=l)}[form]
        try:
            o = jax.tree.map(np.asarray, make_nd(bld, comp, D, 4096, K, ent_state, False)(
                loc, sc, 0.0, 0.0, jnp.asarray(pts), jnp.asarray(cg), jnp.asarray(jg), ctx.key(5000 + b)))
        except Exception as e:
            _raises(ctx, "mvn", f"eager-{form}", e, {"loc": loc, "scale": sc})
            continue
        judge(D, prm, geoms, None, o, pts, f"eager-{form}")
    ctx.require("mvn_cases", 20)
    ctx.require("quadrature_mass_checked", 5)
    ctx.require("product_law_points", 1000)
    ctx.require("ks_tests", 10)
    ctx.require("independence_tests", 5)
    ctx.require("entropy_vs_monte_carlo", 10)
    ctx.require("sample_and_log_prob_pairs", 1000)


def u_squashedmvn(ctx):
    import equinox as eqx
    import jax
    import jax.numpy as jnp
    from jax import random as jr
    from lerax.distribution import SquashedMultivariateNormalDiag, SquashedNormal

    S, K = ctx.n(S_QUICK, S_THOROUGH), 4096
    ent_state = {}

    def builders(bform):
        if bform == "vector":   # per-dimension bounds
            return (lambda loc, sc, hi, lo: SquashedMultivariateNormalDiag(loc, sc, high=hi, low=lo),
                    lambda l, s, hi, lo, i: SquashedNormal(l, s, high=hi[i], low=lo[i]))
        if bform == "scalar":   # one 0-d bound broadcast over the dimensions
            return (lambda loc, sc, hi, lo: SquashedMultivariateNormalDiag(loc, sc, high=hi, low=lo),
                    lambda l, s, hi, lo, i: SquashedNormal(l, s, high=hi, low=lo))
        return (lambda loc, sc, hi, lo: SquashedMultivariateNormalDiag(loc, sc),  # default bounds [-1, 1]
                lambda l, s, hi, lo, i: SquashedNormal(l, s, high=jnp.array(1.0), low=jnp.array(-1.0)))

    def geoms_for(prm, bnd, m=M_GRID):
        return [_with_pt_squashed(squashed_geom(l, s, lo, hi, m), l, s, lo, hi) for (l, s), (lo, hi) in zip(prm, bnd)]

    def gen_case(D, bform, i):
        if bform == "vector":
            bnd = [gen_bounds(ctx.rng, int(ctx.rng.integers(0, 30))) for _ in range(D)]
        elif bform == "scalar":
            bnd = [gen_bounds(ctx.rng, int(ctx.rng.integers(0, 30)))] * D
        else:
            bnd = [(np.float32(-1), np.float32(1))] * D
        sat = (i % 4 == 3)
        prm = [gen_squashed_params(ctx.rng, 2 if (sat and j == 0) else 0, *bnd[j]) for j in range(D)]
        return prm, bnd

    def judge(D, bform, prm, bnd, geoms, geoms2, o, pts, mode):
        desc = {"class": "SquashedMultivariateNormalDiag", "d": D, "bounds_form": bform, "loc": [float(p[0]) for p in prm],
                "scale": [float(p[1]) for p in prm], "low": [float(b[0]) for b in bnd], "high": [float(b[1]) for b in bnd], "mode": mode}
        nt = all(g["R"] >= R_MIN and g["full"] for g in geoms)
        kind = "resolved" if nt else ("saturating" if not all(g["full"] for g in geoms) else "coarse")
        ctx.case(desc, nontrivial=nt, cls=f"SquashedMultivariateNormalDiag/d{D}/{bform}-bounds/{kind}/{mode}")
        ctx.monitor("squashedmvn_cases")
        if "other" in ent_state:
            ctx.violation("squashedmvn-entropy-raises", {"case": desc, "error": ent_state.pop("other")})
        judge_nd(ctx, "squashedmvn", desc, geoms, o, pts, grids2=geoms2, entropy_error=ent_state.get("err"))

    def arr(bform, bnd, k):
        return np.float32(bnd[0][k]) if bform != "vector" else np.array([b[k] for b in bnd], np.float32)

    B = 8
    for D, bform in ((2, "vector"), (2, "scalar"), (3, "vector"), (6, "vector"), (1, "vector"), (3, "scalar")):
        if ctx.quick and (D, bform) in ((1, "vector"), (3, "scalar")):
            continue
        bld, cmp_ = builders(bform)
        f = eqx.filter_jit(jax.vmap(make_nd(bld, cmp_, D, S, K, ent_state, D == 2)))
        for rep in range(ctx.n(2, 30) if D != 2 else ctx.n(3, 40)):
            cases = [gen_case(D, bform, b) for b in range(B)]
            geos = [geoms_for(*c) for c in cases]
            geos2 = [geoms_for(*c, G2) for c in cases] if D == 2 else [None] * B
            ins = [nd_inputs(ctx.rng, geos[b], geos2[b]) for b in range(B)]
            loc = jnp.asarray([[p[0] for p in c[0]] for c in cases])
            sc = jnp.asarray([[p[1] for p in c[0]] for c in cases])
            hi = jnp.asarray(np.stack([arr(bform, c[1], 1) for c in cases]))
            lo = jnp.asarray(np.stack([arr(bform, c[1], 0) for c in cases]))
            try:
                out = jax.tree.map(np.asarray, f(loc, sc, hi, lo, *(jnp.asarray(np.stack([i[k] for i in ins])) for k in range(3)),
                                                 jr.split(ctx.key(D * 100 + rep + (50 if bform == "scalar" else 0)), B)))
            except Exception as e:
                _raises(ctx, "squashedmvn", "jit-vmap", e, {"d": D, "bounds_form": bform})
                break
            for b in range(B):
                judge(D, bform, *cases[b], geos[b], geos2[b], jax.tree.map(lambda v: v[b], out), ins[b][0], "jit+vmap")
    for b in range(ctx.n(3, 12)):
        D = 2 + b % 2
        bform = ["default", "vector", "scalar"][b % 3]
        prm, bnd = gen_case(D, bform, 0)
        geoms = geoms_for(prm, bnd)
        pts, cg, jg = nd_inputs(ctx.rng, geoms, None)
        bld, cmp_ = builders(bform)
        try:
            o = jax.tree.map(np.asarray, make_nd(bld, cmp_, D, 4096, K, ent_state, False)(
                jnp.asarray([p[0] for p in prm]), jnp.asarray([p[1] for p in prm]), jnp.asarray(arr(bform, bnd, 1)),
                jnp.asarray(arr(bform, bnd, 0)), jnp.asarray(pts), jnp.asarray(cg), jnp.asarray(jg), ctx.key(5000 + b)))
        except Exception as e:
            _raises(ctx, "squashedmvn", f"eager-{bform}-bounds", e, {"loc": prm, "bounds": bnd})
            continue
        judge(D, bform, prm, bnd, geoms, None, o, pts, "eager")
    try:
        SquashedMultivariateNormalDiag(jnp.zeros(2), jnp.ones(2), high=2.0, low=-2.0)
        ctx.notes["python_float_bounds"] = "accepted"
    except Exception as e:
        ctx.notes["python_float_bounds"] = f"rejected: {type(e).__name__}: {str(e)[:80]}"
    ctx.notes["entropy"] = ent_state.get("err") or "defined"
    ctx.require("squashedmvn_cases", 20)
    ctx.require("quadrature_mass_checked", 5)
    ctx.require("product_law_points", 1000)
    ctx.require("ks_tests", 10)
    ctx.require("independence_tests", 5)
    ctx.require("sample_and_log_prob_pairs", 1000)
    if ent_state.get("err") is None:
        ctx.require("entropy_vs_monte_carlo", 5)


def run_unit(name, ctx):
    {"mvn": u_mvn, "squashedmvn": u_squashedmvn, "normal": u_normal, "squashednormal": u_squashednormal, "categorical": u_categorical, "bernoulli": u_bernoulli, "multicat-flat": lambda c: u_multicategorical(c, "flat"),
     "multicat-seq": lambda c: u_multicategorical(c, "seq")}[name](ctx)
