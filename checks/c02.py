"""C02 Environments stay inside their declared spaces with well-typed signals."""

from __future__ import annotations

import json
import os
import sys

import numpy as np

RULE = ("case = one trajectory: env.reset(key) followed by T calls of the real env.step inside one jitted "
        "lax.scan (auto-reset, so only states reachable in real use), vmapped over K keys, for a built-in env "
        "(classic control with Euler/Tsit5 and random constructor thresholds, MuJoCo with observation flags / "
        "terminate_when_unhealthy toggled, Unitree G1 in the thorough tier) bare or under a wrapper stack used "
        "inside its documented domain. Actions per trajectory come from one of the drivers: action_space.sample, "
        "all-low, all-high, alternating low/high blocks, constant random corner (unbounded action dimensions use "
        "large finite values). Every emitted observation (reset, step, and for classic control the pre-reset "
        "successor of every episode end), every action, reward and flag is judged by a NumPy membership model "
        "of the declared space; observation_space.contains / action_space.contains must agree with the model; "
        "the batch is re-run in-process (also on a freshly constructed env object where that does not force a "
        "recompile) and once in a fresh interpreter and must be bit-identical. non-trivial = the trajectory "
        "contains an episode end or an observation component sitting exactly on a finite declared bound "
        "(a clip was active); distinct by (stack spec, driver, key index, digest of the observations)")
FLOOR = {"quick": 300, "thorough": 2500}
ASSUMPTIONS = [
    "the declared space is what the env object's observation_space / action_space attributes say (Box.low/high, "
    "Discrete.n read as NumPy); membership = same shape, floating dtype of the box's own width (integer for "
    "Discrete), no NaN, low <= x <= high compared exactly (no tolerance: contains() is exact too). Excursions of "
    "at most 4 float32 ulps of the bound scale get the separate key suffix '-by-rounding' but are still reported",
    "+-inf inside an unbounded (+-inf) box dimension counts as a member (only NaN does not); counted separately",
    "wrapper domain: RescaleObservation only over fully bounded observation boxes, RescaleAction only over "
    "bounded action boxes, Clip*/Rescale* only over Box spaces; corners of unbounded action dimensions are "
    "finite (+-10, +-1e6, +-3e38), +-inf itself is excluded as ambiguous",
    "constructor variants keep the documented reset distribution inside the space (Pendulum max_speed >= 1, "
    "mountain-car walls outside [-0.6, -0.4], CartPole thresholds > 0.05)",
    "MuJoCo/G1 pre-reset successors of episode ends are not judged (unbounded boxes; a non-finite successor is "
    "exactly what their is_finite termination test is for)",
    "XLA CPU executes the same compiled program deterministically; the fresh interpreter uses the same K, T "
    "(same HLO) and the same XLA flags. If the unit's process and the fresh interpreter (PYTHONHASHSEED=1, no "
    "history) disagree, a second fresh interpreter (PYTHONHASHSEED=2, with the unit's tracing/rollout history) is "
    "consulted: interpreters that disagree with each other -> violation; two agreeing fresh interpreters against "
    "a deviating unit process -> inconclusive (observed once, on all three G1 units, while the machine was out of "
    "memory: the unit had compiled its own program instead of loading the cached one; not reproducible)",
    "documented default spaces (classic-control tables in the lerax docstrings, Gymnasium v5 observation sizes "
    "and the v5 size formula in nq/nv/nbody for the observation flags) are the reference for the static check",
]

CLASSIC = ["CartPole", "MountainCar", "ContinuousMountainCar", "Acrobot", "Pendulum"]
MUJOCO_QUICK = ["InvertedPendulum", "HalfCheetah"]
MUJOCO_ALL = ["InvertedPendulum", "HalfCheetah", "Hopper", "Walker2d", "Swimmer", "Reacher", "Pusher",
              "InvertedDoublePendulum", "Ant", "Humanoid", "HumanoidStandup"]
G1 = ["G1Standing", "G1Locomotion", "G1Standup"]
NEVER_ENDS = {"Pendulum", "HalfCheetah", "Swimmer", "Reacher", "Pusher", "HumanoidStandup"}
EPS32 = float(np.finfo(np.float32).eps)


def units(tier):
    quick = tier == "quick"
    u = [{"name": f"cc-{n}", "timeout": 1500 if quick else 2400} for n in CLASSIC]
    u += [{"name": f"mj-{n}", "timeout": 1800 if quick else 3000} for n in (MUJOCO_QUICK if quick else MUJOCO_ALL)]
    u += [{"name": "mj-flag-shapes", "timeout": 1800}]
    if not quick:
        u += [{"name": f"g1-{n}", "timeout": 3400} for n in G1]
    return u


# ====================================================================== env construction from a JSON spec
def _half(r):
    return 0.5 * r


def _neg_square(r):
    return -(r * r)


_REWARD_FUNCS = {"half": _half, "neg_square": _neg_square}


def build_env(spec):
    """spec = {"base": name, "kw": {...}, "wrappers": [[name, {...}], ...]} (innermost wrapper first)."""
    import diffrax
    from jax import numpy as jnp

    import lerax.wrapper as W

    base, kw = spec["base"], dict(spec.get("kw", {}))
    if base in CLASSIC:
        import lerax.env.classic_control as M

        kw["solver"] = {"Euler": diffrax.Euler, "Tsit5": diffrax.Tsit5, "Heun": diffrax.Heun}[kw.pop("solver", "Tsit5")]()
        if kw.pop("adaptive", False):
            kw["stepsize_controller"] = diffrax.PIDController(rtol=1e-5, atol=1e-5)
    elif base in G1:
        import lerax.env.unitree.g1 as M
    else:
        import lerax.env.mujoco as M
    for k, v in list(kw.items()):
        if isinstance(v, list):
            kw[k] = tuple(v)
    env = getattr(M, base)(**kw)
    for name, a in spec.get("wrappers", []):
        if name == "TimeLimit":
            env = W.TimeLimit(env, int(a["n"]))
        elif name in ("Identity", "ClipObservation", "FlattenObservation", "ClipAction"):
            env = getattr(W, name)(env)
        elif name in ("RescaleObservation", "RescaleAction"):
            if "min" in a:
                env = getattr(W, name)(env, jnp.asarray(a["min"], dtype=jnp.float32), jnp.asarray(a["max"], dtype=jnp.float32))
            else:
                env = getattr(W, name)(env)
        elif name == "ClipReward":
            env = W.ClipReward(env, a.get("min", -1.0), a.get("max", 1.0)) if a else W.ClipReward(env)
        elif name == "TransformReward":
            env = W.TransformReward(env, _REWARD_FUNCS[a["f"]])
        else:
            raise ValueError(name)
    return env


def _layers(env):
    out = [env]
    while hasattr(out[-1], "env"):
        out.append(out[-1].env)
    return out  # outermost ... base


def _owner(env, what):
    """Name of the layer that declares the observation space / action space / reward seen from outside."""
    own = {"obs": {"ClipObservation", "RescaleObservation", "FlattenObservation", "TransformObservation"},
           "act": {"ClipAction", "RescaleAction", "TransformAction"},
           "rew": {"ClipReward", "TransformReward"}}[what]
    for layer in _layers(env):
        if type(layer).__name__ in own or not hasattr(layer, "env"):
            return type(layer).__name__.lower()
    return "unknown"


def _stack_name(spec):
    kw = spec.get("kw", {})
    tag = spec["base"] + ("/" + kw["solver"] if "solver" in kw else "")
    flags = [f"{k}={v}" for k, v in sorted(kw.items()) if isinstance(v, bool)]
    if flags:
        tag += "{" + ",".join(flags) + "}"
    return tag + "".join("<" + w[0] for w in spec.get("wrappers", []))


# ====================================================================== the rollout (shared with the child)
_ROLL = {}


def _rollout_fn(T, succ):
    """(env, keys[K], actions[K,T,...]) -> dict of stacked emitted values. One compiled program per
    (static structure of env, K, T, succ); env parameters are traced arguments."""
    if (T, succ) not in _ROLL:
        import equinox as eqx
        import jax
        from jax import lax
        from jax import random as jr

        def one(env, key, actions):
            rk, sk = jr.split(key)
            state, obs0, _ = env.reset(key=rk)

            def body(state, inp):
                a, k = inp
                nstate, obs, r, term, trunc, _info = env.step(state, a, key=k)
                out = {"obs": obs, "rew": r, "term": term, "trunc": trunc}
                if succ:
                    # the successor the step call itself produced (same transition key), before the reset
                    nxt = env.transition(state, a, key=jr.split(k, 4)[0])
                    out["succ"] = env.observation(nxt, key=k)
                return nstate, out

            _, ys = lax.scan(body, state, (actions, jr.split(sk, T)))
            ys["obs0"] = obs0
            return ys

        _ROLL[(T, succ)] = eqx.filter_jit(lambda env, keys, actions: jax.vmap(lambda k, a: one(env, k, a))(keys, actions))
    return _ROLL[(T, succ)]


def _keys(seed, K):
    from jax import random as jr

    return jr.split(jr.key(int(seed)), K)


def _sample_actions(env, seed, K, T):
    import equinox as eqx
    import jax
    from jax import random as jr

    sp = env.action_space
    ks = jr.split(jr.key(int(seed) + 7919), K * T)
    return eqx.filter_jit(lambda s, k: jax.vmap(lambda kk: s.sample(key=kk))(k))(sp, ks)


def _np_tree(d):
    return {k: np.asarray(v) for k, v in d.items()}


class _NullCtx:
    """ctx stand-in for the fresh interpreter: same code path, nothing recorded."""

    def __getattr__(self, name):
        return lambda *a, **k: None


def _child_main(path):
    """Fresh interpreter: rebuild the env from its spec, replay the same keys and actions."""
    job = json.loads(open(path).read())
    import jax

    cache = os.environ.get("VERIF_JAX_CACHE")
    if cache:
        jax.config.update("jax_compilation_cache_dir", cache)
        jax.config.update("jax_persistent_cache_min_compile_time_secs", 2.0)
    from jax import numpy as jnp

    env = build_env(job["spec"])
    acts = np.load(job["actions"])["a"]
    if job.get("history"):
        # second opinion: a fresh interpreter that, like the unit's own process, has traced reset/step abstractly
        # and run the compiled rollout on other inputs before the rollout that is compared
        import random as _random

        _random.seed(4242)
        np.random.seed(4242)
        static_checks(_NullCtx(), env, job["spec"])
        _rollout_fn(job["T"], job["succ"])(env, _keys(job["seed"] + 1, job["K"]), jnp.asarray(acts[::-1].copy()))
    out = _np_tree(_rollout_fn(job["T"], job["succ"])(env, _keys(job["seed"], job["K"]), jnp.asarray(acts)))
    out["sampled"] = np.asarray(_sample_actions(env, job["seed"], job["K"], job["T"]))
    np.savez(job["out"], **out)


# ====================================================================== NumPy membership model (the oracle)
def space_model(space):
    name = type(space).__name__
    if name == "Box":
        low, high = np.asarray(space.low), np.asarray(space.high)
        return {"kind": "box", "low": low, "high": high, "shape": tuple(low.shape), "dtype": low.dtype}
    if name == "Discrete":
        return {"kind": "discrete", "n": int(space.n), "shape": ()}
    return None


def judge(model, X):
    """X: array of N values stacked on axis 0. Returns dict with 'structural' (str or None) and per-value
    boolean arrays nan / out (outside bounds) / member, plus excess (how far outside, float64) and the
    index of the worst component."""
    X = np.asarray(X)
    N = X.shape[0]
    res = {"structural": None, "N": N}
    if tuple(X.shape[1:]) != tuple(model["shape"]):
        res["structural"] = f"shape {tuple(X.shape[1:])} != declared {tuple(model['shape'])}"
    elif model["kind"] == "box" and X.dtype.kind != "f":
        res["structural"] = f"dtype {X.dtype} is not floating"
    elif model["kind"] == "box" and X.dtype != model["dtype"]:
        res["structural"] = f"dtype {X.dtype} != declared {model['dtype']}"
    elif model["kind"] == "discrete" and X.dtype.kind not in "iu":
        res["structural"] = f"dtype {X.dtype} is not integer"
    if res["structural"]:
        res["member"] = np.zeros(N, bool)
        return res
    flat = X.reshape(N, -1)
    if model["kind"] == "discrete":
        out = (flat < 0) | (flat >= model["n"])
        res.update(nan=np.zeros(N, bool), out=out.any(1), excess=np.where(out, 1.0, 0.0).max(1),
                   worst=np.zeros(N, int), inf=np.zeros(N, bool), touch=np.zeros(N, bool))
        res["member"] = ~res["out"]
        return res
    x = flat.astype(np.float64)
    lo, hi = model["low"].reshape(1, -1).astype(np.float64), model["high"].reshape(1, -1).astype(np.float64)
    nanm = np.isnan(x)
    with np.errstate(invalid="ignore"):
        exc = np.maximum(lo - x, x - hi)
    exc = np.where(nanm | ~np.isfinite(exc), np.where((x < lo) | (x > hi), np.inf, -np.inf), exc)
    exc = np.where(nanm, -np.inf, exc)
    if exc.shape[1] == 0:
        exc = np.full((N, 1), -np.inf)
        nanm = np.zeros((N, 1), bool)
        x = np.zeros((N, 1))
        lo, hi = np.full((1, 1), -np.inf), np.full((1, 1), np.inf)
    res["nan"] = nanm.any(1)
    res["excess"] = exc.max(1)
    res["worst"] = exc.argmax(1)
    res["out"] = res["excess"] > 0
    res["inf"] = np.isinf(x).any(1)
    fin_lo, fin_hi = np.isfinite(lo), np.isfinite(hi)
    res["touch"] = (((x == lo) & fin_lo) | ((x == hi) & fin_hi)).any(1)
    res["member"] = ~res["nan"] & ~res["out"]
    return res


def _rounding_sized(model, X, i, comp, excess):
    lo, hi = float(model["low"].reshape(-1)[comp]), float(model["high"].reshape(-1)[comp])
    scale = max(abs(v) for v in (lo, hi, hi - lo) if np.isfinite(v)) if np.isfinite(lo) or np.isfinite(hi) else 0.0
    return bool(excess <= 4 * EPS32 * scale)


# ====================================================================== drivers
DRIVERS = ["sample", "sample", "sample", "sample", "all-low", "all-high", "alternating", "constant-corner"]


def make_actions(ctx, env, sampled, K, T):
    """Overwrite the non-sample rows of the sampled [K,T,...] action array with corner sequences."""
    m = space_model(env.action_space)
    acts = np.array(sampled)  # copy
    drv = []
    if m["kind"] == "discrete":
        lo, hi = np.array(0, acts.dtype), np.array(m["n"] - 1, acts.dtype)
    else:
        lo, hi = m["low"].astype(acts.dtype), m["high"].astype(acts.dtype)
    for j in range(K):
        d = DRIVERS[j % len(DRIVERS)]
        detail = d
        if d != "sample":
            big = np.float32(ctx.rng.choice([10.0, 1e6, 3e38]))
            if m["kind"] == "box":
                l = np.where(np.isfinite(lo), lo, -big).astype(acts.dtype)
                h = np.where(np.isfinite(hi), hi, big).astype(acts.dtype)
            else:
                l, h = lo, hi
            if d == "all-low":
                acts[j] = l
            elif d == "all-high":
                acts[j] = h
            elif d == "alternating":
                block = int(ctx.rng.choice([1, 2, 4, 8, 16, 32, 64]))
                phase = (np.arange(T) // block) % 2
                checker = (np.arange(max(1, int(np.prod(m["shape"])))).reshape(m["shape"] or ()) % 2) if j % 16 >= 8 else 0
                sel = (phase.reshape((T,) + (1,) * len(m["shape"])) + checker) % 2
                acts[j] = np.where(sel == 0, l, h)
                detail = f"alternating/{block}" + ("/checker" if j % 16 >= 8 else "")
            else:
                if m["kind"] == "discrete":
                    acts[j] = int(ctx.rng.integers(0, m["n"]))
                else:
                    pick = ctx.rng.integers(0, 2, size=m["shape"]).astype(bool)
                    acts[j] = np.where(pick, h, l)
        drv.append(detail)
    return acts, drv


# ====================================================================== judging one batch
def _first(mask):
    return int(np.argmax(mask))


def judge_batch(ctx, env, spec, out, acts, sampled, drv, K, T, succ):
    """All oracles over one batch of K trajectories. Returns per-trajectory nontrivial flags."""
    name = _stack_name(spec)
    om, am = space_model(env.observation_space), space_model(env.action_space)
    own_o, own_a, own_r = _owner(env, "obs"), _owner(env, "act"), _owner(env, "rew")
    base = spec["base"].lower()
    if om is None or am is None:
        ctx.inconc(f"{name}: space kind without a membership model")
        return
    ends = out["term"] | out["trunc"]
    ctx.monitor("episode_ends", int(ends.sum()))
    ctx.monitor("terminal_ends", int(out["term"].sum()))
    ctx.monitor("truncation_ends", int(out["trunc"].sum()))

    # ---- observations: reset obs, step obs, pre-reset successors at episode ends
    streams = [("reset", out["obs0"], None), ("step", out["obs"].reshape((K * T,) + out["obs"].shape[2:]), None)]
    if succ:
        idx = np.flatnonzero(ends.reshape(-1))
        streams.append(("episode-end-successor", out["succ"].reshape((K * T,) + out["succ"].shape[2:])[idx], idx))
    touch_traj = np.zeros(K, bool)
    for sname, X, idx in streams:
        if X.shape[0] == 0:
            continue
        j = judge(om, X)
        ctx.monitor("observations_checked", j["N"])
        ctx.monitor(f"observations_checked_{sname}", j["N"])
        # an observation wrapper maps successors exactly as it maps every other state: same mechanism, same key;
        # a base env whose *terminal* states leave its own box is a mechanism of its own
        suffix = "-at-episode-end-successor" if (sname == "episode-end-successor" and own_o == base) else ""
        if j["structural"]:
            ctx.violation(f"{own_o}-obs-not-of-declared-shape-or-dtype",
                          {"stack": name, "stream": sname, "problem": j["structural"], "spec": spec})
            continue
        ctx.monitor("bound_touches", int(j["touch"].sum()))
        ctx.monitor("infinite_observation_components_inside_unbounded_box", int(j["inf"].sum()))
        if sname == "step":
            touch_traj |= j["touch"].reshape(K, T).any(1)
        if j["nan"].any():
            i = _first(j["nan"])
            ctx.violation(f"{own_o}-obs-nan{suffix}", _witness(name, spec, sname, i, idx, X, om, drv, acts, K, T, out))
        if j["out"].any():
            small = np.array([_rounding_sized(om, X, i, int(j["worst"][i]), float(j["excess"][i]))
                              for i in np.flatnonzero(j["out"])])
            outs = np.flatnonzero(j["out"])
            for kind, sel in (("-by-rounding", outs[small]), ("", outs[~small])):
                if len(sel):
                    i = int(sel[np.argmax(j["excess"][sel])])
                    w = _witness(name, spec, sname, i, idx, X, om, drv, acts, K, T, out)
                    w.update(component=int(j["worst"][i]), excess=float(j["excess"][i]), count=int(len(sel)))
                    ctx.violation(f"{own_o}-obs-out-of-bounds{kind}{suffix}", w)
        _contains_agreement(ctx, env.observation_space, om, X, j, f"{own_o}-observation", name, spec)

    # ---- actions: everything fed to step is judged; sampled ones are what the property names
    fa = acts.reshape((K * T,) + acts.shape[2:])
    ja = judge(am, fa)
    rows = np.array([d == "sample" for d in drv])
    samp_mask = np.repeat(rows, T)
    ctx.monitor("sampled_actions_checked", int(samp_mask.sum()))
    ctx.monitor("corner_actions_fed", int((~samp_mask).sum()))
    if ja["structural"]:
        ctx.violation(f"{own_a}-sampled-action-not-of-declared-shape-or-dtype",
                      {"stack": name, "problem": ja["structural"], "spec": spec})
    else:
        bad = ~ja["member"] & samp_mask
        if bad.any():
            i = _first(bad)
            ctx.violation(f"{own_a}-sampled-action-outside-action-space",
                          {"stack": name, "spec": spec, "action": fa[i], "low": am.get("low"), "high": am.get("high"),
                           "n": am.get("n"), "count": int(bad.sum())})
        if (~ja["member"] & ~samp_mask).any():
            ctx.inconc(f"{name}: harness corner action outside the declared action space")
        _contains_agreement(ctx, env.action_space, am, fa, ja, f"{own_a}-action", name, spec)
    sa = np.asarray(sampled)
    if sa.shape != acts.shape or sa.dtype != acts.dtype:
        ctx.inconc(f"{name}: sampled action array changed type")

    # ---- reward and flags
    r = out["rew"]
    ctx.monitor("rewards_checked", int(r.size))
    if r.shape != (K, T) or r.dtype.kind != "f":
        ctx.violation(f"{own_r}-reward-not-float-scalar", {"stack": name, "shape": list(r.shape[2:]), "dtype": str(r.dtype), "spec": spec})
    elif not np.isfinite(r).all():
        k, t = np.argwhere(~np.isfinite(r))[0]
        ctx.violation(f"{own_r}-reward-not-finite",
                      {"stack": name, "spec": spec, "reward": float(r[k, t]), "key_index": int(k), "step": int(t),
                       "driver": drv[k], "action": acts[k, t], "obs_after": out["obs"][k, t],
                       "count": int((~np.isfinite(r)).sum())})
    for f in ("term", "trunc"):
        ctx.monitor("flags_checked", int(out[f].size))
        if out[f].shape != (K, T) or out[f].dtype != np.bool_:
            ctx.violation(f"{base}-{'terminal' if f == 'term' else 'truncate'}-flag-not-bool-scalar",
                          {"stack": name, "shape": list(out[f].shape[2:]), "dtype": str(out[f].dtype), "spec": spec})

    # ---- cases
    from vlib.common import digest

    end_traj = ends.any(1) if ends.shape == (K, T) else np.zeros(K, bool)
    for k in range(K):
        ctx.case({"stack": name, "kw": {a: b for a, b in spec.get("kw", {}).items()}, "wrappers": spec.get("wrappers", []),
                  "driver": drv[k], "key": k, "T": T, "h": digest(out["obs"][k])},
                 nontrivial=bool(end_traj[k] or touch_traj[k]),
                 cls=f"{spec['base']}/{_wrap_class(spec)}/{drv[k].split('/')[0]}")


def _wrap_class(spec):
    w = [x[0] for x in spec.get("wrappers", [])]
    return "+".join(w) if w else "bare"


def _witness(name, spec, sname, i, idx, X, om, drv, acts, K, T, out):
    w = {"stack": name, "spec": spec, "stream": sname, "observation": X[i], "low": om["low"], "high": om["high"]}
    if sname != "reset":
        g = int(idx[i]) if idx is not None else int(i)
        k, t = divmod(g, T)
        w.update(key_index=k, step=t, driver=drv[k], action=acts[k, t])
        if t > 0:
            w["previous_observation"] = out["obs"][k, t - 1]
    else:
        w.update(key_index=int(i))
    return w


def _contains_agreement(ctx, space, model, X, j, site, name, spec):
    """space.contains (vectorised with vmap where it can be traced, and eagerly on a subsample) must give the
    oracle's verdict on emitted values."""
    import jax
    from jax import numpy as jnp

    want = j["member"]
    N = X.shape[0]
    got = None
    if model["kind"] == "box":
        try:
            got = np.asarray(jax.vmap(space.contains)(jnp.asarray(X))).astype(bool)
        except Exception as e:  # noqa: BLE001
            ctx.violation(f"{site}-contains-raises-under-vmap", {"stack": name, "error": repr(e)[:300]})
    if got is not None:
        ctx.monitor("contains_agreement_vmapped", N)
        _cmp_contains(ctx, got, want, X, site, name, spec, "vmap")
    # eager calls: what a user does. For Discrete all distinct values plus a few; for Box a subsample incl. the
    # values the oracle rejects
    sel = list(np.flatnonzero(~want)[:8])
    if model["kind"] == "discrete":
        _, first = np.unique(X.reshape(N, -1)[:, 0], return_index=True)
        sel += list(first[:64])
    sel += list(ctx.rng.integers(0, N, size=min(24, N)))
    g, w, vals = [], [], []
    for i in sel:
        try:
            a = bool(space.contains(jnp.asarray(X[i])))
            b = jnp.asarray(X[i]) in space
        except Exception as e:  # noqa: BLE001
            ctx.violation(f"{site}-contains-raises", {"stack": name, "value": X[i], "error": repr(e)[:300]})
            continue
        if a != b:
            ctx.violation(f"{site}-in-operator-differs-from-contains", {"stack": name, "value": X[i]})
        g.append(a)
        w.append(bool(want[i]))
        vals.append(X[i])
    ctx.monitor("contains_agreement_eager", len(g))
    if g:
        _cmp_contains(ctx, np.array(g), np.array(w), vals, site, name, spec, "eager")


def _cmp_contains(ctx, got, want, X, site, name, spec, mode):
    rej = ~got & want
    acc = got & ~want
    if rej.any():
        i = _first(rej)
        ctx.violation(f"{site}-contains-rejects-member", {"stack": name, "mode": mode, "value": None if X is None else X[i], "spec": spec})
    if acc.any():
        i = _first(acc)
        ctx.violation(f"{site}-contains-accepts-non-member", {"stack": name, "mode": mode, "value": None if X is None else X[i], "spec": spec})


# ====================================================================== static checks
def static_checks(ctx, env, spec):
    """Declared spaces are well-formed, and the abstract signature of reset/step (jax.eval_shape: no compile)
    has exactly the declared shapes / dtypes, with strongly typed observations."""
    import equinox as eqx
    import jax
    from jax import random as jr

    name = _stack_name(spec)
    own_o, own_r, base = _owner(env, "obs"), _owner(env, "rew"), spec["base"].lower()
    for what, sp in (("observation", env.observation_space), ("action", env.action_space)):
        m = space_model(sp)
        if m is None:
            ctx.inconc(f"{name}: {what} space {type(sp).__name__} has no membership model")
            return
        if m["kind"] == "box":
            ctx.monitor("declared_boxes_checked")
            if np.isnan(m["low"]).any() or np.isnan(m["high"]).any() or (m["low"] > m["high"]).any():
                ctx.violation(f"{_owner(env, 'obs' if what == 'observation' else 'act')}-declared-{what}-box-malformed",
                              {"stack": name, "low": m["low"], "high": m["high"], "spec": spec})
    om = space_model(env.observation_space)
    try:
        rs = eqx.filter_eval_shape(lambda k: env.reset(key=k), jr.key(0))
        st, o0 = rs[0], rs[1]
        a = eqx.filter_eval_shape(lambda k: env.action_space.sample(key=k), jr.key(0))
        ss = eqx.filter_eval_shape(lambda s, a, k: env.step(s, a, key=k), st, a, jr.key(0))
    except Exception as e:  # noqa: BLE001
        ctx.violation(f"{base}-reset-or-step-not-traceable", {"stack": name, "error": repr(e)[-400:], "spec": spec})
        return
    ctx.monitor("typed_signatures_checked")
    inner = _layers(env)[-1]
    if inner is not env:
        # attribute a mismatch to the layer that causes it: the bare env against its own declared space first
        bm = space_model(inner.observation_space)
        try:
            bo = eqx.filter_eval_shape(lambda k: inner.reset(key=k), jr.key(0))[1]
            if bm is not None and (tuple(bo.shape) != bm["shape"] or (bm["kind"] == "box" and bo.dtype != bm["dtype"])):
                ctx.violation(f"{base}-obs-not-of-declared-shape-or-dtype",
                              {"stack": name, "where": "bare env reset (abstract)", "spec": spec,
                               "problem": f"{tuple(bo.shape)} {bo.dtype} != declared {bm['shape']} {bm.get('dtype')}"})
        except Exception:  # noqa: BLE001  (the wrapped stack traced fine; nothing to add)
            pass
    for tag, o in (("reset", o0), ("step", ss[1])):
        bad = None
        if not hasattr(o, "shape") or tuple(o.shape) != om["shape"]:
            bad = f"shape {getattr(o, 'shape', None)} != declared {om['shape']}"
        elif om["kind"] == "box" and o.dtype != om["dtype"]:
            bad = f"dtype {o.dtype} != declared {om['dtype']}"
        elif getattr(o, "weak_type", False):
            bad = "weakly typed observation"
        if bad:
            ctx.violation(f"{own_o}-obs-not-of-declared-shape-or-dtype", {"stack": name, "where": tag + " (abstract)", "problem": bad, "spec": spec})
    r, te, tr = ss[2], ss[3], ss[4]
    if tuple(r.shape) != () or np.dtype(r.dtype).kind != "f":
        ctx.violation(f"{own_r}-reward-not-float-scalar", {"stack": name, "shape": list(r.shape), "dtype": str(r.dtype), "spec": spec})
    for nm, f in (("terminal", te), ("truncate", tr)):
        if tuple(f.shape) != () or np.dtype(f.dtype) != np.bool_:
            ctx.violation(f"{base}-{nm}-flag-not-bool-scalar", {"stack": name, "shape": list(f.shape), "dtype": str(f.dtype), "spec": spec})
    # the successor state has the structure of the state (otherwise scan could not carry it)
    if jax.tree.structure(ss[0]) != jax.tree.structure(st):
        ctx.violation(f"{base}-step-changes-state-structure", {"stack": name, "spec": spec})


DOC_CLASSIC = {  # from the tables in the lerax docstrings (= Gymnasium)
    "CartPole": ([-4.8, -np.inf, -24 * np.pi / 180, -np.inf], [4.8, np.inf, 24 * np.pi / 180, np.inf], ("discrete", 2)),
    "MountainCar": ([-1.2, -0.07], [0.6, 0.07], ("discrete", 3)),
    "ContinuousMountainCar": ([-1.2, -0.07], [0.6, 0.07], ("box", -1.0, 1.0, ())),
    "Acrobot": ([-1, -1, -1, -1, -4 * np.pi, -9 * np.pi], [1, 1, 1, 1, 4 * np.pi, 9 * np.pi], ("discrete", 3)),
    "Pendulum": ([-1, -1, -8], [1, 1, 8], ("box", -2.0, 2.0, ())),
}
DOC_MUJOCO_OBS = {"Ant": 105, "HalfCheetah": 17, "Hopper": 11, "Humanoid": 348, "HumanoidStandup": 348,
                  "InvertedDoublePendulum": 9, "InvertedPendulum": 4, "Pusher": 23, "Reacher": 10, "Swimmer": 8,
                  "Walker2d": 17}
DOC_MUJOCO_ACT = {"Ant": 8, "HalfCheetah": 6, "Hopper": 3, "Humanoid": 17, "HumanoidStandup": 17,
                  "InvertedDoublePendulum": 1, "InvertedPendulum": 1, "Pusher": 7, "Reacher": 2, "Swimmer": 2,
                  "Walker2d": 6}


def documented_space_check(ctx, env, spec):
    """Bare env only: declared spaces equal the documented ones (defaults), and for MuJoCo the declared size
    follows the v5 size formula when observation flags are toggled."""
    base, kw = spec["base"], spec.get("kw", {})
    om, am = space_model(env.observation_space), space_model(env.action_space)
    key = f"{base.lower()}-declared-space-differs-from-documentation"
    if base in DOC_CLASSIC and set(kw) <= {"solver", "adaptive"}:
        lo, hi, act = DOC_CLASSIC[base]
        ctx.monitor("documented_spaces_compared")
        ok = om["kind"] == "box" and om["shape"] == (len(lo),) and np.allclose(om["low"], lo, rtol=1e-6) and np.allclose(om["high"], hi, rtol=1e-6)
        if act[0] == "discrete":
            ok = ok and am["kind"] == "discrete" and am["n"] == act[1]
        else:
            ok = ok and am["kind"] == "box" and am["shape"] == act[3] and float(am["low"]) == act[1] and float(am["high"]) == act[2]
        if not ok:
            ctx.violation(key, {"declared_low": om.get("low"), "declared_high": om.get("high"), "documented_low": lo,
                                "documented_high": hi, "declared_action": {k: v for k, v in am.items() if k != "dtype"}})
    if base in DOC_MUJOCO_OBS:
        mj = env.mujoco_model
        nq, nv, nb = int(mj.nq), int(mj.nv), int(mj.nbody)
        ctx.monitor("documented_spaces_compared")
        want = None
        excl = kw.get("exclude_current_positions_from_observation", True)
        if base in ("HalfCheetah", "Hopper", "Swimmer", "Walker2d"):
            want = nq + nv - ({"Swimmer": 2}.get(base, 1) if excl else 0)
        elif base == "Ant":
            want = nq + nv - (2 if excl else 0) + ((nb - 1) * 6 if kw.get("include_cfrc_ext_in_observation", True) else 0)
        elif base in ("Humanoid", "HumanoidStandup"):
            want = (nq + nv - (2 if excl else 0)
                    + ((nb - 1) * 10 if kw.get("include_cinert_in_observation", True) else 0)
                    + ((nb - 1) * 6 if kw.get("include_cvel_in_observation", True) else 0)
                    + ((nv - 6) if kw.get("include_qfrc_actuator_in_observation", True) else 0)
                    + ((nb - 1) * 6 if kw.get("include_cfrc_ext_in_observation", True) else 0))
        else:
            want = DOC_MUJOCO_OBS[base]
        flags_default = not any(isinstance(v, bool) and k.startswith(("exclude", "include")) for k, v in kw.items())
        if flags_default and want != DOC_MUJOCO_OBS[base]:
            ctx.inconc(f"harness size formula for {base} gives {want}, documentation says {DOC_MUJOCO_OBS[base]}")
        if om["shape"] != (want,) or not (np.isneginf(om["low"]).all() and np.isposinf(om["high"]).all()):
            ctx.violation(key, {"declared_shape": list(om["shape"]), "documented_size": want, "kw": kw})
        if am["kind"] != "box" or am["shape"] != (DOC_MUJOCO_ACT[base],) or not np.isfinite(am["low"]).all() or not np.isfinite(am["high"]).all():
            ctx.violation(f"{base.lower()}-declared-action-space-differs-from-documentation",
                          {"declared_shape": list(am["shape"]), "documented_size": DOC_MUJOCO_ACT[base]})


# ====================================================================== running one stack
def _same(a, b):
    if set(a) != set(b):
        return "keys"
    for k in a:
        x, y = np.asarray(a[k]), np.asarray(b[k])
        if x.shape != y.shape or x.dtype != y.dtype:
            return f"{k}: type"
        if not np.array_equal(x, y, equal_nan=(x.dtype.kind == "f")):
            return k
    return None


def _first_diff(a, b, k):
    x, y = np.asarray(a[k]), np.asarray(b[k])
    if x.shape != y.shape:
        return {"field": k, "shapes": [list(x.shape), list(y.shape)]}
    neq = ~((x == y) | ((x != x) & (y != y))) if x.dtype.kind == "f" else (x != y)
    i = np.argwhere(neq)[0]
    return {"field": k, "index": [int(v) for v in i], "first": x[tuple(i)], "second": y[tuple(i)], "count": int(neq.sum())}


class Runner:
    def __init__(self, ctx, succ, interleave=True):
        self.ctx, self.succ, self.interleave = ctx, succ, interleave
        self.pending = []  # (future, tmpdir, spec, reference outputs)
        self.pool = None
        self.n = 0

    def run(self, spec, K, T, *, rebuild=False, child=False, static=True):
        """Build the stack, roll it out, judge it. Exceptions raised by lerax are the refutation."""
        import jax
        from jax import numpy as jnp

        import time

        ctx = self.ctx
        name = _stack_name(spec)
        self.n += 1
        seed = int(ctx.rng.integers(0, 2**30))
        tm = ctx.notes.setdefault("seconds", {"build+static": 0.0, "sample+rollout(first call compiles)": 0.0, "judge": 0.0, "reruns": 0.0})
        t0 = time.time()
        try:
            env = build_env(spec)
        except Exception as e:  # noqa: BLE001
            outer = (spec.get("wrappers") or [[spec["base"]]])[-1][0].lower()
            ctx.violation(f"{outer}-construction-raises-inside-documented-domain", {"stack": name, "spec": spec, "error": repr(e)[-500:]})
            return None
        if static:
            static_checks(ctx, env, spec)
            documented_space_check(ctx, _layers(env)[-1], spec)
        tm["build+static"] += time.time() - t0
        t0 = time.time()
        try:
            sampled = np.asarray(_sample_actions(env, seed, K, T))
        except Exception as e:  # noqa: BLE001
            ctx.violation(f"{_owner(env, 'act')}-action-space-sample-raises", {"stack": name, "spec": spec, "error": repr(e)[-600:]})
            return None
        sampled = sampled.reshape((K, T) + sampled.shape[1:])
        am = space_model(env.action_space)
        if am is not None:
            pre = judge(am, sampled.reshape((K * T,) + sampled.shape[2:]))
            if pre["structural"]:  # the corner drivers could not even be laid over such samples
                ctx.violation(f"{_owner(env, 'act')}-sampled-action-not-of-declared-shape-or-dtype",
                              {"stack": name, "problem": pre["structural"], "spec": spec})
                return None
        acts, drv = make_actions(ctx, env, sampled, K, T)
        fn = _rollout_fn(T, self.succ)
        keys = _keys(seed, K)
        try:
            out = _np_tree(jax.block_until_ready(fn(env, keys, jnp.asarray(acts))))
        except Exception as e:  # noqa: BLE001
            ctx.violation(f"{spec['base'].lower()}-rollout-raises", {"stack": name, "spec": spec, "seed": seed, "error": repr(e)[-600:]})
            return None
        tm["sample+rollout(first call compiles)"] += time.time() - t0
        t0 = time.time()
        ctx.monitor("rollouts_run")
        ctx.monitor("env_steps", K * T)
        judge_batch(ctx, env, dict(spec, rollout_seed=seed, K=K), out, acts, sampled, drv, K, T, self.succ)
        tm["judge"] += time.time() - t0
        t0 = time.time()

        # ---- no Python-side state: same call again after other work; fresh env object; fresh interpreter
        import random as _random

        _random.seed(self.n * 977 + 1)
        np.random.seed(self.n * 31 + 5)
        if self.interleave:  # different work through the same compiled program in between (cheap envs only)
            jax.block_until_ready(fn(env, _keys(seed + 1, K), jnp.asarray(acts[::-1].copy())))
        again = _np_tree(fn(env, keys, jnp.asarray(acts)))
        ctx.monitor("rerun_comparisons")
        d = _same(out, again)
        if d:
            ctx.violation(f"{spec['base'].lower()}-rollout-differs-on-rerun-in-process", {"stack": name, "spec": spec, **_first_diff(out, again, d)} if d in out else {"stack": name, "what": d})
        if rebuild:
            env2 = build_env(spec)
            again2 = _np_tree(fn(env2, _keys(seed, K), jnp.asarray(acts.copy())))
            ctx.monitor("rebuilt_env_comparisons")
            d = _same(out, again2)
            if d:
                # same second-opinion rule as for the fresh interpreter: a rebuilt object may force a recompile;
                # Python-side state makes two rebuilds disagree with each other as well
                again3 = _np_tree(fn(build_env(spec), _keys(seed, K), jnp.asarray(acts.copy())))
                if _same(again2, again3) is None:
                    ctx.inconc(f"{name}: two rebuilt env objects agree with each other but not with the first "
                               f"rollout in '{d}' (not reproducible as Python-side state)")
                else:
                    ctx.violation(f"{spec['base'].lower()}-rollout-differs-on-rebuilt-env-object", {"stack": name, "spec": spec, **_first_diff(out, again2, d)} if d in out else {"stack": name, "what": d})
        tm["reruns"] += time.time() - t0
        if child:
            self._spawn_child(spec, seed, K, T, acts, out, sampled)
        return out

    # ---- fresh interpreter
    def _child(self, tmp, tag, spec, seed, K, T, hashseed, history):
        """subprocess.run (with timeout) of a fresh interpreter that rebuilds the env from its spec and replays the
        same keys and actions through the same rollout function (same K, T: same program)."""
        import subprocess

        job = {"spec": spec, "seed": seed, "K": K, "T": T, "succ": self.succ, "history": history,
               "actions": os.path.join(tmp, "actions.npz"), "out": os.path.join(tmp, f"out{tag}.npz")}
        with open(os.path.join(tmp, f"job{tag}.json"), "w") as f:
            json.dump(job, f)
        env = dict(os.environ)
        env["PYTHONHASHSEED"] = str(hashseed)  # a different hash seed is part of "fresh Python-side state"
        root = os.path.dirname(os.path.dirname(os.path.abspath(__file__)))
        cmd = [sys.executable, "-X", "faulthandler", "-m", "checks.c02", "--child", os.path.join(tmp, f"job{tag}.json")]
        timeout = 900 if spec["base"] in CLASSIC else 2400
        p = subprocess.run(cmd, env=env, cwd=root, timeout=timeout, stdout=subprocess.PIPE, stderr=subprocess.STDOUT, text=True)
        if p.returncode != 0 or not os.path.exists(job["out"]):
            raise RuntimeError(f"fresh interpreter failed (exit {p.returncode}): {p.stdout[-600:]}")
        return dict(np.load(job["out"]))

    def _spawn_child(self, spec, seed, K, T, acts, out, sampled):
        import tempfile
        from concurrent.futures import ThreadPoolExecutor

        if self.pool is None:
            self.pool = ThreadPoolExecutor(max_workers=2)
        tmp = tempfile.mkdtemp(prefix="verif-c02-")
        np.savez(os.path.join(tmp, "actions.npz"), a=acts)
        fut = self.pool.submit(self._child, tmp, "A", spec, seed, K, T, 1, False)
        ref = dict(out)
        ref["sampled"] = np.asarray(sampled).reshape((K * T,) + np.asarray(sampled).shape[2:])
        self.pending.append((fut, tmp, spec, ref, (seed, K, T)))

    def finish(self):
        import shutil
        import subprocess

        ctx = self.ctx
        for fut, tmp, spec, ref, (seed, K, T) in self.pending:
            name = _stack_name(spec)
            try:
                got = fut.result()
                ctx.monitor("fresh_process_comparisons")
                d = _same(ref, got)
                if d:
                    # Second opinion before blaming lerax: another fresh interpreter (other hash seed) that first
                    # repeats this process's history (abstract tracing, another rollout). Python-side state makes
                    # the interpreters disagree with each other; two agreeing fresh interpreters against a
                    # deviating unit process is what a differently compiled program looks like (seen once under
                    # memory exhaustion), which this property is not about.
                    got2 = self._child(tmp, "B", spec, seed, K, T, 2, True)
                    ctx.monitor("fresh_process_second_opinions")
                    if _same(got, got2) is None:
                        ctx.monitor("unit_process_deviates_from_two_agreeing_fresh_interpreters")
                        ctx.inconc(f"{name}: the unit's process and two agreeing fresh interpreters differ in '{d}' "
                                   "(not reproducible as Python-side state; compiled program differs?)")
                    else:
                        what = "sampled-actions" if d.startswith("sampled") else "rollout"
                        ctx.violation(f"{spec['base'].lower()}-{what}-differ-in-fresh-interpreter",
                                      {"stack": name, "spec": spec, "second_fresh_interpreter_agrees_with_unit_process": _same(ref, got2) is None,
                                       **_first_diff(ref, got, d)} if d in ref else {"stack": name, "what": d})
            except subprocess.TimeoutExpired:
                ctx.inconc(f"{name}: fresh interpreter timed out")
            except Exception as e:  # noqa: BLE001
                ctx.inconc(f"{name}: fresh interpreter comparison failed: {e!r}"[:900])
            finally:
                shutil.rmtree(tmp, ignore_errors=True)
        self.pending = []
        if self.pool is not None:
            self.pool.shutdown(wait=True)


# ====================================================================== classic control
def _cc_params(rng, base):
    """Random constructor thresholds (array leaves: same compiled program as the defaults)."""
    u = rng.uniform
    if base == "CartPole":
        return {"x_threshold": float(u(0.3, 5.0)), "theta_threshold_radians": float(u(0.08, 0.6)),
                "force_mag": float(u(5.0, 30.0))}
    if base in ("MountainCar", "ContinuousMountainCar"):
        kw = {"min_position": float(u(-1.5, -0.7)), "max_position": float(u(0.0, 0.9)), "max_speed": float(u(0.02, 0.1))}
        kw["goal_position"] = float(u(-0.2, kw["max_position"]))
        if base == "ContinuousMountainCar":
            kw["power"] = float(u(0.001, 0.004))
            if rng.random() < 0.5:
                kw["min_action"], kw["max_action"] = float(u(-3, -0.5)), float(u(0.5, 3))
        else:
            kw["force"] = float(u(0.0008, 0.003))
        return kw
    if base == "Acrobot":
        return {"max_vel_1": float(u(1.0, 15.0)), "max_vel_2": float(u(1.0, 30.0)), "link_length_1": float(u(0.7, 1.3))}
    if base == "Pendulum":
        return {"max_speed": float(u(1.0, 10.0)), "max_torque": float(u(0.5, 5.0)), "g": float(u(5.0, 12.0))}
    raise ValueError(base)


def _rmm(rng, d):
    """Random per-dimension target range for RescaleObservation."""
    lo = np.round(rng.uniform(-5, 1, size=d), 2)
    return {"min": [float(x) for x in lo], "max": [float(x) for x in lo + np.round(rng.uniform(0.3, 8, size=d), 2)]}


def _cc_stacks(ctx, base):
    """(spec, number of extra constructor variants that reuse the compiled program, rebuild?, child?)"""
    rng = ctx.rng
    box_act = base in ("ContinuousMountainCar", "Pendulum")
    bounded_obs = base != "CartPole"
    never = base in NEVER_ENDS
    od = {"MountainCar": 2, "ContinuousMountainCar": 2, "Acrobot": 6, "Pendulum": 3}.get(base, 4)
    tl = lambda: ["TimeLimit", {"n": int(rng.choice([50, 200, 1000]))}]  # noqa: E731

    def rmm(d):
        return _rmm(rng, d)

    S = []
    S.append(({"base": base, "kw": {"solver": "Tsit5"}, "wrappers": [tl()] if never else []}, 1, True, False))
    S.append(({"base": base, "kw": {"solver": "Euler"}, "wrappers": []}, ctx.n(2, 6), True, True))
    S.append(({"base": base, "kw": {"solver": "Euler"}, "wrappers": [["Identity", {}], ["ClipObservation", {}], tl()]}, ctx.n(1, 4), True, False))
    if bounded_obs:
        S.append(({"base": base, "kw": {"solver": "Euler"}, "wrappers": [["RescaleObservation", {}], ["TimeLimit", {"n": 1000}]]}, ctx.n(1, 3), False, False))
        S.append(({"base": base, "kw": {"solver": "Tsit5"}, "wrappers": [["RescaleObservation", rmm(od)]] + ([tl()] if never else [])}, ctx.n(2, 6), False, False))
    S.append(({"base": base, "kw": {"solver": "Tsit5"}, "wrappers": [["FlattenObservation", {}], ["ClipReward", {}], tl()]}, 1, True, False))
    if box_act:
        S.append(({"base": base, "kw": {"solver": "Euler"}, "wrappers": [["ClipAction", {}], tl()]}, 1, False, False))
        S.append(({"base": base, "kw": {"solver": "Tsit5"}, "wrappers": [["RescaleAction", [{}, {"min": -3.0, "max": 0.5}][int(rng.integers(2))]],
                                                                      ["TransformReward", {"f": "half"}], tl()]}, 1, False, False))
    if box_act and bounded_obs:
        # an action wrapper *outside* a wrapper that changes the observation space: the stack must still declare
        # the space of what it emits (the inner stack's), not the bare environment's
        S.append(({"base": base, "kw": {"solver": "Euler"}, "wrappers": [["RescaleObservation", rmm(od)], ["ClipAction", {}], tl()]}, ctx.n(1, 3), False, False))
        S.append(({"base": base, "kw": {"solver": "Tsit5"}, "wrappers": [["RescaleObservation", {}], ["RescaleAction", {}]] + ([tl()] if never else [])}, 0, False, False))
    # random composite stacks, depth 3-4
    for _ in range(ctx.n(1, 4)):
        w = []
        act_outer = None
        if box_act and rng.random() < 0.7:
            aw = [["ClipAction", {}], ["RescaleAction", {}]][int(rng.integers(2))]
            if rng.random() < 0.5:
                w.append(aw)
            else:
                act_outer = aw  # placed outermost, after the observation / reward wrappers
        pool = [["Identity", {}], ["ClipObservation", {}], ["FlattenObservation", {}], ["ClipReward", {"min": -0.5, "max": 0.5}],
                ["TransformReward", {"f": "neg_square"}], tl()]
        if bounded_obs:
            pool += [["RescaleObservation", {}], ["RescaleObservation", rmm(od)]]
        obs_changed = False
        for i in rng.permutation(len(pool))[: int(rng.integers(2, 4))]:
            item = pool[int(i)]
            if item[0] in ("RescaleObservation", "ClipObservation") and obs_changed:
                continue  # after Flatten the box is unbounded: Rescale would leave its documented domain
            if item[0] in ("RescaleObservation", "FlattenObservation"):
                if item[0] == "RescaleObservation" and any(x[0] == "RescaleObservation" for x in w):
                    continue
                obs_changed = obs_changed or item[0] == "FlattenObservation"
            w.append(item)
        if act_outer is not None:
            w.append(act_outer)
        if never and not any(x[0] == "TimeLimit" for x in w):
            w.append(tl())
        S.append(({"base": base, "kw": {"solver": str(rng.choice(["Euler", "Tsit5"]))}, "wrappers": w}, 0, False, False))
    if not ctx.quick:
        S.append(({"base": base, "kw": {"solver": "Heun"}, "wrappers": [tl()]}, 2, True, False))
        S.append(({"base": base, "kw": {"solver": "Tsit5", "adaptive": True}, "wrappers": [tl()]}, 2, False, False))
    return S


def u_classic(ctx, base):
    K, T = 64, ctx.n(2000, 4000)
    run = Runner(ctx, succ=True)
    for spec, nvar, rebuild, child in _cc_stacks(ctx, base):
        run.run(spec, K, T, rebuild=rebuild, child=child)
        for _ in range(nvar):
            # same static structure (same compiled program), other array leaves: constructor thresholds, and the
            # target range of a RescaleObservation with explicit per-dimension bounds
            v = dict(spec, kw=dict(spec["kw"], **_cc_params(ctx.rng, base)),
                     wrappers=[[w[0], _rmm(ctx.rng, len(w[1]["min"]))] if w[0] == "RescaleObservation" and "min" in w[1] else w
                               for w in spec["wrappers"]])
            run.run(v, K, T, static=False)
    run.finish()
    _closed_loop(ctx, base)
    for m in ("observations_checked", "episode_ends", "sampled_actions_checked", "contains_agreement_eager",
              "rerun_comparisons", "rebuilt_env_comparisons", "fresh_process_comparisons", "typed_signatures_checked",
              "documented_spaces_compared", "bound_touches" if base != "CartPole" else "observations_checked_episode-end-successor",
              "closed_loop_observations_checked"):
        ctx.require(m, 1)


_CL = {}


def _CL_JIT(roll):
    """One jitted vmapped rollout per unit process: the env is an argument, so constructor variants that differ
    in array leaves only reuse the compiled program."""
    import equinox as eqx
    import jax

    if "f" not in _CL:
        _CL["roll"] = roll
        _CL["f"] = eqx.filter_jit(lambda env, keys, sides: jax.vmap(lambda k, sd: _CL["roll"](env, k, sd))(keys, sides))
    _CL["roll"] = roll
    return _CL["f"]


def _closed_loop(ctx, base):
    """Hostile *closed-loop* action sequences (in-space actions chosen from the observation) reach states
    that open-loop random / corner / constant drivers never do: a balanced CartPole driven along the track,
    energy pumping in the mountain cars, Acrobot and Pendulum up to their velocity limits and walls."""
    import equinox as eqx
    import jax
    import jax.numpy as jnp
    from jax import lax
    from jax import random as jr

    def controller(obs, side):
        if base == "CartPole":
            x, xd, th, thd = obs
            thref = jnp.clip(0.02 * (side * 10.0 - x) - 0.05 * xd, -0.05, 0.05)
            return ((th - thref) + 0.3 * thd > 0).astype(int)
        if base == "MountainCar":
            return jnp.where(side * obs[1] >= 0, 2, 0) if False else jnp.where(obs[1] * side >= 0, jnp.where(side > 0, 2, 0), jnp.where(side > 0, 0, 2))
        if base == "ContinuousMountainCar":
            return jnp.where(obs[1] * side >= 0, side * 1.0, -side * 1.0)
        if base == "Acrobot":
            return jnp.where(obs[4] * side >= 0, 2, 0)
        return jnp.where(obs[2] * side >= 0, 2.0, -2.0) * side  # Pendulum: spin up

    K, T = 16, ctx.n(600, 1500)
    # default constructor plus non-default ones (array leaves: the compiled rollout is reused): documented
    # options under which the goal / threshold no longer stops the state before it reaches the edge of the box
    variants = [{}]
    for _ in range(ctx.n(2, 6)):
        variants.append(_cc_params(ctx.rng, base))
    if base in ("MountainCar", "ContinuousMountainCar"):
        variants.append({"goal_velocity": float(ctx.rng.uniform(0.03, 0.06))})
        variants.append({"goal_velocity": 0.05, "max_position": float(ctx.rng.uniform(0.3, 0.55)), "goal_position": 0.25})
    for vi, (solver, extra) in enumerate([(sv, ex) for sv in (["Tsit5", "Euler"] if not ctx.quick else ["Tsit5"]) for ex in variants]):
        env = build_env({"base": base, "kw": dict(extra, solver=solver), "wrappers": []})
        om = space_model(env.observation_space)
        ctx.monitor("closed_loop_constructor_variants" if extra else "closed_loop_default_constructor")

        def roll(env, key, side):
            k0, k1 = jr.split(key)
            st, obs, _ = env.reset(key=k0)

            def body(c, k):
                st, obs = c
                a = jnp.asarray(controller(obs, side)).astype(env.action_space.canonical().dtype).reshape(env.action_space.shape)
                if hasattr(env.action_space, "low"):
                    a = jnp.clip(a, env.action_space.low, env.action_space.high)  # in-space whatever the constructor bounds
                succ = env.observation(env.transition(st, a, key=k), key=k)
                st, obs2, r, te, tr, _ = env.step(st, a, key=k)
                return (st, obs2), (obs2, succ, r, te, tr)

            return lax.scan(body, (st, obs), jr.split(k1, T))[1]

        sides = jnp.asarray([1.0, -1.0] * (K // 2))
        obs, succ, rew, te, tr = jax.tree.map(np.asarray, _CL_JIT(roll)(env, jr.split(ctx.key(77 + vi), K), sides))
        ends = te | tr
        ctx.monitor("closed_loop_episode_ends", int(ends.sum()))
        for sname, X in (("step", obs.reshape((K * T,) + obs.shape[2:])), ("episode-end-successor", succ.reshape((K * T,) + succ.shape[2:])[ends.reshape(-1)])):
            if X.shape[0] == 0:
                continue
            j = judge(om, X)
            ctx.monitor("closed_loop_observations_checked", j["N"])
            if j["structural"]:
                ctx.violation(f"{base.lower()}-obs-not-of-declared-shape-or-dtype", {"driver": "closed-loop", "problem": j["structural"]})
                continue
            ctx.monitor("closed_loop_bound_touches", int(j["touch"].sum()))
            if j["nan"].any():
                ctx.violation(f"{base.lower()}-obs-nan", {"driver": "closed-loop", "stream": sname, "solver": solver, "kw": extra})
            if j["out"].any():
                i = int(np.argmax(j["excess"]))
                ctx.violation(f"{base.lower()}-obs-out-of-bounds" + ("-at-episode-end-successor" if sname != "step" else ""),
                              {"driver": "closed-loop", "stream": sname, "solver": solver, "kw": extra, "obs": X[i], "excess": float(j["excess"][i]),
                               "low": om["low"], "high": om["high"], "count": int(j["out"].sum())})
        if not np.all(np.isfinite(rew)):
            ctx.violation(f"{base.lower()}-reward-not-finite", {"driver": "closed-loop", "solver": solver})
        for k in range(K):
            ctx.case({"base": base, "driver": "closed-loop", "solver": solver, "kw": extra, "key": k, "ends": int(ends[k].sum())},
                     nontrivial=bool(ends[k].any()) or base == "Pendulum", cls=f"{base}/closed-loop")


# ====================================================================== MuJoCo
def _mj_variants(base, quick):
    """Constructor variants (each a separate compiled program: flags are static)."""
    F = False
    V = {
        "InvertedPendulum": [{}],
        "InvertedDoublePendulum": [{}],
        "HalfCheetah": [{}, {"exclude_current_positions_from_observation": F}],
        "Swimmer": [{}, {"exclude_current_positions_from_observation": F}],
        "Hopper": [{}, {"terminate_when_unhealthy": F, "exclude_current_positions_from_observation": F}],
        "Walker2d": [{}, {"terminate_when_unhealthy": F, "exclude_current_positions_from_observation": F}],
        "Reacher": [{}],
        "Pusher": [{}],
        "Ant": [{}, {"terminate_when_unhealthy": F}, {"exclude_current_positions_from_observation": F, "include_cfrc_ext_in_observation": F}],
        "Humanoid": [{}, {"exclude_current_positions_from_observation": F, "include_cinert_in_observation": F,
                          "include_cvel_in_observation": F, "include_qfrc_actuator_in_observation": F,
                          "include_cfrc_ext_in_observation": F},
                     {"terminate_when_unhealthy": F, "include_cinert_in_observation": F, "include_qfrc_actuator_in_observation": F}],
        "HumanoidStandup": [{}, {"exclude_current_positions_from_observation": F, "include_cvel_in_observation": F,
                                 "include_cfrc_ext_in_observation": F}],
    }[base]
    return V


def u_mujoco(ctx, base):
    rng = ctx.rng
    heavy = base in ("Ant", "Humanoid", "HumanoidStandup")
    K, T = 16, ctx.n(150, 128 if heavy else 256)
    run = Runner(ctx, succ=False, interleave=False)
    never = base in NEVER_ENDS
    tl = lambda: ["TimeLimit", {"n": int(rng.choice([25, 60, 100]))}]  # noqa: E731
    variants = _mj_variants(base, ctx.quick)
    for i, kw in enumerate(variants):
        ends_itself = not never and kw.get("terminate_when_unhealthy", True)
        if i == 0:
            w = [] if ends_itself else [tl()]
            run.run({"base": base, "kw": kw, "wrappers": w}, K, T, child=True)
            if not ends_itself and not ctx.quick:
                run.run({"base": base, "kw": kw, "wrappers": []}, K, T)
        else:
            pools = [[["ClipAction", {}], ["FlattenObservation", {}], ["ClipReward", {}], tl()],
                     [["RescaleAction", {}], ["ClipObservation", {}], ["TransformReward", {"f": "half"}], tl()],
                     [["Identity", {}], ["RescaleAction", {"min": 0.0, "max": 2.0}], tl()]]
            run.run({"base": base, "kw": kw, "wrappers": pools[(i - 1) % 3] if (ctx.quick or i % 2 == 1) else [tl()]}, K, T)
    if len(variants) == 1 or not ctx.quick:
        run.run({"base": base, "kw": {}, "wrappers": [["RescaleAction", {}], ["ClipObservation", {}], ["ClipReward", {"min": -0.5, "max": 0.5}], tl()]}, K, T)
    # ClipAction alone (unbounded action space, corner drivers use +-1e6 / +-3e38) with no reward post-processing:
    # the inner reward must still be finite, i.e. it must have been computed from the clipped action
    run.run({"base": base, "kw": {}, "wrappers": [["ClipAction", {}], tl()]}, K, T)
    run.finish()
    for m in ("observations_checked", "episode_ends", "sampled_actions_checked", "contains_agreement_eager",
              "rerun_comparisons", "fresh_process_comparisons", "typed_signatures_checked", "documented_spaces_compared"):
        ctx.require(m, 1)


# ====================================================================== Unitree G1
def u_g1(ctx, base):
    K, T = 8, 96
    run = Runner(ctx, succ=False, interleave=False)
    run.run({"base": base, "kw": {}, "wrappers": [["TimeLimit", {"n": 40}]]}, K, T, child=True)
    run.finish()
    for m in ("observations_checked", "episode_ends", "sampled_actions_checked", "contains_agreement_eager",
              "rerun_comparisons", "fresh_process_comparisons", "typed_signatures_checked"):
        ctx.require(m, 1)


def u_mj_shapes(ctx):
    """Every combination of the boolean observation / termination flags of every MuJoCo environment (up to 64 per
    environment, sampled): the abstract shape and dtype of the reset observation (jax.eval_shape of the real functions: no
    MJX compilation) against the declared space. The observation size is computed at construction from the flags."""
    import inspect
    import itertools

    import jax
    from jax import numpy as jnp
    from jax import random as jr

    import lerax.env.mujoco as M

    for base in MUJOCO_ALL:
        cls = getattr(M, base)
        flags = [n for n, p_ in inspect.signature(cls.__init__).parameters.items() if isinstance(p_.default, bool)]
        combos = list(itertools.product([True, False], repeat=len(flags)))
        cap_ = ctx.n(8, 32)
        if len(combos) > cap_:
            combos = [combos[0], combos[-1]] + [combos[int(i)] for i in ctx.rng.choice(len(combos), cap_ - 2, replace=False)]
        for combo in combos:
            kw = dict(zip(flags, combo))
            try:
                env = cls(**kw)
                obs = jax.eval_shape(lambda k: env.observation(env.initial(key=k), key=k), jr.key(0))
            except Exception as e:  # noqa: BLE001
                ctx.violation(f"{base.lower()}-construction-raises-inside-documented-domain", {"kw": kw, "error": repr(e)[-300:]})
                continue
            nontriv = not all(combo)
            ctx.case({"base": base, "kw": kw}, nontrivial=nontriv, cls=f"{base}/flag-shapes")
            ctx.monitor("flag_combinations_shape_checked")
            sp = env.observation_space
            if tuple(obs.shape) != tuple(sp.shape) or not jnp.issubdtype(obs.dtype, jnp.floating):
                ctx.violation(f"{base.lower()}-obs-not-of-declared-shape-or-dtype",
                              {"kw": kw, "stream": "reset", "emitted": [list(obs.shape), str(obs.dtype)], "declared_shape": list(sp.shape)})
    ctx.require("flag_combinations_shape_checked", 30)


def run_unit(name, ctx):
    if name == "mj-flag-shapes":
        return u_mj_shapes(ctx)
    kind, base = name.split("-", 1)
    {"cc": u_classic, "mj": u_mujoco, "g1": u_g1}[kind](ctx, base)


if __name__ == "__main__":
    if len(sys.argv) == 3 and sys.argv[1] == "--child":
        _child_main(sys.argv[2])
