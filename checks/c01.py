"""C01 Gym-style step/reset honours episode boundaries (auto-reset contract)."""

from __future__ import annotations

import numpy as np

RULE = ("cases = single calls of the real jitted env.step(state, action, key=) / env.reset(key=) along chains "
        "(reset, then <= 64 steps; random in-space actions, bound corners, constant 'steering' actions, and "
        "chains started from planted near-boundary states / TimeLimit counters at N-1) for harness finite MDPs "
        "(reward depends on the successor, state carries episode clock and return), every classic-control env, "
        "MuJoCo envs (quick: InvertedPendulum, HalfCheetah; thorough: all 11) and G1Standing(noise_level=0) "
        "(thorough), each bare and under wrapper stacks of depth <= 4 containing TimeLimit(N in 1..5 or larger). "
        "Each step is judged against the functional components evaluated separately on the same (state, action) "
        "and, for finite MDPs, against a pure-Python interpreter of the tables; non-trivial = the transition "
        "ended an episode (terminal and/or truncated) or the case is a reset()/freshness judgement; distinct by "
        "(env stack, limits, chain, step, digest of state fingerprint and action)")
FLOOR = {"quick": 300, "thorough": 4000}
ASSUMPTIONS = [
    "transition/reward/terminal/truncate/observation of the envs used are deterministic (G1Standing only with "
    "noise_level=0 and fewer than 249 steps per episode, so the random push is multiplied by zero); only "
    "initial() consumes randomness, hence the key plumbing inside step is irrelevant for the comparison",
    "float tolerance atol 1e-5 + rtol 1e-4 between step() and the separately compiled components; integer and "
    "boolean leaves exact; a flag disagreement is only reported when the component flag is stable under "
    "perturbations of the successor of that size (otherwise the case is excluded and counted)",
    "initial-state support per env is taken from the Gymnasium documentation of the env and the constructor "
    "configuration stored on the env object (init_qpos/init_qvel/reset_noise_scale); Gaussian reset noise is "
    "bounded by 6 sigma",
    "planted start states (classic control y near the goal/threshold, TimeLimit counter k < N with t = k*dt) "
    "are treated as reachable states",
    "finite-MDP interpreter and the wrapper semantics used in it (clip / affine rescale / flatten / reward clip) "
    "are < 100 lines of float64 NumPy written from the documentation",
    "info dictionaries are not judged",
]

ATOL, RTOL = 1e-5, 1e-4
CLASSIC = ["CartPole", "MountainCar", "ContinuousMountainCar", "Acrobot", "Pendulum"]
MUJOCO_QUICK = ["InvertedPendulum", "HalfCheetah"]
MUJOCO_ALL = ["InvertedPendulum", "HalfCheetah", "Hopper", "Walker2d", "Swimmer", "Reacher", "Pusher",
              "InvertedDoublePendulum", "Ant", "Humanoid", "HumanoidStandup"]
NORMAL_QVEL = {"Ant", "HalfCheetah", "InvertedDoublePendulum"}


def units(tier):
    quick = tier == "quick"
    # the 16 workers take units in this order: most expensive compilations first
    to = 900 if quick else 3000  # generous: the machine may be shared; an idle one needs a fraction of this
    u = [] if quick else [{"name": "g1", "timeout": to}]
    u += [{"name": f"mj-{n}", "timeout": to} for n in (MUJOCO_QUICK if quick else MUJOCO_ALL[::-1])]
    u += [{"name": f"finite{i}", "timeout": to} for i in range(2 if quick else 4)]
    u += [{"name": f"cc-{n}", "timeout": to} for n in CLASSIC]
    u += [{"name": "gym-adapter", "timeout": to}, {"name": "lerax2gym", "timeout": to}]
    return u


# ------------------------------------------------------------------ generic helpers
def _flat(tree):
    import jax

    return [(jax.tree_util.keystr(p), x) for p, x in jax.tree_util.tree_flatten_with_path(tree)[0]]


def _cmp(a, b, atol=ATOL, rtol=RTOL):
    """None if the two pytrees agree (floats within tolerance, everything else exactly),
    otherwise a small dict naming the first leaf that differs."""
    fa, fb = _flat(a), _flat(b)
    if [p for p, _ in fa] != [p for p, _ in fb]:
        return {"where": "tree-structure", "n_a": len(fa), "n_b": len(fb)}
    for (p, x), (_, y) in zip(fa, fb):
        if not hasattr(x, "shape") or not hasattr(y, "shape"):
            if isinstance(x, (int, float, bool, str)) and x != y:
                return {"where": p, "got": x, "want": y}
            continue
        x, y = np.asarray(x), np.asarray(y)
        if x.shape != y.shape:
            return {"where": p, "got_shape": list(x.shape), "want_shape": list(y.shape)}
        if x.size == 0:
            continue
        if np.issubdtype(x.dtype, np.inexact):
            x64, y64 = x.astype(np.float64), y.astype(np.float64)
            fin = np.isfinite(x64) & np.isfinite(y64)
            same_nonfinite = np.array_equal(np.where(fin, 0.0, x64), np.where(fin, 0.0, y64), equal_nan=True)
            ok = same_nonfinite and bool(np.all(np.abs(x64 - y64)[fin] <= atol + rtol * np.abs(y64)[fin]))
            if not ok:
                d = np.where(fin, np.abs(x64 - y64), np.inf)
                i = int(np.argmax(d))
                return {"where": p, "index": i, "got": x64.ravel()[i], "want": y64.ravel()[i]}
        elif not np.array_equal(x, y):
            i = int(np.argmax((x != y).ravel()))
            return {"where": p, "index": i, "got": x.ravel()[i].item(), "want": y.ravel()[i].item()}
    return None


def _env_layers(env):
    out = [env]
    while hasattr(out[-1], "env"):
        out.append(out[-1].env)
    return out  # outermost ... base


def _state_layers(state):
    out = [state]
    while hasattr(out[-1], "env_state"):
        out.append(out[-1].env_state)
    return out


def _at(obj, depth, attr):
    for _ in range(depth):
        obj = getattr(obj, attr)
    return obj


def _tl_depths(env):
    return [d for d, layer in enumerate(_env_layers(env)) if type(layer).__name__ == "TimeLimit"]


def _set_limits(env, limits):
    """Same stack object (same compiled program) with other TimeLimit bounds (array leaves)."""
    import equinox as eqx
    from jax import numpy as jnp

    depths = _tl_depths(env)
    assert len(depths) == len(limits)
    if not depths:
        return env
    return eqx.tree_at(lambda e: tuple(_at(e, d, "env").max_episode_steps for d in depths), env,
                       tuple(jnp.array(int(n), dtype=int) for n in limits))


def _counters(state):
    return [int(np.asarray(layer.step_count)) for layer in _state_layers(state)[:-1] if hasattr(layer, "step_count")]


_COMPS = None


def _comps():
    """One jitted function per env stack returning every functional component the oracle needs."""
    global _COMPS
    if _COMPS is None:
        import equinox as eqx
        from jax import random as jr

        @eqx.filter_jit
        def comps(env, state, action, ret):
            k = jr.key(0)
            nxt = env.transition(state, action, key=k)
            return {"nxt": nxt, "r": env.reward(state, action, nxt, key=k), "term": env.terminal(nxt, key=k),
                    "trunc": env.truncate(nxt), "obs_n": env.observation(nxt, key=k),
                    "obs_r": env.observation(ret, key=k)}

        _COMPS = comps
    return _COMPS


def _flag_stable(ctx, env, nxt, which, value):
    """Is the component flag the same on copies of the successor perturbed by the float tolerance?"""
    import jax
    from jax import numpy as jnp
    from jax import random as jr

    for j in range(6):
        sg = ctx.rng.choice([-1.0, 1.0])

        def pert(x, sg=sg):
            if isinstance(x, jax.Array) and jnp.issubdtype(x.dtype, jnp.inexact):
                return x + sg * (ATOL + RTOL * jnp.abs(x)) * (1.0 if j < 2 else float(ctx.rng.uniform(0, 1)))
            return x

        p = jax.tree.map(pert, nxt)
        try:
            f = env.terminal(p, key=jr.key(0)) if which == "terminal" else env.truncate(p)
        except Exception:
            return True
        if bool(f) != bool(value):
            return False
    return True


# ------------------------------------------------------------------ initial-state support predicates
def _box(name, x, lo, hi, eps=1e-6):
    x, lo, hi = np.asarray(x, np.float64), np.asarray(lo, np.float64), np.asarray(hi, np.float64)
    bad = (x < lo - eps) | (x > hi + eps) | ~np.isfinite(x)
    if bad.any():
        i = int(np.argmax(bad))
        return [f"{name}[{i}]={x.ravel()[i]!r} outside [{np.broadcast_to(lo, x.shape).ravel()[i]}, "
                f"{np.broadcast_to(hi, x.shape).ravel()[i]}]"]
    return []


def _box_upto_scale(name, x, lo, hi, eps=1e-6):
    """Free-joint quaternion: MJX kinematics stores the unit quaternion, so the drawn value raw = lam * x for
    some lam > 0. Accept iff one lam puts every component inside [lo, hi] (and x has unit length)."""
    x, lo, hi = np.asarray(x, np.float64), np.asarray(lo, np.float64), np.asarray(hi, np.float64)
    if not np.all(np.isfinite(x)):
        return [f"{name}={x!r} not finite"]
    if not _box(name, x, lo, hi, eps):
        return []  # un-normalised value inside the box as it stands
    if abs(np.linalg.norm(x) - 1.0) > 1e-4:
        return _box(name, x, lo, hi, eps)
    lam_lo, lam_hi = 0.0, np.inf
    for xi, a, b in zip(x, lo - eps, hi + eps):
        if abs(xi) < 1e-12:
            if not (a <= 0.0 <= b):
                return [f"{name}={x!r}: no positive multiple lies in [{lo}, {hi}]"]
            continue
        l1, l2 = sorted((a / xi, b / xi))
        lam_lo, lam_hi = max(lam_lo, l1), min(lam_hi, l2)
    if lam_lo > lam_hi or lam_hi <= 0.0:
        return [f"{name}={x!r}: no positive multiple lies in [{lo}, {hi}]"]
    return []


FREE_JOINT = {"Ant", "Humanoid", "HumanoidStandup"}


def _support(base):
    """(predicate, fingerprint, continuous) for the base env. predicate(base_state) ->
    (state_problems, clock_problems)."""
    name = type(base).__name__
    f = lambda x: np.asarray(x, np.float64)  # noqa: E731

    if name in ("FiniteMDP", "NSMDP"):
        starts = set(int(s) for s in np.asarray(base.starts))

        def pred(st):
            sp, cp = [], []
            s = int(np.asarray(st.s))
            if s not in starts:
                sp.append(f"s={s} not in start set {sorted(starts)}")
            if int(np.asarray(st.start)) != s:
                sp.append(f"start={int(np.asarray(st.start))} but s={s}")
            if int(np.asarray(st.t)) != 0:
                cp.append(f"episode clock t={int(np.asarray(st.t))}")
            if float(np.asarray(st.ret)) != 0.0:
                cp.append(f"return so far ret={float(np.asarray(st.ret))}")
            return sp, cp

        return pred, (lambda st: np.asarray(st.s)), False

    if name in CLASSIC:
        pi = float(np.pi)
        lo, hi = {"CartPole": ([-0.05] * 4, [0.05] * 4), "Acrobot": ([-0.1] * 4, [0.1] * 4),
                  "MountainCar": ([-0.6, 0.0], [-0.4, 0.0]), "ContinuousMountainCar": ([-0.6, 0.0], [-0.4, 0.0]),
                  "Pendulum": ([-pi, -1.0], [pi, 1.0])}[name]

        def pred(st):
            y = f(st.y)
            sp = [f"y shape {y.shape}"] if y.shape != (len(lo),) else _box("y", y, lo, hi)
            cp = [] if float(np.asarray(st.t)) == 0.0 else [f"episode clock t={float(np.asarray(st.t))}"]
            return sp, cp

        return pred, (lambda st: np.asarray(st.y)), True

    if name == "G1Standing":
        q0, v0 = f(base.init_qpos), f(base.init_qvel)

        def pred(st):
            d = st.sim_state
            q, v = f(d.qpos), f(d.qvel)
            sp = []
            a, b = np.minimum(q0[7:] * 0.9, q0[7:] * 1.1), np.maximum(q0[7:] * 0.9, q0[7:] * 1.1)
            sp += _box("qpos[7:]", q[7:], a, b, eps=1e-5)
            sp += _box("qpos[0:2]", q[0:2], q0[0:2], q0[0:2])
            sp += _box("qpos[3:7]", q[3:7], q0[3:7], q0[3:7])
            sp += _box("qvel[:6]", v[:6], -0.1, 0.1)
            sp += _box("qvel[6:]", v[6:], v0[6:], v0[6:])
            for nm in ("last_action", "last_last_action", "feet_air_time", "command", "gait_frequency"):
                if np.any(f(getattr(st, nm)) != 0.0):
                    sp.append(f"{nm} not zero")
            cp = []
            if float(np.asarray(st.t)) != 0.0:
                cp.append(f"episode clock t={float(np.asarray(st.t))}")
            if float(np.asarray(st.step_count)) != 0.0:
                cp.append(f"step_count={float(np.asarray(st.step_count))}")
            if float(np.asarray(d.time)) != 0.0:
                cp.append(f"simulation time={float(np.asarray(d.time))}")
            return sp, cp

        return pred, (lambda st: np.concatenate([np.asarray(st.sim_state.qpos), np.asarray(st.sim_state.qvel)])), True

    if name in MUJOCO_ALL:
        q0, v0 = f(base.init_qpos), f(base.init_qvel)
        sc = float(np.asarray(base.reset_noise_scale)) if hasattr(base, "reset_noise_scale") else None

        def pred(st):
            d = st.sim_state
            q, v = f(d.qpos), f(d.qvel)
            sp = []
            if q.shape != q0.shape or v.shape != v0.shape:
                sp.append(f"qpos/qvel shapes {q.shape}/{v.shape}")
            elif name == "Reacher":
                sp += _box("qpos[:-2]", q[:-2], q0[:-2] - 0.1, q0[:-2] + 0.1)
                if not np.linalg.norm(q[-2:]) < 0.2 + 1e-6:
                    sp.append(f"goal {q[-2:]} not inside the 0.2 disc")
                sp += _box("qvel[:-2]", v[:-2], v0[:-2] - 0.005, v0[:-2] + 0.005)
                sp += _box("qvel[-2:]", v[-2:], 0.0, 0.0, eps=0.0)
            elif name == "Pusher":
                sp += _box("qpos[:-4]", q[:-4], q0[:-4], q0[:-4])
                sp += _box("cylinder", q[-4:-2], [-0.3, -0.2], [0.0, 0.2])
                if not np.linalg.norm(q[-4:-2]) > 0.17 - 1e-6:
                    sp.append(f"cylinder {q[-4:-2]} within 0.17 of the goal")
                sp += _box("goal", q[-2:], 0.0, 0.0, eps=0.0)
                sp += _box("qvel[:-4]", v[:-4], v0[:-4] - 0.005, v0[:-4] + 0.005)
                sp += _box("qvel[-4:]", v[-4:], 0.0, 0.0, eps=0.0)
            else:
                if name in FREE_JOINT:
                    sp += _box("qpos[:3]", q[:3], q0[:3] - sc, q0[:3] + sc)
                    sp += _box_upto_scale("qpos[3:7]", q[3:7], q0[3:7] - sc, q0[3:7] + sc)
                    sp += _box("qpos[7:]", q[7:], q0[7:] - sc, q0[7:] + sc)
                else:
                    sp += _box("qpos", q, q0 - sc, q0 + sc)
                w = 6.0 * sc if name in NORMAL_QVEL else sc  # Gaussian reset noise: generous 6 sigma bound
                sp += _box("qvel", v, v0 - w, v0 + w)
            cp = []
            if float(np.asarray(st.t)) != 0.0:
                cp.append(f"episode clock t={float(np.asarray(st.t))}")
            if float(np.asarray(d.time)) != 0.0:
                cp.append(f"simulation time={float(np.asarray(d.time))}")
            return sp, cp

        return pred, (lambda st: np.concatenate([np.asarray(st.sim_state.qpos), np.asarray(st.sim_state.qvel)])), True

    raise ValueError(name)


# ------------------------------------------------------------------ the rig: judges step()/reset() of one stack
class Rig:
    def __init__(self, ctx, tag, env):
        self.ctx, self.tag, self.env = ctx, tag, env
        self.base = _env_layers(env)[-1]
        self.pred, self.fp, self.continuous = _support(self.base)
        self.comps = _comps()
        self.kc, self._k0 = 0, None
        self.end_fps, self.enders, self.dead = [], [], False
        self.n_tl = len(_tl_depths(env))

    def with_env(self, env):
        self.env = env
        self.base = _env_layers(env)[-1]
        self.pred, self.fp, self.continuous = _support(self.base)
        self.end_fps, self.enders = [], []
        return self

    def key(self):
        from jax import random as jr

        self.kc += 1
        if self._k0 is None:
            self._k0 = self.ctx.key(int.from_bytes(self.tag.encode()[:64], "little") % (2**31 - 1))
        return jr.fold_in(self._k0, self.kc)

    def where(self, **kw):
        d = {"env": self.tag}
        d.update(kw)
        return d

    # --- a state returned as "fresh": initial support, counters, clocks
    def _judge_fresh(self, state, prefix, det):
        ctx = self.ctx
        base_state = _state_layers(state)[-1]
        sp, cp = self.pred(base_state)
        ok = True
        if sp:
            ctx.violation(f"{prefix}-state-not-initial", dict(det, problems=sp[:4]))
            ok = False
        if cp:
            ctx.violation(f"{prefix}-episode-clock-not-restarted", dict(det, problems=cp[:4]))
            ok = False
        cs = _counters(state)
        ctx.monitor("timelimit_counters_checked_after_reset", len(cs))
        if any(c != 0 for c in cs):
            ctx.violation(f"{prefix}-timelimit-counter-not-reset", dict(det, counters=cs))
            ok = False
        return ok

    def reset(self, cls="reset"):
        """The real env.reset; judged; returns the state (or None if it raised)."""
        ctx = self.ctx
        key = self.key()
        try:
            state, obs, _info = self.env.reset(key=key)
        except Exception as e:  # a documented entry point that raises is a refutation, not a crash
            ctx.violation("reset-raises", self.where(error=repr(e)[:300]))
            self.dead = True
            return None
        fp = np.asarray(self.fp(_state_layers(state)[-1]))
        from vlib.common import digest

        det = self.where(call="reset", key_id=self.kc)
        ctx.case({"env": self.tag, "call": "reset", "k": self.kc, "h": digest(fp)}, nontrivial=True,
                 cls=f"{self.tag.split('|')[0]}/reset")
        ctx.monitor("resets_judged")
        self._judge_fresh(state, "reset", det)
        try:
            a = self.any_action()
            c = self.comps(self.env, state, a, state)
            m = _cmp(obs, c["obs_r"])
            if m is not None:
                ctx.violation("reset-obs-not-of-returned-state", dict(det, mismatch=m))
        except Exception as e:
            ctx.inconc(f"oracle components raised on {self.tag}: {repr(e)[:300]}")
            self.dead = True
        return state

    # --- actions
    def any_action(self, mode="random"):
        from jax import numpy as jnp

        sp = self.env.action_space
        rng = self.ctx.rng
        name = type(sp).__name__
        if name == "Discrete":
            n = int(sp.n)
            return jnp.asarray(np.int32(rng.integers(n) if mode != "const0" else 0))
        if name == "MultiDiscrete":
            return jnp.asarray(np.array([rng.integers(int(n)) for n in sp.nvec], np.int32))
        if name == "MultiBinary":
            return jnp.asarray(rng.random(tuple(sp.shape)) < 0.5)
        lo, hi = np.asarray(sp.low, np.float64), np.asarray(sp.high, np.float64)
        blo, bhi = self._base_bounds()
        if not (np.all(np.isfinite(lo)) and np.all(np.isfinite(hi))):
            # unbounded outer box (ClipAction): any real vector is in-space; go well past the inner bounds
            ctr, half = (blo + bhi) / 2, (bhi - blo) / 2
            a = ctr + half * rng.normal(0, 2.0, size=lo.shape)
            if mode == "corner":
                a = ctr + half * 5.0 * rng.choice([-1.0, 1.0], size=lo.shape)
            return jnp.asarray(np.asarray(a, np.float32))
        if mode == "corner":
            a = np.where(rng.random(lo.shape) < 0.5, lo, hi)
        elif mode == "hi":
            a = hi.copy()
        elif mode == "lo":
            a = lo.copy()
        else:
            a = rng.uniform(lo, hi)
        a = np.asarray(a, np.float64)
        return jnp.asarray(np.clip(a.astype(np.float32), lo.astype(np.float32), hi.astype(np.float32)))

    def _base_bounds(self):
        sp = self.base.action_space
        lo, hi = np.asarray(sp.low, np.float64), np.asarray(sp.high, np.float64)
        return np.broadcast_to(lo, np.shape(sp.low)), np.broadcast_to(hi, np.shape(sp.high))

    # --- one judged step
    def step(self, state, action, *, chain, i, limits=(), extra_cls=""):
        """Calls the real env.step and judges it; returns (next_state, ended, out) or None if it raised."""
        ctx, env = self.ctx, self.env
        from vlib.common import digest

        key = self.key()
        k_before = _counters(state)
        try:
            out = env.step(state, action, key=key)
            ns, obs, r, term, trunc = out[0], out[1], out[2], bool(out[3]), bool(out[4])
        except Exception as e:
            ctx.violation("step-raises", self.where(chain=chain, i=i, error=repr(e)[:300]))
            self.dead = True
            return None
        try:
            c = self.comps(env, state, action, ns)
        except Exception as e:
            ctx.inconc(f"oracle components raised on {self.tag}: {repr(e)[:300]}")
            self.dead = True
            return None
        c_term, c_trunc = bool(c["term"]), bool(c["trunc"])
        ended = c_term or c_trunc
        fp_in = np.asarray(self.fp(_state_layers(state)[-1]))
        a_np = np.asarray(action)
        det = self.where(chain=chain, i=i, limits=list(limits), counters_before=k_before, action=a_np,
                         state_fingerprint=fp_in, flags_got=[term, trunc], flags_want=[c_term, c_trunc], key_id=self.kc)
        kind = "both" if (c_term and c_trunc) else "term-only" if c_term else "trunc-only" if c_trunc else "continue"
        ctx.case({"env": self.tag, "limits": list(limits), "chain": chain, "i": i, "h": digest(fp_in, a_np)},
                 nontrivial=ended, cls=f"{self.tag.split('|')[0]}/{kind}{extra_cls}")
        ctx.monitor("steps_judged")
        ctx.monitor({"both": "both_flags_endings", "term-only": "terminal_only_endings",
                     "trunc-only": "truncation_only_endings", "continue": "continuing_steps_judged"}[kind])
        if ended:
            ctx.monitor("boundary_steps_judged")

        # reward of exactly this transition
        rg, rw = float(r), float(c["r"])
        if not (abs(rg - rw) <= ATOL + RTOL * abs(rw)) and not (np.isnan(rg) and np.isnan(rw)):
            ctx.violation("step-reward-not-of-this-transition", dict(det, got=rg, want=rw))
        # flags of exactly this transition
        for which, g, w in (("terminal", term, c_term), ("truncate", trunc, c_trunc)):
            if g != w:
                if _flag_stable(ctx, env, c["nxt"], which, w):
                    ctx.violation(f"step-{which}-flag-wrong", dict(det, got=g, want=w))
                else:
                    ctx.monitor("ambiguous_flag_cases_excluded")
        # independent clock: with TimeLimit layers and a base env that never truncates on its own,
        # truncated <=> some layer's count reaches its bound on this step
        if self.n_tl and k_before and type(self.base).__name__ not in ("FiniteMDP", "NSMDP"):
            want_tr = any(k + 1 >= n for k, n in zip(k_before, limits))
            ctx.monitor("timelimit_clock_checks")
            if trunc != want_tr:
                ctx.violation("step-truncate-flag-wrong", dict(det, got=trunc, want=want_tr, oracle="python clock"))

        if not ended:
            m = _cmp(ns, c["nxt"])
            if m is not None:
                ctx.violation("continuing-step-state-not-successor", dict(det, mismatch=m))
            m = _cmp(obs, c["obs_n"])
            if m is not None:
                ctx.violation("continuing-step-obs-not-successor-obs", dict(det, mismatch=m))
            cs = _counters(ns)
            if k_before and cs != [k + 1 for k in k_before]:
                ctx.violation("continuing-step-counter-not-incremented", dict(det, counters_after=cs))
        else:
            self._judge_fresh(ns, "ending-step", det)
            if _cmp(ns, c["nxt"]) is None:
                ctx.violation("ending-step-returns-successor", det)
            m = _cmp(obs, c["obs_r"])
            if m is not None:
                from_succ = _cmp(obs, c["obs_n"]) is None
                ctx.violation("ending-step-obs-not-of-returned-state",
                              dict(det, mismatch=m, obs_equals_pre_reset_successor_obs=from_succ))
            self.end_fps.append(np.asarray(self.fp(_state_layers(ns)[-1])))
            if len(self.enders) < 40:
                self.enders.append((env, state, action))
        return ns, ended, out

    # --- "freshly drawn"
    def freshness(self, n_resets=64, n_pairs=16):
        ctx = self.ctx
        from vlib.common import digest

        if self.dead:
            return
        fps = []
        for _ in range(n_resets):
            st = self.reset(cls="reset-fresh")
            if st is None:
                return
            fps.append(digest(np.asarray(self.fp(_state_layers(st)[-1]))))
        self._judge_distinct(fps, "reset-states-not-freshly-drawn", "reset()")
        if len(self.end_fps) >= 16:
            self._judge_distinct([digest(x) for x in self.end_fps], "ending-step-states-not-freshly-drawn",
                                 "states returned by episode-ending steps")
        # two step() calls on the same (state, action) with different keys
        pairs, differ = 0, 0
        need = 8 if self.continuous else 32
        j = 0
        while self.enders and pairs < max(n_pairs, need) and j < 4 * max(n_pairs, need):
            env, state, action = self.enders[j % len(self.enders)]
            j += 1
            try:
                o1 = env.step(state, action, key=self.key())
                o2 = env.step(state, action, key=self.key())
            except Exception as e:
                ctx.violation("step-raises", self.where(error=repr(e)[:300]))
                return
            if not ((bool(o1[3]) or bool(o1[4])) and (bool(o2[3]) or bool(o2[4]))):
                continue
            pairs += 1
            f1 = np.asarray(self.fp(_state_layers(o1[0])[-1]))
            f2 = np.asarray(self.fp(_state_layers(o2[0])[-1]))
            differ += int(not np.array_equal(f1, f2))
        if pairs >= need:
            ctx.monitor("key_pair_sets_judged")
            ctx.monitor("key_pair_resets_compared", pairs)
            ctx.case({"env": self.tag, "call": "key-pairs", "pairs": pairs, "differ": differ}, nontrivial=True,
                     cls=f"{self.tag.split('|')[0]}/key-pairs")
            if differ == 0:
                ctx.violation("ending-step-reset-ignores-step-key", self.where(pairs=pairs, differ=differ))

    def _judge_distinct(self, digests, key, what):
        ctx = self.ctx
        n, k = len(digests), len(set(digests))
        if self.continuous:
            need = n // 2
        else:
            if n < 64 or len(np.asarray(self.base.starts)) < 2:
                return
            need = 2
        ctx.monitor("freshness_sets_judged")
        ctx.case({"env": self.tag, "call": what, "n": n, "distinct": k}, nontrivial=True,
                 cls=f"{self.tag.split('|')[0]}/freshness")
        if k < need:
            ctx.violation(key, self.where(what=what, n=n, distinct=k, need=need))


# ------------------------------------------------------------------ wrapper stacks
def _wrap(name, env, arg=None):
    from jax import numpy as jnp
    from lerax import wrapper as W

    if name == "TimeLimit":
        return W.TimeLimit(env, int(arg if arg is not None else 3))
    if name == "TransformReward":
        return W.TransformReward(env, _affine_reward)
    if name == "RescaleAction":
        return W.RescaleAction(env, jnp.array(-1.0), jnp.array(1.0))
    if name == "RescaleObservation":
        return W.RescaleObservation(env, jnp.array(-1.0), jnp.array(1.0))
    return getattr(W, name)(env)


def _affine_reward(r):
    return r * 0.5 - 1.0


def _build(ctx, base, spec):
    """spec: wrapper names innermost first. Reward wrappers that cannot be constructed are left
    out silently (C13 owns that); any other constructor failure is reported."""
    env, used = base, []
    for name in spec:
        try:
            env = _wrap(name, env)
            used.append(name)
        except Exception as e:
            if name in ("ClipReward", "TransformReward"):
                ctx.monitor("reward_wrapper_not_constructible_skipped")
                continue
            ctx.violation("stack-wrapper-not-constructible", {"wrapper": name, "under": used, "error": repr(e)[:300]})
    return env, used


def _random_spec(rng, base, depth):
    """Random wrapper stack (innermost first) with at least one TimeLimit."""
    box_act = type(base.action_space).__name__ == "Box"
    osp = base.observation_space
    finite_obs = type(osp).__name__ == "Box" and bool(np.all(np.isfinite(np.asarray(osp.low)))
                                                      and np.all(np.isfinite(np.asarray(osp.high))))
    pool = ["Identity", "ClipObservation", "FlattenObservation", "ClipReward", "TransformReward", "TimeLimit"]
    if finite_obs:
        pool.append("RescaleObservation")
    if box_act:
        pool += ["ClipAction", "RescaleAction"]
    for _ in range(100):
        spec = list(rng.choice(pool, size=depth - 1, replace=True))
        spec.insert(int(rng.integers(0, depth)), "TimeLimit")
        if spec.count("ClipAction") > 1 or spec.count("RescaleAction") > 1 or spec.count("RescaleObservation") > 1:
            continue
        if "RescaleObservation" in spec and "FlattenObservation" in spec and \
                spec.index("FlattenObservation") < spec.index("RescaleObservation"):
            continue  # flattened box is unbounded: affine rescale of an unbounded box is not meaningful
        if "ClipAction" in spec and "RescaleAction" in spec and spec.index("ClipAction") < spec.index("RescaleAction"):
            continue  # rescaling an unbounded (ClipAction) box is not meaningful
        return spec
    return ["TimeLimit"]


def _plant(state, *, y=None, t=None, count=None):
    """Copy of a (wrapped) classic-control state with the base y / t and every TimeLimit counter replaced."""
    import equinox as eqx
    from jax import numpy as jnp

    layers = _state_layers(state)
    nb = len(layers) - 1
    if y is not None:
        state = eqx.tree_at(lambda s: _at(s, nb, "env_state").y, state, jnp.asarray(y, jnp.float32))
    if t is not None:
        state = eqx.tree_at(lambda s: _at(s, nb, "env_state").t, state, jnp.asarray(t, layers[-1].t.dtype))
    if count is not None:
        for d, layer in enumerate(layers[:-1]):
            if hasattr(layer, "step_count"):
                state = eqx.tree_at(lambda s, d=d: _at(s, d, "env_state").step_count, state,
                                    jnp.asarray(int(count), layer.step_count.dtype))
    return state


# ------------------------------------------------------------------ built-in environments
def _planted_y(name, rng):
    sg = float(rng.choice([-1.0, 1.0]))
    if name == "CartPole":
        if rng.random() < 0.5:
            return [sg * (2.4 - rng.uniform(0, 0.06)), sg * 1.5, 0.0, 0.0]
        return [0.0, 0.0, sg * (0.2094 - rng.uniform(0, 0.03)), sg * 1.0]
    if name == "MountainCar":
        return [0.5 - rng.uniform(0, 0.08), 0.06]
    if name == "ContinuousMountainCar":
        return [0.45 - rng.uniform(0, 0.08), 0.06]
    if name == "Acrobot":
        return [sg * (2.0 + rng.uniform(0, 0.3)), 0.0, sg * 2.5, 0.0]
    return None


def _steer_mode(name, rng):
    if name == "CartPole":
        return "const"
    if name in ("MountainCar", "ContinuousMountainCar"):
        return "hi"
    return str(rng.choice(["random", "corner", "const"]))


def _limits_for(rng, n_tl, natural):
    """Bounds for the TimeLimit layers: mostly 1..5, sometimes large enough for natural endings."""
    if n_tl == 0:
        return []
    if natural:
        return [int(rng.integers(12, 60)) for _ in range(n_tl)]
    return [int(rng.integers(1, 6)) for _ in range(n_tl)]


def _run_builtin(ctx, name, base, specs, *, chains, horizon, dt, resets, family):
    """Chains on one built-in env: bare (spec None) and under the given wrapper stacks."""
    rng = ctx.rng
    for ci, spec in enumerate(specs):
        if spec is None:
            env, used = base, []
        else:
            env, used = _build(ctx, base, spec)
        tag = f"{name}|" + ">".join(used) if used else f"{name}|bare"
        rig = Rig(ctx, tag, env)
        ctx.notes.setdefault("stacks", []).append(tag)
        n_tl = rig.n_tl
        for ch in range(chains):
            if rig.dead:
                break
            planted = family == "classic" and ch % 3 == 2 and _planted_y(name, rng) is not None
            natural = (ch % 3 == 1) or (planted and ch % 2 == 0)
            limits = _limits_for(rng, n_tl, natural)
            rig.env = _set_limits(env, limits)
            state = rig.reset()
            if state is None or rig.dead:
                break
            extra = ""

            def plant(st, ch=ch, limits=limits):
                # counter k (< every bound) with t = k*dt; k = N-1 makes the time limit fire on the next step
                k = (min(limits) - 1) if (limits and ch % 2 == 1) else int(rng.integers(0, (min(limits) if limits else 8)))
                return _plant(st, y=_planted_y(name, rng), t=k * dt, count=k if limits else None)

            if planted:
                state = plant(state)
                extra = "/planted"
            mode = _steer_mode(name, rng) if ch % 2 == 0 else "random"
            const = rig.any_action("corner" if family != "classic" else "random")
            for i in range(horizon):
                if mode == "const":
                    a = const
                elif mode in ("hi", "lo", "corner"):
                    a = rig.any_action(mode)
                else:
                    a = rig.any_action("corner" if rng.random() < 0.25 else "random")
                res = rig.step(state, a, chain=ch, i=i, limits=limits, extra_cls=extra)
                if res is None:
                    break
                state = res[0]
                if planted and res[1] and rng.random() < 0.8:
                    state = plant(state)  # start the next episode near its end as well
        rig.env = _set_limits(env, _limits_for(rng, n_tl, False))
        rig.freshness(n_resets=resets, n_pairs=ctx.n(8, 24))


def u_classic(ctx, name):
    from lerax.env import classic_control as cc

    base = getattr(cc, name)()
    dt = float(np.asarray(base.dt))
    n_stacks = ctx.n(1, 3)
    specs = [None]
    specs += [_random_spec(ctx.rng, base, int(ctx.rng.integers(2, 5))) for _ in range(n_stacks)]
    if not ctx.quick:
        specs.append(["TimeLimit"])
    _run_builtin(ctx, name, base, specs, chains=ctx.n(9, 30), horizon=ctx.n(24, 64), dt=dt, resets=64,
                 family="classic")
    ctx.require("steps_judged", ctx.n(200, 2000))
    ctx.require("boundary_steps_judged", ctx.n(15, 150))
    ctx.require("truncation_only_endings", 5)
    if name != "Pendulum":
        ctx.require("terminal_only_endings", 5)
        ctx.require("both_flags_endings", 2)
    ctx.require("resets_judged", 64)
    ctx.require("freshness_sets_judged", 2)
    ctx.require("key_pair_sets_judged", 1)


def u_mujoco(ctx, name):
    from lerax.env import mujoco as mj

    base = getattr(mj, name)()
    dt = float(np.asarray(base.dt))
    spec1 = _random_spec(ctx.rng, base, int(ctx.rng.integers(2, 5)))
    if ctx.quick:
        # the plain TimeLimit stack guarantees truncation-only endings whatever the random stack contains
        specs = [spec1, ["TimeLimit"]] + ([None] if name == "InvertedPendulum" else [])
    else:
        specs = [None, spec1, ["TimeLimit"]]
    heavy = name in ("Humanoid", "HumanoidStandup", "Ant")
    _run_builtin(ctx, name, base, specs, chains=ctx.n(6, 10 if heavy else 16), horizon=ctx.n(16, 24 if heavy else 32),
                 dt=dt, resets=64, family="mujoco")
    ctx.require("steps_judged", ctx.n(80, 600))
    ctx.require("boundary_steps_judged", ctx.n(8, 60))
    ctx.require("truncation_only_endings", 3)
    ctx.require("resets_judged", 64)
    ctx.require("freshness_sets_judged", 1)
    ctx.require("key_pair_sets_judged", 1)


def u_g1(ctx):
    from lerax.env.unitree.g1 import G1Standing

    base = G1Standing(noise_level=0.0)
    dt = float(np.asarray(base.dt))
    _run_builtin(ctx, "G1Standing", base, [["TimeLimit"]], chains=8, horizon=10, dt=dt, resets=64, family="g1")
    ctx.require("steps_judged", 60)
    ctx.require("boundary_steps_judged", 8)
    ctx.require("resets_judged", 64)
    ctx.require("freshness_sets_judged", 1)


# ------------------------------------------------------------------ finite MDPs with a Python interpreter
_NSMDP = None


def _nsmdp_cls():
    """FiniteMDP whose reward also depends on the successor (bonus per successor state and the
    successor's episode clock), so a reward taken from any other state is visible."""
    global _NSMDP
    if _NSMDP is None:
        import jax
        from jax import numpy as jnp
        from vlib.mdp import FiniteMDP

        class NSMDP(FiniteMDP):
            B: jax.Array

            def __init__(self, *a, B, **kw):
                super().__init__(*a, **kw)
                self.B = jnp.asarray(B, dtype=jnp.float32)

            def reward(self, state, action, next_state, *, key):
                return self._r(state, action) + self.B[next_state.s] + 0.01 * next_state.t.astype(jnp.float32)

        _NSMDP = NSMDP
    return _NSMDP


NS = 6
LOW, HIGH, LIN = -1.0, 2.0, 0.25
TEMPLATES = [
    # kind, obs_kind, stack (innermost first)
    ("discrete", "onehot", []),
    ("discrete", "onehot_t", ["TimeLimit"]),
    ("discrete", "index", ["Identity", "TimeLimit"]),
    ("discrete", "onehot_t", ["TimeLimit", "TimeLimit"]),
    ("box", "onehot", ["ClipAction", "TimeLimit"]),
    ("box", "index", ["TimeLimit", "RescaleAction"]),
    ("discrete", "dict", ["TimeLimit", "FlattenObservation"]),
    ("discrete", "onehot", ["TimeLimit", "ClipObservation", "RescaleObservation"]),
    ("multidiscrete", "onehot_t", ["ClipReward", "TimeLimit"]),
    ("multibinary", "onehot", ["TimeLimit", "TransformReward"]),
    ("discrete", "onehot_t", ["Identity", "TimeLimit", "Identity"]),
    ("box", "onehot_t", ["RescaleAction", "TimeLimit", "ClipAction"]),
    # thorough only from here
    ("box", "onehot", []),
    ("discrete", "index", ["RescaleObservation", "TimeLimit", "ClipReward"]),
    ("multidiscrete", "dict", ["FlattenObservation", "TimeLimit", "TransformReward", "Identity"]),
    ("box", "onehot_t", ["TimeLimit", "ClipAction", "TimeLimit"]),
    ("multibinary", "index", ["ClipObservation", "TimeLimit"]),
    ("discrete", "onehot", ["TransformReward", "ClipReward", "TimeLimit"]),
    ("box", "index", ["RescaleAction", "RescaleObservation", "TimeLimit"]),
    ("discrete", "onehot_t", ["TimeLimit", "Identity", "TimeLimit", "ClipReward"]),
    ("discrete", "onehot_t", []),
    ("multidiscrete", "onehot", ["Identity", "Identity", "TimeLimit"]),
    ("box", "onehot_t", ["RescaleAction", "ClipAction", "TimeLimit"]),
    ("discrete", "dict", ["TimeLimit"]),
]


def _kind_params(kind):
    if kind == "multidiscrete":
        return 6, (2, 3)
    if kind == "multibinary":
        return 4, (2, 2)
    return (3, ()) if kind == "discrete" else (4, ())


class FiniteRef:
    """Pure-Python semantics of NSMDP under a wrapper stack."""

    def __init__(self, tabs, B, kind, obs_kind, used, limits):
        self.P, self.R = np.asarray(tabs["P"], np.int64), np.asarray(tabs["R"], np.float64)
        self.term, self.trunc = np.asarray(tabs["term"], bool), np.asarray(tabs["trunc"], bool)
        self.starts = [int(x) for x in tabs["starts"]]
        self.B = np.asarray(B, np.float64)
        self.kind, self.obs_kind, self.used, self.limits = kind, obs_kind, list(used), list(limits)
        self.nA, self.nvec = _kind_params(kind)

    # action as executed by the base env
    def executed(self, raw):
        if self.kind != "box":
            return np.asarray(raw)
        a = np.asarray(raw, np.float64)
        # inner action bounds seen by each layer, bottom-up
        bounds = [(LOW, HIGH)]
        for name in self.used:
            lo, hi = bounds[-1]
            bounds.append((-np.inf, np.inf) if name == "ClipAction" else (-1.0, 1.0) if name == "RescaleAction" else (lo, hi))
        for d in range(len(self.used) - 1, -1, -1):
            lo, hi = bounds[d]
            if self.used[d] == "ClipAction":
                a = np.clip(a, lo, hi)
            elif self.used[d] == "RescaleAction":
                a = lo + (a + 1.0) * (hi - lo) / 2.0
        return a

    def a_index(self, a):
        if self.kind == "discrete":
            return int(a), 1.0
        if self.kind == "multidiscrete":
            idx = 0
            for i, n in enumerate(self.nvec):
                idx = idx * n + int(a[i])
            return idx, 1.0
        if self.kind == "multibinary":
            return int(sum(int(a[i]) << i for i in range(len(self.nvec)))), 1.0
        pos = (float(a[0]) - LOW) / (HIGH - LOW) * self.nA
        # interior bin edges are ambiguous within float error; the outer edges are not (index is clipped)
        margin = abs(pos - round(pos)) if 0.5 < pos < self.nA - 0.5 else 1.0
        return int(min(max(np.floor(pos), 0), self.nA - 1)), margin

    def obs(self, s, t):
        oh = np.eye(NS)[s]
        if self.obs_kind == "onehot":
            o, lo, hi = oh, np.zeros(NS), np.ones(NS)
        elif self.obs_kind == "index":
            o, lo, hi = np.array([float(s)]), np.zeros(1), np.full(1, NS - 1.0)
        elif self.obs_kind == "onehot_t":
            o = np.concatenate([oh, [float(t)]])
            lo, hi = np.zeros(NS + 1), np.array([1.0] * NS + [1e6])
        else:
            o, lo, hi = {"s": oh, "i": np.array(float(s))}, None, None
        for name in self.used:
            if name == "ClipObservation":
                o = np.clip(o, lo, hi)
            elif name == "RescaleObservation":
                o = -1.0 + (o - lo) * 2.0 / (hi - lo)
                lo, hi = -np.ones_like(lo), np.ones_like(hi)
            elif name == "FlattenObservation":
                if isinstance(o, dict):
                    o = np.concatenate([np.ravel(o["s"]), np.ravel(o["i"])])
                else:
                    o = np.ravel(o)
                lo, hi = np.full(o.shape, -np.inf), np.full(o.shape, np.inf)
        return o

    def reward_out(self, r):
        for name in self.used:
            if name == "ClipReward":
                r = float(np.clip(r, -1.0, 1.0))
            elif name == "TransformReward":
                r = r * 0.5 - 1.0
        return r

    def step(self, s, t, raw):
        a = self.executed(raw)
        idx, _ = self.a_index(a)
        ns = int(self.P[s, idx])
        r_base = float(self.R[s, idx]) + (LIN * float(np.sum(a)) if self.kind == "box" else 0.0)
        r = r_base + float(self.B[ns]) + 0.01 * (t + 1)
        term = bool(self.term[ns])
        trunc = bool(self.trunc[ns]) or any(t + 1 >= n for n in self.limits)
        return ns, r_base, self.reward_out(r), term, trunc


def _finite_action(rng, ref, rig):
    from jax import numpy as jnp

    if ref.kind == "discrete":
        return jnp.asarray(np.int32(rng.integers(ref.nA)))
    if ref.kind == "multidiscrete":
        return jnp.asarray(np.array([rng.integers(n) for n in ref.nvec], np.int32))
    if ref.kind == "multibinary":
        return jnp.asarray(rng.random(len(ref.nvec)) < 0.5)
    act = [n for n in ref.used if n in ("ClipAction", "RescaleAction")]
    for _ in range(200):
        if act and act[-1] == "ClipAction":  # outer space is all of R^2
            raw = rng.normal(0.0, 2.0, size=2) if rng.random() < 0.7 else rng.choice([-7.0, 7.0], size=2)
        elif act and act[-1] == "RescaleAction":
            raw = rng.uniform(-1, 1, size=2) if rng.random() < 0.8 else rng.choice([-1.0, 1.0], size=2)
        else:
            raw = rng.uniform(LOW, HIGH, size=2) if rng.random() < 0.8 else rng.choice([LOW, HIGH], size=2)
        raw = raw.astype(np.float32)
        _, margin = ref.a_index(ref.executed(raw))
        if margin > 1e-3:
            return jnp.asarray(raw)
        # bin edge within float error: ambiguous which table entry applies -> draw again
    return jnp.asarray(np.array([0.1, 0.1], np.float32))


def _finite_state(state):
    b = _state_layers(state)[-1]
    return int(np.asarray(b.s)), int(np.asarray(b.t)), float(np.asarray(b.ret)), int(np.asarray(b.start))


def _draw_tables(rng, kind, j):
    from vlib.mdp import random_tables

    nA, _ = _kind_params(kind)
    p_term, p_trunc = [(0.3, 0.0), (0.0, 0.3), (0.25, 0.25), (0.0, 0.0), (0.5, 0.2)][j % 5]
    tabs = random_tables(rng, NS, nA, p_term=p_term, p_trunc=p_trunc, n_starts=3, chain_bias=float(rng.choice([0.3, 0.7])))
    if j % 5 == 2 and not (tabs["term"] & tabs["trunc"]).any():
        free = [s for s in range(NS) if s not in set(tabs["starts"])]
        s = int(rng.choice(free))
        tabs["term"][s] = tabs["trunc"][s] = True  # a state that terminates and truncates at once
    B = np.round(rng.normal(0, 1, size=NS), 3)
    return tabs, B


def u_finite(ctx, part):
    import equinox as eqx
    from jax import numpy as jnp
    rng = ctx.rng
    nparts = ctx.n(2, 4)
    n_tpl = ctx.n(12, len(TEMPLATES))
    mine = [i for i in range(n_tpl) if i % nparts == part]
    NSMDP = _nsmdp_cls()
    for ti in mine:
        kind, obs_kind, spec = TEMPLATES[ti]
        nA, nvec = _kind_params(kind)
        tabs, B = _draw_tables(rng, kind, 0)
        mk = lambda tabs, B: NSMDP(tabs["P"], tabs["R"], tabs["term"], tabs["starts"], trunc=tabs["trunc"],  # noqa: E731
                                   kind=kind, obs_kind=obs_kind, nvec=nvec, box_dim=2, low=LOW, high=HIGH, lin=LIN, B=B)
        env0, used = _build(ctx, mk(tabs, B), spec)
        tag = f"finite-{kind}-{obs_kind}|" + (">".join(used) if used else "bare")
        ctx.notes.setdefault("stacks", []).append(tag)
        rig = Rig(ctx, tag, env0)
        nb = len(_env_layers(env0)) - 1
        n_tl = rig.n_tl
        for j in range(ctx.n(5, 15)):
            if rig.dead:
                break
            tabs, B = _draw_tables(rng, kind, j)
            fresh = mk(tabs, B)
            env = eqx.tree_at(lambda e: tuple(getattr(_at(e, nb, "env"), f) for f in ("P", "R", "term", "trunc", "starts", "B")),
                              env0, tuple(getattr(fresh, f) for f in ("P", "R", "term", "trunc", "starts", "B")))
            limits = [int(rng.integers(1, 6)) if (j + q) % 4 else int(rng.integers(6, 12)) for q in range(n_tl)]
            env = _set_limits(env, limits)
            rig.with_env(env)
            ref = FiniteRef(tabs, B, kind, obs_kind, used, limits)
            for ch in range(ctx.n(3, 4)):
                state = rig.reset()
                if state is None or rig.dead:
                    break
                s, t, ret, start = _finite_state(state)
                for i in range(ctx.n(32, 48)):
                    a = _finite_action(rng, ref, rig)
                    res = rig.step(state, a, chain=f"{j}.{ch}", i=i, limits=limits)
                    if res is None:
                        break
                    nstate, _ended, out = res
                    # ---- replay by the interpreter (independent of every lerax component)
                    ns, r_base, r_want, term_w, trunc_w = ref.step(s, t, np.asarray(a))
                    det = rig.where(chain=f"{j}.{ch}", i=i, limits=limits, s=s, t=t, action=np.asarray(a),
                                    successor=ns, P_row=ref.P[s], term=ref.term.astype(int), trunc=ref.trunc.astype(int),
                                    starts=ref.starts)
                    ctx.monitor("mdp_replay_steps")
                    r_got, term_g, trunc_g = float(out[2]), bool(out[3]), bool(out[4])
                    if abs(r_got - r_want) > 1e-4 + 1e-4 * abs(r_want):
                        ctx.violation("mdp-replay-reward", dict(det, got=r_got, want=r_want))
                    if term_g != term_w:
                        ctx.violation("mdp-replay-terminal-flag", dict(det, got=term_g, want=term_w))
                    if trunc_g != trunc_w:
                        ctx.violation("mdp-replay-truncate-flag", dict(det, got=trunc_g, want=trunc_w))
                    s2, t2, ret2, start2 = _finite_state(nstate)
                    cs = _counters(nstate)
                    if term_w or trunc_w:
                        ctx.monitor("mdp_replay_boundaries")
                        if term_w and trunc_w and ref.term[ns] and not ref.trunc[ns]:
                            ctx.monitor("mdp_replay_terminal_on_time_limit_step")
                        if s2 not in ref.starts or start2 != s2:
                            ctx.violation("mdp-replay-reset-state-not-a-start", dict(det, got=[s2, t2, ret2, start2]))
                        if t2 != 0 or ret2 != 0.0:
                            ctx.violation("mdp-replay-episode-clock-not-restarted", dict(det, got=[s2, t2, ret2, start2]))
                        if any(c != 0 for c in cs):
                            ctx.violation("mdp-replay-timelimit-counter-not-reset", dict(det, counters=cs))
                    else:
                        want = [ns, t + 1, ret + r_base, start]
                        if [s2, t2, start2] != [ns, t + 1, start] or abs(ret2 - (ret + r_base)) > 1e-4 * (1 + abs(ret)):
                            ctx.violation("mdp-replay-state-not-successor", dict(det, got=[s2, t2, ret2, start2], want=want))
                        if any(c != t + 1 for c in cs):
                            ctx.violation("mdp-replay-timelimit-counter", dict(det, counters=cs, want=t + 1))
                    o_want = ref.obs(s2, t2)
                    m = _cmp(jnp_free(out[1]), o_want, atol=1e-5, rtol=1e-5)
                    if m is not None:
                        o_succ = _cmp(jnp_free(out[1]), ref.obs(ns, t + 1), atol=1e-5, rtol=1e-5) is None
                        ctx.violation("mdp-replay-obs-not-of-returned-state",
                                      dict(det, mismatch=m, returned=[s2, t2], obs_is_successor_obs=o_succ))
                    state, (s, t, ret, start) = nstate, (s2, t2, ret2, start2)
            rig.freshness(n_resets=64, n_pairs=32)
    ctx.require("mdp_replay_steps", ctx.n(1500, 10000))
    ctx.require("mdp_replay_boundaries", ctx.n(300, 2000))
    ctx.require("terminal_only_endings", 30)
    ctx.require("truncation_only_endings", 30)
    ctx.require("both_flags_endings", 10)
    ctx.require("freshness_sets_judged", 5)
    ctx.require("key_pair_sets_judged", 3)


def jnp_free(o):
    """Observation pytree as plain NumPy with dict leaves in a canonical container."""
    if isinstance(o, dict):
        return {k: np.asarray(v, np.float64) for k, v in o.items()}
    return np.asarray(o, np.float64)


def u_gym_adapter(ctx):
    """Gym-style step of an adapted Gymnasium environment (anchor compatibility/gym.py): a recording
    gym.Wrapper logs what the underlying environment was actually asked to do. Each lerax step must cause
    exactly one Gymnasium step, report that step's reward/flags/observation when no flag is raised, and
    reset the underlying environment exactly when a flag was raised (then the observation is the reset one)."""
    import gymnasium as gym
    import jax.numpy as jnp
    from lerax.compatibility.gym import GymToLeraxEnv
    from lerax.wrapper import TimeLimit

    class Rec(gym.Wrapper):
        def __init__(self, env):
            super().__init__(env)
            self.log = []

        def reset(self, **kw):
            o, i = self.env.reset(**kw)
            self.log.append(("reset", kw.get("seed"), np.asarray(o, np.float64).copy()))
            return o, i

        def step(self, a):
            o, r, te, tr, i = self.env.step(a)
            self.log.append(("step", np.asarray(a).copy(), np.asarray(o, np.float64).copy(), float(r), bool(te), bool(tr)))
            return o, r, te, tr, i

    specs = [("CartPole-v1", 7, None), ("CartPole-v1", 200, None), ("MountainCar-v0", 5, None), ("Pendulum-v1", 4, 9),
             ("Acrobot-v1", 6, 3)][: ctx.n(4, 5)]
    for gid, max_steps, outer_tl in specs:
        rec = Rec(gym.make(gid, max_episode_steps=max_steps))
        env = GymToLeraxEnv(rec)
        name = f"GymToLeraxEnv({gid}[max{max_steps}])" + (f">TimeLimit({outer_tl})" if outer_tl else "")
        if outer_tl:
            env = TimeLimit(env, outer_tl)
        state, obs, _ = env.reset(key=ctx.key(1))
        n_prev = len(rec.log)
        if [e[0] for e in rec.log] != ["reset"]:
            ctx.violation("gym-adapter-reset-call-pattern", {"env": name, "log": [e[0] for e in rec.log]})
        count = 0
        for i in range(ctx.n(60, 200)):
            a = env.action_space.sample(key=ctx.key(100 + i))
            state, obs, rew, term, trunc, _ = env.step(state, a, key=ctx.key(1000 + i))
            new = rec.log[n_prev:]
            n_prev = len(rec.log)
            count += 1
            flagged = bool(term) or bool(trunc)
            ctx.case({"env": name, "i": i, "flag": flagged}, nontrivial=flagged, cls=f"gym-adapter/{gid}")
            ctx.monitor("gym_adapter_steps")
            kinds = [e[0] for e in new]
            want_kinds = ["step", "reset"] if flagged else ["step"]
            if kinds != want_kinds:
                ctx.violation("gym-adapter-underlying-env-not-stepped-once-reset-only-on-flag",
                              {"env": name, "i": i, "flags": [bool(term), bool(trunc)], "underlying_calls": kinds, "want": want_kinds})
                break
            st = new[0]
            inner_trunc = st[5]
            want_trunc = inner_trunc or (outer_tl is not None and count >= outer_tl)
            if abs(float(rew) - st[3]) > 1e-6 * (1 + abs(st[3])) or bool(term) != st[4] or bool(trunc) != want_trunc:
                ctx.violation("gym-adapter-step-reward-or-flags-not-of-this-transition",
                              {"env": name, "i": i, "got": [float(rew), bool(term), bool(trunc)], "want": [st[3], st[4], want_trunc]})
            want_obs = new[1][2] if flagged else st[2]
            if not np.allclose(np.asarray(obs, np.float64), want_obs, rtol=1e-6, atol=1e-6):
                ctx.violation("gym-adapter-observation-not-of-returned-state",
                              {"env": name, "i": i, "flagged": flagged, "got": np.asarray(obs), "want": want_obs})
            if flagged:
                ctx.monitor("gym_adapter_episode_ends")
                count = 0
    ctx.require("gym_adapter_steps", 100)
    ctx.require("gym_adapter_episode_ends", 5)


def u_lerax2gym(ctx):
    """Gym-style step of a lerax stack driven through LeraxToGymEnv (anchor compatibility/gym.py), whose PRNG key
    is hidden adapter state: every step is judged against the stack's own functional components from the state
    the adapter held; across many episode boundaries without an explicit reset() the states the adapter
    restarts from must be fresh draws (pairwise distinct for continuous initial laws), as must repeated
    seedless reset() calls."""
    from lerax.compatibility.gym import LeraxToGymEnv
    from lerax.env.classic_control import Acrobot, CartPole, MountainCar, Pendulum
    from lerax.wrapper import ClipAction, TimeLimit
    from vlib.common import digest

    stacks = [("CartPole", CartPole(), "corner"), ("Pendulum|TimeLimit(5)", TimeLimit(Pendulum(), 5), "random"),
              ("MountainCar|TimeLimit(4)", TimeLimit(MountainCar(), 4), "random"),
              ("Pendulum|ClipAction>TimeLimit(3)", TimeLimit(ClipAction(Pendulum()), 3), "random"),
              ("Acrobot|TimeLimit(6)>TimeLimit(9)", TimeLimit(TimeLimit(Acrobot(), 6), 9), "random")][: ctx.n(4, 5)]
    for tag, env, mode in stacks:
        rig = Rig(ctx, "LeraxToGymEnv:" + tag, env)
        g = LeraxToGymEnv(env)
        seed = int(ctx.rng.integers(0, 2**30))
        obs, _ = g.reset(seed=seed)
        det0 = rig.where(call="adapter.reset", seed=seed)
        rig._judge_fresh(g.state, "adapter-reset", det0)
        m = _cmp(obs, rig.comps(env, g.state, rig.any_action(), g.state)["obs_r"])
        if m is not None:
            ctx.violation("adapter-reset-obs-not-of-returned-state", dict(det0, mismatch=m))
        ends, want_ends = [], ctx.n(24, 80)
        held = [(obs, np.array(obs, copy=True), "reset")]  # what a caller that keeps the returned arrays holds
        i = 0
        while len(ends) < want_ends and i < ctx.n(1500, 6000):
            state = g.state
            a = rig.any_action("const0" if mode == "corner" else "random")  # constant push ends CartPole episodes soon
            obs, r, term, trunc, _ = g.step(np.asarray(a))
            if len(held) < 400:
                held.append((obs, np.array(obs, copy=True), f"step {i}"))
            ns = g.state
            c = rig.comps(env, state, a, ns)
            c_term, c_trunc = bool(c["term"]), bool(c["trunc"])
            ended = c_term or c_trunc
            det = rig.where(i=i, action=np.asarray(a), flags_got=[term, trunc], flags_want=[c_term, c_trunc],
                            state_fingerprint=np.asarray(rig.fp(_state_layers(state)[-1])))
            ctx.case({"env": rig.tag, "i": i, "h": digest(np.asarray(rig.fp(_state_layers(state)[-1])), np.asarray(a))},
                     nontrivial=ended, cls=f"lerax2gym/{tag}/{'end' if ended else 'continue'}")
            ctx.monitor("adapter_steps_judged")
            if not abs(float(r) - float(c["r"])) <= ATOL + RTOL * abs(float(c["r"])):
                ctx.violation("adapter-step-reward-not-of-this-transition", dict(det, got=float(r), want=float(c["r"])))
            for which, gt, w in (("terminal", term, c_term), ("truncate", trunc, c_trunc)):
                if bool(gt) != w:
                    if _flag_stable(ctx, env, c["nxt"], which, w):
                        ctx.violation(f"adapter-step-{which}-flag-wrong", dict(det, got=bool(gt), want=w))
                    else:
                        ctx.monitor("ambiguous_flag_cases_excluded")
            if not ended:
                m = _cmp(ns, c["nxt"]) or _cmp(obs, c["obs_n"])
                if m is not None:
                    ctx.violation("adapter-continuing-step-not-successor", dict(det, mismatch=m))
            else:
                ctx.monitor("adapter_boundary_steps_judged")
                rig._judge_fresh(ns, "adapter-ending-step", det)
                m = _cmp(obs, c["obs_r"])
                if m is not None:
                    ctx.violation("adapter-ending-step-obs-not-of-returned-state", dict(det, mismatch=m))
                ends.append(digest(np.asarray(rig.fp(_state_layers(ns)[-1]))))
            i += 1
        # the observation handed out with a state stays that state's observation: later calls must not write into it
        ctx.monitor("adapter_returned_observations_rechecked_later", len(held))
        for arr, snap, when in held:
            if not np.array_equal(np.asarray(arr), snap, equal_nan=True):
                ctx.violation("adapter-returned-observation-overwritten-by-a-later-call",
                              rig.where(returned_by=when, value_when_returned=snap, value_now=np.asarray(arr)))
                break
        if len(ends) >= 16:
            rig._judge_distinct(ends, "adapter-auto-reset-states-not-freshly-drawn",
                                "states LeraxToGymEnv restarts from at successive episode ends (no explicit reset)")
            ctx.monitor("adapter_auto_reset_sets_judged")
        fps = []
        for _ in range(ctx.n(24, 64)):
            g.reset()
            fps.append(digest(np.asarray(rig.fp(_state_layers(g.state)[-1]))))
        rig._judge_distinct(fps, "adapter-seedless-resets-not-freshly-drawn", "successive seedless LeraxToGymEnv.reset() calls")
    ctx.require("adapter_steps_judged", 200)
    ctx.require("adapter_boundary_steps_judged", 40)
    ctx.require("adapter_auto_reset_sets_judged", 3)


def run_unit(name, ctx):
    if name == "lerax2gym":
        return u_lerax2gym(ctx)
    if name == "gym-adapter":
        return u_gym_adapter(ctx)
    if name.startswith("finite"):
        return u_finite(ctx, int(name[len("finite"):]))
    if name.startswith("cc-"):
        return u_classic(ctx, name[3:])
    if name.startswith("mj-"):
        return u_mujoco(ctx, name[3:])
    if name == "g1":
        return u_g1(ctx)
    raise ValueError(name)
