"""C11 Training is reproducible, pure, and unaffected by observers."""

from __future__ import annotations

import json
import os
import subprocess
import sys

import numpy as np

RULE = ("cases = one (algorithm, environment, hyper-parameters, key, observer set) training run through the real "
        "learn() (and through a Python loop of reset()/iteration() where the final algorithm state is needed), compared "
        "with its twin: same inputs in-process (bit-identical), same inputs in a fresh subprocess (bit-identical), "
        "other key (must differ), input policy before/after (bit-identical), with observers attached (parameters "
        "within 1e-2 of the distance training moved them + 1e-6, integer-valued history exactly equal). "
        "non-trivial = training moved the parameters; distinct by (algo, env, config, key, observer)")
FLOOR = {"quick": 20, "thorough": 150}
ASSUMPTIONS = ["XLA CPU is deterministic for one compiled program",
               "observers change the compiled program, so XLA may reassociate: 1 ulp differences measured; parameters are "
               "therefore compared within 1% of the training movement, integer history exactly"]

ALGOS = ["PPO", "A2C", "REINFORCE", "DQN", "SAC"]


def units(tier):
    us = [{"name": f"{a}-{e}", "timeout": 2400} for a in ALGOS for e in _envs_for(a)]
    return us + [{"name": "fresh-onpolicy", "timeout": 2400}, {"name": "fresh-offpolicy", "timeout": 2400},
                 {"name": "gym-adapter", "timeout": 2400}]


def _setup(algo_name, env_name, cfg, seed, extra=None):
    """Deterministic construction from plain values, so that a fresh process can repeat it.
    `extra`: further constructor hyper-parameters (plain values)."""
    extra = dict(extra or {})
    from jax import random as jr
    from lerax.algorithm import A2C, DQN, PPO, REINFORCE, SAC
    from lerax.policy import MLPActorCriticPolicy, MLPQPolicy, MLPSACPolicy
    from lerax.wrapper import TimeLimit
    from vlib.mdp import FiniteMDP, random_tables

    rng = np.random.default_rng(seed)
    kind = "box" if algo_name == "SAC" else "discrete"
    if env_name == "finite":
        t = random_tables(rng, 5, 3, p_term=0.25)
        env = TimeLimit(FiniteMDP(t["P"], t["R"], t["term"], t["starts"], kind=kind, box_dim=1), 6)
    elif env_name == "cartpole":
        from lerax.env.classic_control import CartPole

        env = TimeLimit(CartPole(), 20)
    else:
        from lerax.env.classic_control import Pendulum

        env = TimeLimit(Pendulum(), 20)
    E, S = cfg["E"], cfg["S"]
    k = jr.key(seed)
    if algo_name == "PPO":
        algo = PPO(num_envs=E, num_steps=S, num_batches=cfg.get("nb", 2), num_epochs=2, learning_rate=1e-2, **extra)
        pol = MLPActorCriticPolicy(env, key=k, feature_size=4, feature_width=8, value_width=8, action_width=8)
    elif algo_name == "A2C":
        algo = A2C(num_envs=E, num_steps=S, learning_rate=1e-2, **extra)
        pol = MLPActorCriticPolicy(env, key=k, feature_size=4, feature_width=8, value_width=8, action_width=8)
    elif algo_name == "REINFORCE":
        algo = REINFORCE(num_envs=E, num_steps=S, learning_rate=1e-2, **extra)
        pol = MLPActorCriticPolicy(env, key=k, feature_size=4, feature_width=8, value_width=8, action_width=8)
    elif algo_name == "DQN":
        algo = DQN(buffer_size=64 * E, learning_starts=4, num_envs=E, num_steps=S, batch_size=4, target_update_interval=3,
                   learning_rate=1e-2, **extra)
        pol = MLPQPolicy(env, key=k, width_size=8, epsilon=0.3)
    else:
        algo = SAC(buffer_size=64 * E, learning_starts=4, num_envs=E, num_steps=S, batch_size=4, q_width_size=8, q_depth=1,
                   policy_lr=1e-2, q_lr=1e-2, **extra)
        pol = MLPSACPolicy(env, key=k, feature_size=4, width_size=8)
    return env, algo, pol


def _digest_leaves(tree):
    from vlib.common import digest, inexact_leaves

    return digest(*inexact_leaves(tree))


def _observer(kind, env, pol, T, recorder=None):
    from lerax.callback import ConsoleBackend, LoggingCallback, ProgressBarCallback
    from checks.c19 import _backend
    from vlib.stubs import ProbeCallback, Recorder

    rec = recorder or Recorder()
    if kind == "logging-rec":
        return LoggingCallback(_backend(rec), name="c11", alpha=0.9)
    if kind == "logging-console":
        return LoggingCallback(ConsoleBackend(T), name="c11")
    if kind == "progress":
        return ProgressBarCallback(T, env=env, policy=pol)
    if kind == "list":
        return [LoggingCallback(_backend(rec), name="c11"), ProgressBarCallback(T)]
    if kind == "list-probe":
        return [ProbeCallback(rec, "a"), LoggingCallback(_backend(rec), name="c11"), ProbeCallback(rec, "b")]
    if kind == "empty-list":
        return []
    raise ValueError(kind)


def _envs_for(algo_name):
    return ["finite", "pendulum"] if algo_name == "SAC" else ["finite", "cartpole"]


def _run_algo(ctx, algo_name, env_names):
    import equinox as eqx
    import jax
    from vlib.common import inexact_leaves, leaves_equal, leaves_maxdiff

    observers = ["logging-rec", "progress", "list", "logging-console", "list-probe", "empty-list"]
    n_cfg = ctx.n(1, 4)
    for env_name in env_names:
        for c in range(n_cfg):
            cfg = {"E": int(ctx.rng.integers(1, 3)), "S": int(ctx.rng.integers(2, 6))}
            seed = int(ctx.rng.integers(0, 10**6))
            env, algo, pol = _setup(algo_name, env_name, cfg, seed)
            iters = int(ctx.rng.integers(3, 9))
            T = iters * cfg["E"] * cfg["S"] + int(ctx.rng.integers(0, cfg["E"] * cfg["S"]))
            k1, k2 = ctx.key(c), ctx.key(1000 + c)
            before = [x.copy() for x in inexact_leaves(pol)]
            info = {"algo": algo_name, "env": env_name, **cfg, "T": T, "seed": seed}
            p1 = algo.learn(env, pol, T, key=k1)
            p1b = algo.learn(env, pol, T, key=k1)
            p2 = algo.learn(env, pol, T, key=k2)
            jax.block_until_ready(jax.tree.leaves((p1, p1b, p2)))
            moved = leaves_maxdiff(p1, pol)
            ctx.case({**info, "twin": "repeat"}, nontrivial=moved > 0, cls=f"{algo_name}/repeat")
            ctx.monitor("repeat_pairs")
            if not leaves_equal(p1, p1b):
                ctx.violation("same-inputs-different-parameters", {**info, "maxdiff": leaves_maxdiff(p1, p1b)})
            ctx.case({**info, "twin": "other-key"}, nontrivial=moved > 0, cls=f"{algo_name}/other-key")
            if leaves_equal(p1, p2):
                ctx.violation("different-keys-identical-runs", info)
            if c == 0:
                # old-style keys (jax.random.PRNGKey(seed), raw uint32[2]) are keys too: two of them are two runs
                from jax import random as jr

                la, lb = int(ctx.rng.integers(1, 50)), int(ctx.rng.integers(50, 100))
                pl_a = algo.learn(env, pol, T, key=jr.PRNGKey(la))
                pl_b = algo.learn(env, pol, T, key=jr.PRNGKey(lb))
                pl_a2 = algo.learn(env, pol, T, key=jr.PRNGKey(la))
                ctx.case({**info, "twin": "legacy-keys", "seeds": [la, lb]}, nontrivial=moved > 0, cls=f"{algo_name}/legacy-keys")
                ctx.monitor("legacy_key_pairs")
                if leaves_equal(pl_a, pl_b):
                    ctx.violation("different-keys-identical-runs", {**info, "keys": f"jr.PRNGKey({la}) vs jr.PRNGKey({lb})"})
                if not leaves_equal(pl_a, pl_a2):
                    ctx.violation("same-inputs-different-parameters", {**info, "key": f"jr.PRNGKey({la})", "maxdiff": leaves_maxdiff(pl_a, pl_a2)})
            after = inexact_leaves(pol)
            ctx.case({**info, "twin": "input-policy"}, nontrivial=moved > 0, cls=f"{algo_name}/input-untouched")
            if not all(np.array_equal(a, b) for a, b in zip(before, after)):
                ctx.violation("input-policy-mutated-by-training", info)
            if moved == 0:
                ctx.violation("training-did-not-move-parameters", info)
            # observers
            obs_list = observers[: ctx.n(3, 6)] if c == 0 else [observers[(c + j) % len(observers)] for j in range(2)]
            for ob in obs_list:
                cb = _observer(ob, env, pol, T)
                po = algo.learn(env, pol, T, key=k1, callback=cb)
                jax.block_until_ready(jax.tree.leaves(po))
                jax.effects_barrier()
                d = leaves_maxdiff(po, p1)
                ctx.case({**info, "twin": f"observer-{ob}"}, nontrivial=moved > 0, cls=f"{algo_name}/observer/{ob}")
                ctx.monitor("observer_pairs")
                ctx.notes.setdefault("observer_maxdiff_over_movement", []).append(round(d / max(moved, 1e-12), 8))
                if d > 1e-2 * moved + 1e-6:
                    ctx.violation("observer-changes-trained-policy", {**info, "observer": ob, "maxdiff": d, "training_movement": moved})
            # integer-valued history through the state (Python loop of the real iteration())
            def loop(callback):
                cbc = algo.consolidate_callbacks(callback)
                st = eqx.filter_jit(lambda k: algo.reset(env, pol, key=k, callback=cbc))(k1)
                it = eqx.filter_jit(lambda s, k: algo.iteration(s, key=k, callback=cbc))
                for j in range(iters):
                    st = it(st, jax.random.fold_in(k2, j))
                jax.effects_barrier()
                return st

            s_plain = loop(None)
            s_obs = loop(_observer("logging-rec", env, pol, T))
            ints_a = [np.asarray(x) for x in jax.tree.leaves(eqx.filter(s_plain.step_state.env_state, eqx.is_array)) if np.asarray(x).dtype.kind in "iub"]
            ints_b = [np.asarray(x) for x in jax.tree.leaves(eqx.filter(s_obs.step_state.env_state, eqx.is_array)) if np.asarray(x).dtype.kind in "iub"]
            hist_a, hist_b = ints_a, ints_b
            if algo_name == "DQN":
                hist_a = ints_a + [np.asarray(s_plain.step_state.buffer.actions), np.asarray(s_plain.step_state.buffer.dones)]
                hist_b = ints_b + [np.asarray(s_obs.step_state.buffer.actions), np.asarray(s_obs.step_state.buffer.dones)]
            elif algo_name == "SAC":
                hist_a = ints_a + [np.asarray(s_plain.step_state.buffer.dones)]
                hist_b = ints_b + [np.asarray(s_obs.step_state.buffer.dones)]
            ctx.case({**info, "twin": "observer-integer-history"}, nontrivial=len(hist_a) > 0, cls=f"{algo_name}/observer/integer-history")
            ctx.monitor("integer_history_pairs")
            if len(hist_a) != len(hist_b) or not all(np.array_equal(a, b) for a, b in zip(hist_a, hist_b)):
                ctx.violation("observer-changes-integer-history", info)
            dd = leaves_maxdiff(s_obs.policy, s_plain.policy)
            mv = leaves_maxdiff(s_plain.policy, pol)
            if dd > 1e-2 * mv + 1e-6:
                ctx.violation("observer-changes-trained-policy", {**info, "observer": "logging-rec (iteration loop)", "maxdiff": dd, "training_movement": mv})
    ctx.require("repeat_pairs", 1)
    ctx.require("observer_pairs", 3)


_CHILD = r"""
import sys, json
sys.path[:0] = {path!r}
import jax
from checks.c11 import _setup, _digest_leaves
from jax import random as jr
out = []
for job in {jobs!r}:
    env, algo, pol = _setup(job["algo"], job["env"], job["cfg"], job["seed"], job.get("extra"))
    p = algo.learn(env, pol, job["T"], key=jr.key(job["key"]))
    out.append(_digest_leaves(p))
print("DIGESTS " + json.dumps(out))
"""


def _run_fresh(ctx, algos):
    from jax import random as jr

    jobs = []
    for a in algos:
        for env_name in (_envs_for(a) if not ctx.quick else _envs_for(a)[:1]):
            cfg = {"E": int(ctx.rng.integers(1, 3)), "S": int(ctx.rng.integers(2, 6))}
            extra = ({"tau": 0.05, "gamma": 0.95} if a == "SAC" else
                     {"max_grad_norm": float(ctx.rng.choice([5.0, 50.0])), "gamma": 0.95})
            jobs.append({"algo": a, "env": env_name, "cfg": cfg, "seed": int(ctx.rng.integers(0, 10**6)),
                         "T": 5 * cfg["E"] * cfg["S"], "key": int(ctx.rng.integers(0, 10**6)), "extra": extra})
    mine = []
    for job in jobs:
        # this session has a history the fresh one lacks: before every job an algorithm object of the same class,
        # same learning rate and other hyper-parameters is built and trained (training is a function of its inputs,
        # not of what the session did before)
        decoy = ({"tau": 0.5, "gamma": 0.5} if job["algo"] == "SAC" else {"max_grad_norm": 0.01, "gamma": 0.5})
        env, algo, pol = _setup(job["algo"], job["env"], job["cfg"], job["seed"] + 1, decoy)
        algo.learn(env, pol, 2 * job["cfg"]["E"] * job["cfg"]["S"], key=jr.key(job["key"] + 1))
        ctx.monitor("decoy_runs_before_job")
        env, algo, pol = _setup(job["algo"], job["env"], job["cfg"], job["seed"], job["extra"])
        mine.append(_digest_leaves(algo.learn(env, pol, job["T"], key=jr.key(job["key"]))))
    code = _CHILD.format(path=[p for p in sys.path if p], jobs=jobs)
    env = dict(os.environ)
    # a fresh interpreter session in every respect that is not an input of training: in particular another
    # string-hash seed (the harness pins PYTHONHASHSEED=0 for itself; the child gets a different one)
    env["PYTHONHASHSEED"] = str(1 + (ctx.seed + 12345) % 4_000_000)
    ctx.notes["child_pythonhashseed"] = env["PYTHONHASHSEED"]
    ctx.notes["parent_pythonhashseed"] = os.environ.get("PYTHONHASHSEED")
    p = subprocess.run([sys.executable, "-c", code], capture_output=True, text=True, timeout=1500, env=env)
    line = [l for l in p.stdout.splitlines() if l.startswith("DIGESTS ")]
    if not line:
        ctx.inconc("fresh process produced no digests: " + (p.stderr or p.stdout)[-800:])
        return
    theirs = json.loads(line[0][8:])
    for job, a, b in zip(jobs, mine, theirs):
        ctx.case({**job, "twin": "fresh-process"}, nontrivial=True, cls=f"{job['algo']}/fresh-process")
        ctx.monitor("fresh_process_pairs")
        if a != b:
            ctx.violation("fresh-process-different-parameters", {**job, "here": a, "there": b})
    ctx.require("fresh_process_pairs", 2)


def _run_gym_adapter(ctx):
    """The environment object is an input like any other: training twice on the *same* GymToLeraxEnv (whose wrapped
    gym.Env carries hidden Python-side state: its generator, its current episode) must give the same parameters as
    the first time and as a fresh adapter does."""
    import gymnasium as gym
    import jax
    from jax import random as jr
    from lerax.algorithm import DQN, PPO
    from lerax.compatibility.gym import GymToLeraxEnv
    from lerax.policy import MLPActorCriticPolicy, MLPQPolicy
    from vlib.common import leaves_equal, leaves_maxdiff

    for i, algo_name in enumerate(["PPO", "DQN"] * ctx.n(1, 3)):
        gid = ["CartPole-v1", "Acrobot-v1"][(i // 2) % 2]
        mk = lambda: GymToLeraxEnv(gym.make(gid))  # noqa: E731
        env = mk()
        S = int(ctx.rng.integers(4, 9))
        if algo_name == "PPO":
            algo = PPO(num_envs=1, num_steps=S, num_batches=1, num_epochs=1, learning_rate=1e-2)
            pol = MLPActorCriticPolicy(env, key=ctx.key(i), feature_size=4, feature_width=8, value_width=8, action_width=8)
        else:
            algo = DQN(buffer_size=64, learning_starts=4, num_envs=1, num_steps=S, batch_size=4, target_update_interval=3, learning_rate=1e-2)
            pol = MLPQPolicy(env, key=ctx.key(i), width_size=8, epsilon=0.3)
        T = 4 * S
        k1, k2 = ctx.key(100 + i), ctx.key(200 + i)
        info = {"algo": algo_name, "env": f"GymToLeraxEnv({gid})", "S": S, "T": T}
        p1 = algo.learn(env, pol, T, key=k1)
        p1b = algo.learn(env, pol, T, key=k1)          # the same adapter object, now with a history
        p2 = algo.learn(env, pol, T, key=k2)
        p1c = algo.learn(env, pol, T, key=k1)          # ... and after a run with another key
        pf = algo.learn(mk(), pol, T, key=k1)          # a fresh adapter
        jax.block_until_ready(jax.tree.leaves((p1, p1b, p2, p1c, pf)))
        jax.effects_barrier()
        moved = leaves_maxdiff(p1, pol)
        ctx.case({**info, "twin": "same-adapter-repeat"}, nontrivial=moved > 0, cls=f"{algo_name}/gym-adapter-repeat")
        ctx.monitor("gym_adapter_repeat_pairs")
        if not leaves_equal(p1, p1b) or not leaves_equal(p1, p1c):
            ctx.violation("same-inputs-different-parameters-on-a-used-gym-adapter",
                          {**info, "maxdiff_second_run": leaves_maxdiff(p1, p1b), "maxdiff_after_other_key": leaves_maxdiff(p1, p1c)})
        if not leaves_equal(p1, pf):
            ctx.violation("fresh-gym-adapter-different-parameters", {**info, "maxdiff": leaves_maxdiff(p1, pf)})
        if leaves_equal(p1, p2):
            ctx.violation("different-keys-identical-runs", info)
        if moved == 0:
            ctx.violation("training-did-not-move-parameters", info)
    ctx.require("gym_adapter_repeat_pairs", 2)


def run_unit(name, ctx):
    if name == "gym-adapter":
        return _run_gym_adapter(ctx)
    if name == "fresh-onpolicy":
        _run_fresh(ctx, ["PPO", "A2C", "REINFORCE"])
    elif name == "fresh-offpolicy":
        _run_fresh(ctx, ["DQN", "SAC"])
    else:
        a, e = name.split("-")
        _run_algo(ctx, a, [e])
