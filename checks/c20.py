"""C20 Unitree G1 episodes are randomised within range and gait phase stays coherent."""

from __future__ import annotations

import dataclasses

import numpy as np

RULE = ("cases = (a) one per (randomize function, range configuration, key): the real randomize_* / "
        "randomize_model run on the G1 base model under jit+vmap (and eagerly for a few keys), every field of "
        "the returned mjx.Model walked against the nominal model; non-trivial = the configured range is not "
        "degenerate and the judged field differs from nominal; (b) one per (frequency, dt, mode) grid of "
        "advance_gait_phase over a dense phase grid and one per (frequency, dt, start, N) iterated float32 "
        "history (lax.scan, N up to 1e5/1e6); non-trivial = at least one wrap through +pi happened; (c) one "
        "per (swing height, mode) dense phase grid of desired_foot_height; non-trivial = height > 0; (d) one "
        "per (task, configuration, key) initial() state of G1Standing / G1Locomotion / G1Standup (jit+vmap), "
        "non-trivial = model differs from nominal; (e) one per (task, configuration, key) rollout of <= 50 "
        "control steps through the real transition with random actions, non-trivial = gait frequency > 0 and "
        "a wrap happened; (f) one per (configuration, key) sample_command; non-trivial = non-zero command. "
        "Distinct by hash of the description (function/config/key index/seed).")
FLOOR = {"quick": 500, "thorough": 2000}
ASSUMPTIONS = [
    "nominal model = the compiled MuJoCo C model (env.mujoco_model, float64) and its mjx.put_model image (env.base_model)",
    "MuJoCo C engine mj_kinematics (float64) is the reference for forward kinematics; mjx.forward recomputation is "
    "used as a second reference in the thorough tier",
    "range membership tolerance: relative 1e-6 of the bound (float32 product of a float32 sample and a float32 "
    "nominal value, range ends converted to float32), plus 1e-9 absolute",
    "'every other model parameter equals the nominal one' is judged bit-exactly over every dataclass field of "
    "mjx.Model (array leaves, static numpy arrays, ints, nested Option/Statistic/_impl)",
    "contact friction: randomize_friction documents an absolute coefficient in friction_range applied to the sliding "
    "friction (first two columns) of the left_foot_floor / right_foot_floor contact pairs; the pairs are looked up "
    "by name in the compiled model, every other pair_friction entry must stay nominal",
    "torso mass range = [lo*nominal + offset_lo, hi*nominal + offset_hi]",
    "ground clearance: _snap_to_ground documents 'lowest point (body origins 1.. and foot sites) at a small "
    "clearance', the clearance constant is 0.005 m; tolerance 1e-5 m",
    "kinematics tolerance 1e-5 (xpos, xquat up to sign, site_xpos, geom_xpos), float32 chain of <= 10 bodies",
    "gait: frequency >= 0 only (negative frequencies are not a gait frequency; excluded), phase inputs in "
    "[-pi, pi]; range tolerance 1e-6 around float32(pi); half-cycle tolerance 1e-4 for a single step from coherent "
    "phases and 1e-4 + 1e-6*n after n steps of an episode (the two phases are separate float32 accumulators; measured "
    "drift of the unchanged code is up to 2.4e-7 per step and saturates below 1e-3 over 1e6 steps; the maximum seen "
    "is recorded in the evidence notes); per-step increment "
    "tolerance 5e-6 + 8*eps32*(|increment| + 2*pi) against 2*pi*f*dt evaluated in float64 from the float32 f, dt",
    "foot height tolerance 2e-6*max(h, 1e-3) (float32 evaluation of a cubic), swing height >= 0 only",
    "locomotion command: an exactly-zero command is accepted when zero_command_probability > 0 (documented "
    "'chance of zero command') even if a configured range excludes 0; with probability 0 and ranges excluding 0 "
    "every component must be inside its range; with probability 1 the command must be zero",
    "standing tasks have no gait frequency range; their frequency is only required to be finite and >= 0",
    "rollout actions are uniform in the action box [-1, 1]^29; physics blow-ups (NaN qpos) do not excuse the gait "
    "phase, which does not depend on physics",
]

PI32 = float(np.float32(np.pi))
EPS32 = float(np.finfo(np.float32).eps)
CLEARANCE = 0.005
RAND_FIELDS = (".pair_friction", ".dof_frictionloss", ".dof_armature", ".body_mass")
DEFAULT_CFG = dict(friction_range=(0.4, 1.0), friction_loss_scale_range=(0.5, 2.0),
                   armature_scale_range=(1.0, 1.05), mass_scale_range=(0.9, 1.1),
                   torso_offset_range=(-1.0, 1.0))
# fixed custom configuration for the heavy (compiled) units: pairwise disjoint ranges, none contains the
# default-range values, so swapped wiring / ignored arguments are visible
CUSTOM_CFG = dict(friction_range=(0.2, 0.3), friction_loss_scale_range=(2.5, 3.5),
                  armature_scale_range=(0.5, 0.7), mass_scale_range=(1.2, 1.3),
                  torso_offset_range=(2.0, 3.0))
CUSTOM_LOCO = dict(lin_vel_x_range=(0.5, 1.5), lin_vel_y_range=(-0.4, -0.1), ang_vel_yaw_range=(2.0, 3.0),
                   gait_frequency_range=(2.0, 3.5), zero_command_probability=0.0, control_frequency_hz=25.0)


def units(tier):
    # generous watchdogs: the units take 5-60 s each on an idle machine, but the box is shared
    u = [{"name": "gait_grid", "timeout": 2400}, {"name": "gait_history", "timeout": 2400},
         {"name": "foot_height", "timeout": 2400}, {"name": "randomize_default", "timeout": 2400},
         {"name": "randomize_custom", "timeout": 2400}, {"name": "command", "timeout": 2400},
         {"name": "standing_initial", "timeout": 3600},
         # stepped episodes of the other two tasks (about 30 s each with the quick sample sizes)
         {"name": "loco_default", "timeout": 3600}, {"name": "loco_custom", "timeout": 3600},
         {"name": "standup_default", "timeout": 3600}, {"name": "standup_custom", "timeout": 3600},
         {"name": "standing_rollout", "timeout": 3600}, {"name": "standing_custom", "timeout": 3600}]
    # both tiers run every unit; the thorough tier differs by sample sizes (ctx.n) only
    return u


# ----------------------------------------------------------------------------------------------
# generic helpers
# ----------------------------------------------------------------------------------------------

def _wrap(x):
    """float64 wrap to [-pi, pi)."""
    return np.mod(np.asarray(x, np.float64) + np.pi, 2 * np.pi) - np.pi


def _biteq(a, b):
    """elementwise bit-equality of two same-shape arrays (NaN == NaN, -0.0 != 0.0)."""
    if a.dtype.kind == "f":
        return ((a == b) & (np.signbit(a) == np.signbit(b))) | (np.isnan(a) & np.isnan(b))
    return a == b


def _field_diffs(base, model, K):
    """Walk every dataclass field of two mjx.Model objects.

    Returns (diffs, problems, n_fields): diffs[path] = bool[K] (True where the field of sample k is not
    bit-equal to the nominal field); problems = paths whose type / shape / dtype / static value differ.
    `model` may carry a leading batch axis of length K on any array field.
    """
    import jax

    diffs, problems, count = {}, [], [0]

    def walk(a, b, path):
        if dataclasses.is_dataclass(a) and not isinstance(a, type):
            if type(a) is not type(b):
                problems.append(path + ":type")
                return
            for f in dataclasses.fields(a):
                walk(getattr(a, f.name), getattr(b, f.name), path + "." + f.name)
            return
        count[0] += 1
        if a is b:
            return
        if isinstance(a, (np.ndarray, jax.Array)) or isinstance(b, (np.ndarray, jax.Array)):
            try:
                A, B = np.asarray(a), np.asarray(b)
            except Exception:
                problems.append(path + ":not-an-array")
                return
            if A.dtype != B.dtype:
                problems.append(f"{path}:dtype {B.dtype} != {A.dtype}")
                return
            if B.shape == A.shape:
                d = not bool(np.all(_biteq(A, B)))
                diffs[path] = np.full(K, d)
            elif B.shape == (K,) + A.shape:
                ne = ~_biteq(np.broadcast_to(A, B.shape), B)
                diffs[path] = ne.reshape(K, -1).any(axis=1) if ne.ndim > 1 else ne
            else:
                problems.append(f"{path}:shape {B.shape} != {A.shape}")
            return
        if isinstance(a, (tuple, list)):
            if not isinstance(b, (tuple, list)) or len(a) != len(b):
                problems.append(path + ":len")
                return
            for i, (x, y) in enumerate(zip(a, b)):
                walk(x, y, f"{path}[{i}]")
            return
        if isinstance(a, dict):
            if not isinstance(b, dict) or set(a) != set(b):
                problems.append(path + ":keys")
                return
            for k in a:
                walk(a[k], b[k], f"{path}[{k}]")
            return
        try:
            eq = bool(a == b)
        except Exception:
            eq = False
        if not eq:
            problems.append(f"{path}:static {str(b)[:40]} != {str(a)[:40]}")

    walk(base, model, "")
    return diffs, problems, count[0]


def _foot_pair_ids(mj):
    import mujoco

    ids = []
    for n in ("left_foot_floor", "right_foot_floor"):
        i = mujoco.mj_name2id(mj, mujoco.mjtObj.mjOBJ_PAIR, n)
        if i < 0:
            raise RuntimeError(f"contact pair {n} not in the compiled model")
        ids.append(int(i))
    return ids


def _pair_name(mj, i):
    import mujoco

    return mujoco.mj_id2name(mj, mujoco.mjtObj.mjOBJ_PAIR, int(i))


def _in(x, lo, hi):
    """x within [lo, hi] with the stated float32 tolerance (lo, hi arrays or scalars, float64)."""
    x, lo, hi = np.asarray(x, np.float64), np.asarray(lo, np.float64), np.asarray(hi, np.float64)
    tol = 1e-6 * np.maximum(np.abs(lo), np.abs(hi)) + 1e-9
    return (x >= lo - tol) & (x <= hi + tol)


def judge_model(ctx, tag, mj, base, model, K, cfg, expect=RAND_FIELDS, torso_id=None):
    """Oracle for one (possibly batched) randomised model. Returns bool[K] 'sample differs from nominal'.

    cfg: dict with the five ranges. expect: the model fields this call is allowed to randomise.
    Violations are recorded with mechanism keys; nothing is raised.
    """
    import mujoco

    diffs, problems, nfields = _field_diffs(base, model, K)
    ctx.monitor("model_fields_walked", nfields * K)
    for p in problems:
        ctx.violation("model-static-structure-changed", {"where": tag, "field": p})
    changed_any = np.zeros(K, bool)
    for path, d in diffs.items():
        changed_any |= d
        if path not in expect and d.any():
            k = int(np.argmax(d))
            ctx.violation(f"model-field-{path.strip('.').replace('.', '-')}-differs-from-nominal",
                          {"where": tag, "field": path, "sample": k, "n_samples_differing": int(d.sum()),
                           "got": _sample(np.asarray(_get(model, path)), np.asarray(_get(base, path)), k),
                           "want": np.asarray(_get(base, path))})
    ctx.monitor("other_model_fields_compared_exactly", (nfields - len(expect)) * K)

    def batched(name):
        a = np.asarray(getattr(model, name))
        nom = np.asarray(getattr(base, name))
        if a.shape == nom.shape:
            a = np.broadcast_to(a, (K,) + nom.shape)
        return a.astype(np.float64), a

    nom_fl = np.asarray(mj.dof_frictionloss, np.float64)
    nom_arm = np.asarray(mj.dof_armature, np.float64)
    nom_mass = np.asarray(mj.body_mass, np.float64)
    nom_pf = np.asarray(mj.pair_friction, np.float64)
    torso = int(mj.body("torso_link").id) if torso_id is None else int(torso_id)

    # --- joint friction loss / armature: actuated dofs (6:) scaled, free-joint dofs (0:6) nominal
    for name, nom, rng_key, short in ((".dof_frictionloss", nom_fl, "friction_loss_scale_range", "frictionloss"),
                                      (".dof_armature", nom_arm, "armature_scale_range", "armature")):
        if name not in expect:
            continue
        lo, hi = cfg[rng_key]
        g64, g32 = batched(name[1:])
        nom32 = np.asarray(getattr(base, name[1:]))
        ctx.monitor(f"{short}_values_judged", g64[:, 6:].size)
        free_bad = ~_biteq(np.broadcast_to(nom32[:6], g32[:, :6].shape), g32[:, :6])
        if free_bad.any():
            k, j = np.argwhere(free_bad)[0]
            ctx.violation(f"{short}-free-joint-dofs-changed",
                          {"where": tag, "sample": int(k), "dof": int(j), "got": g32[k, :8], "want": nom32[:8]})
        ok = _in(g64[:, 6:], lo * nom[6:], hi * nom[6:])
        if not ok.all():
            k, j = np.argwhere(~ok)[0]
            ctx.violation(f"{short}-out-of-range",
                          {"where": tag, "sample": int(k), "dof": int(j) + 6, "got": g64[k, j + 6],
                           "nominal": nom[j + 6], "range": [lo, hi],
                           "ratio": g64[k, j + 6] / nom[j + 6] if nom[j + 6] else None})

    # --- body masses
    if ".body_mass" in expect:
        lo, hi = cfg["mass_scale_range"]
        olo, ohi = cfg["torso_offset_range"]
        g64, _ = batched("body_mass")
        lo_b, hi_b = np.minimum(lo * nom_mass, hi * nom_mass), np.maximum(lo * nom_mass, hi * nom_mass)
        lo_b[torso] += olo
        hi_b[torso] += ohi
        ctx.monitor("body_mass_values_judged", g64.size)
        ok = _in(g64, lo_b, hi_b)
        if not ok.all():
            k, j = np.argwhere(~ok)[0]
            key = "torso-mass-out-of-range" if j == torso else "body-mass-out-of-range"
            ctx.violation(key, {"where": tag, "sample": int(k), "body": int(j), "got": g64[k, j],
                                "nominal": nom_mass[j], "want_range": [lo_b[j], hi_b[j]],
                                "scale_range": [lo, hi], "offset_range": [olo, ohi]})

    # --- contact friction
    if ".pair_friction" in expect:
        lo, hi = cfg["friction_range"]
        g64, g32 = batched("pair_friction")
        nom32 = np.asarray(base.pair_friction)
        foot = _foot_pair_ids(mj)
        ne = ~_biteq(np.broadcast_to(nom32, g32.shape), g32)            # K x npair x 5
        rows_changed = sorted(int(r) for r in np.unique(np.argwhere(ne)[:, 1])) if ne.any() else []
        ctx.monitor("pair_friction_entries_judged", g64.size)
        foot_vals = g64[:, foot, :2]                                       # K x 2 x 2
        foot_const = bool(np.all(foot_vals == foot_vals[0])) and K > 1
        foot_in = _in(foot_vals, lo, hi)
        nondeg = hi > lo
        wrong_rows = [r for r in rows_changed if r not in foot]
        if wrong_rows or (nondeg and foot_const) or not foot_in.all():
            ctx.violation("friction-randomization-misses-foot-floor-pairs",
                          {"where": tag, "friction_range": [lo, hi],
                           "pairs_changed": rows_changed, "pairs_changed_names": [_pair_name(mj, r) for r in rows_changed],
                           "foot_floor_pairs": foot, "foot_floor_friction_constant_over_keys": foot_const,
                           "foot_floor_friction_sample0": foot_vals[0], "foot_floor_in_range": bool(foot_in.all()),
                           "changed_pair_values_sample0": g64[0, rows_changed[:4], :2] if rows_changed else None,
                           "nominal_sliding_friction": nom_pf[sorted(set(foot + rows_changed[:4])), :2]})
        # whatever entries were randomised: sliding columns only, one common value inside the range
        if ne[:, :, 2:].any():
            k, r, c = np.argwhere(ne[:, :, 2:])[0]
            ctx.violation("friction-non-sliding-coefficient-changed",
                          {"where": tag, "sample": int(k), "pair": int(r), "column": int(c) + 2,
                           "got": g64[k, r], "want": nom_pf[r]})
        if rows_changed:
            vals = g64[:, rows_changed, :2]
            ok = _in(vals, lo, hi)
            if not ok.all():
                k = int(np.argwhere(~ok)[0][0])
                ctx.violation("friction-out-of-range", {"where": tag, "sample": k, "pairs": rows_changed,
                                                         "got": vals[k], "range": [lo, hi]})
            same = np.all(vals == vals[:, :1, :1], axis=(1, 2))
            if not same.all():
                k = int(np.argmax(~same))
                ctx.violation("friction-not-one-common-coefficient", {"where": tag, "sample": k, "got": vals[k]})
    return changed_any


def _sample(got, nominal, k):
    return got[k] if got.shape != nominal.shape else got


def _get(obj, path):
    for part in path.strip(".").split("."):
        obj = getattr(obj, part)
    return obj


def _keys(ctx, i, K):
    from jax import random as jr

    return jr.split(ctx.key(i), K)


# ----------------------------------------------------------------------------------------------
# gait helpers
# ----------------------------------------------------------------------------------------------

def _inc_tol(inc):
    return 5e-6 + 8 * EPS32 * (abs(inc) + 2 * np.pi)


def judge_phase_steps(ctx, where, prev, nxt, f32, dt32, keys=("gait-phase-out-of-range",
                                                             "gait-phases-not-half-cycle-apart",
                                                             "gait-phase-increment-wrong"), detail=None,
                      history=False):
    """prev, nxt: [..., 2] phases before/after one control step (float32 values); f32, dt32 scalars.

    history=True: the rows are consecutive steps 1..n of one episode that started half a cycle apart; the two
    phases are stored and advanced separately in float32, each step rounds each of them independently (up to
    half an ulp of a value in [2, 8), 2.4e-7 .. 4.8e-7, systematically in one direction while a phase stays in
    one binade), so the half-cycle tolerance grows by 1e-6 per step on top of 1e-4.
    Returns (n_wraps, max_abs_increment_error, max_half_cycle_deviation)."""
    prev = np.asarray(prev, np.float64).reshape(-1, 2)
    nxt = np.asarray(nxt, np.float64).reshape(-1, 2)
    inc = 2 * np.pi * float(f32) * float(dt32)
    det = dict(detail or {}, where=where, frequency=float(f32), dt=float(dt32), want_increment=inc)
    ctx.monitor("phase_steps_judged", len(nxt))
    bad = ~np.isfinite(nxt) | (nxt < -PI32 - 1e-6) | (nxt > PI32 + 1e-6)
    if bad.any():
        i = int(np.argwhere(bad)[0][0])
        ctx.violation(keys[0], dict(det, step=i, before=prev[i], after=nxt[i], bound=PI32))
    dev = np.abs(_wrap(nxt[:, 1] - nxt[:, 0] - np.pi))
    dev = np.where(np.isfinite(dev), dev, np.inf)
    htol = 1e-4 + 1e-6 * (np.arange(1, len(nxt) + 1) if history else 1.0)
    if (dev > htol).any():
        i = int(np.argmax(dev > htol))
        ctx.violation(keys[1], dict(det, step=i, before=prev[i], after=nxt[i], deviation_from_pi=dev[i],
                                    tol=float(np.broadcast_to(htol, dev.shape)[i])))
    err = np.abs(_wrap(nxt - prev - inc))
    err = np.where(np.isfinite(err), err, np.inf)
    tol = _inc_tol(inc)
    if (err > tol).any():
        i = int(np.argwhere(err > tol)[0][0])
        ctx.violation(keys[2], dict(det, step=i, before=prev[i], after=nxt[i],
                                    got_increment=_wrap(nxt[i] - prev[i]), want_increment_wrapped=float(_wrap(inc)),
                                    tol=tol))
    wraps = int(np.sum(nxt < prev - 1e-9))
    return wraps, float(err.max()) if err.size else 0.0, float(dev.max()) if dev.size else 0.0


def judge_foot_heights(ctx, where, phases, heights, h, detail=None):
    phases = np.asarray(phases, np.float64).ravel()
    heights = np.asarray(heights, np.float64).ravel()
    tol = 2e-6 * max(h, 1e-3)
    ctx.monitor("foot_heights_judged", heights.size)
    bad = ~np.isfinite(heights) | (heights < -tol) | (heights > h + tol)
    if bad.any():
        i = int(np.argmax(bad))
        ctx.violation("foot-height-out-of-range", dict(detail or {}, where=where, phase=phases[i], got=heights[i],
                                                       swing_height=h))
        return False
    return True


def _freq_dt_grid(ctx, n_random):
    fs = [0.0, 0.013, 0.5, 1.0, 1.25, 1.3, 1.5, 2.0, 3.3, 7.77, 10.0]
    fs += [float(x) for x in ctx.rng.uniform(0.0, 10.0, size=n_random)]
    fs += [float(x) for x in ctx.rng.uniform(1.25, 1.5, size=n_random)]
    dts = [0.02, 0.04, 0.01, 0.002, 0.1] + [float(x) for x in ctx.rng.uniform(0.002, 0.1, size=2)]
    return fs, dts


def _phase_grid(ctx, n):
    p = np.linspace(-PI32, PI32, n).astype(np.float32)
    p[0], p[-1] = np.float32(-PI32), np.float32(PI32)
    edge = np.array([0.0, -0.0, PI32, -PI32, np.nextafter(np.float32(PI32), np.float32(0)),
                     np.nextafter(np.float32(-PI32), np.float32(0)), 1e-7, -1e-7, PI32 / 2, -PI32 / 2], np.float32)
    r = ctx.rng.uniform(-PI32, PI32, size=n // 4).astype(np.float32)
    left = np.clip(np.concatenate([p, edge, r]), np.float32(-PI32), np.float32(PI32)).astype(np.float32)
    # the opposite foot, half a cycle away, kept inside [-pi, pi] (computed in float32 like a user would)
    right = np.where(left <= 0, left + np.float32(PI32), left - np.float32(PI32)).astype(np.float32)
    return np.stack([left, right], axis=-1)


def u_gait_grid(ctx):
    import jax
    import jax.numpy as jnp
    from lerax.env.unitree.g1 import gait

    P = _phase_grid(ctx, ctx.n(2001, 20001))
    Pj = jnp.asarray(P)
    fs, dts = _freq_dt_grid(ctx, ctx.n(4, 16))
    vm = jax.vmap(gait.advance_gait_phase, in_axes=(0, None, None))
    jv = jax.jit(vm)
    j1 = jax.jit(gait.advance_gait_phase)
    worst_inc, worst_dev = 0.0, 0.0
    n = 0
    for f in fs:
        for dt in dts:
            f32, dt32 = np.float32(f), np.float32(dt)
            for mode in (("jit+vmap", "vmap") if n % 5 == 0 else ("jit+vmap",)):
                fn = jv if mode == "jit+vmap" else vm
                out = np.asarray(fn(Pj, jnp.asarray(f32), jnp.asarray(dt32)))
                if out.shape != P.shape or out.dtype != np.float32:
                    ctx.violation("gait-advance-shape-or-dtype", {"shape": out.shape, "dtype": str(out.dtype)})
                    continue
                w, e, d = judge_phase_steps(ctx, f"advance_gait_phase/{mode}", P, out, f32, dt32)
                worst_inc, worst_dev = max(worst_inc, e), max(worst_dev, d)
                ctx.monitor("phase_wraps_observed", w)
                ctx.case({"fn": "advance_gait_phase", "f": float(f32), "dt": float(dt32), "mode": mode,
                          "n_phases": len(P)}, nontrivial=w > 0, cls=f"gait-grid/{mode}")
            n += 1
    # plain eager and jit, one phase pair at a time (the way transition calls it)
    idx = ctx.rng.choice(len(P), size=ctx.n(40, 200), replace=False)
    for c, i in enumerate(idx):
        f32 = np.float32(fs[c % len(fs)])
        dt32 = np.float32(dts[c % len(dts)])
        fn, mode = (j1, "jit") if c % 2 else (gait.advance_gait_phase, "eager")
        out = np.asarray(fn(jnp.asarray(P[i]), jnp.asarray(f32), jnp.asarray(dt32)))
        w, e, d = judge_phase_steps(ctx, f"advance_gait_phase/{mode}", P[i], out, f32, dt32)
        worst_inc, worst_dev = max(worst_inc, e), max(worst_dev, d)
        ctx.case({"fn": "advance_gait_phase", "f": float(f32), "dt": float(dt32), "mode": mode,
                  "phase": P[i]}, nontrivial=w > 0, cls=f"gait-single/{mode}")
    # the documented start: left 0, right pi
    p0 = np.asarray(gait.initial_gait_phase())
    ctx.monitor("initial_phase_judged")
    if p0.shape != (2,) or abs(p0[0]) > 1e-6 or abs(_wrap(float(p0[1]) - float(p0[0]) - np.pi)) > 1e-4 \
            or np.any(np.abs(p0.astype(np.float64)) > PI32 + 1e-6):
        ctx.violation("initial-gait-phase-not-half-cycle-apart", {"got": p0})
    ctx.notes["max_increment_error"] = worst_inc
    ctx.notes["max_half_cycle_deviation"] = worst_dev
    ctx.notes["grid"] = {"phases": len(P), "frequencies": len(fs), "dts": len(dts)}
    ctx.require("phase_steps_judged", 10000)
    ctx.require("phase_wraps_observed", 100)


def u_gait_history(ctx):
    import jax
    import jax.numpy as jnp
    from jax import lax
    from lerax.env.unitree.g1 import gait

    def hist(p0, f, dt, N):
        def body(ph, _):
            nph = gait.advance_gait_phase(ph, f, dt)
            return nph, nph
        return lax.scan(body, p0, None, length=N)[1]

    def run(N, B, tag, h_list):
        fs, dts = _freq_dt_grid(ctx, B)
        F = np.array([fs[i % len(fs)] for i in range(B)], np.float32)
        ctx.rng.shuffle(F)
        # mostly the two control periods the environments use (50 Hz, 25 Hz), every third one from the wider set
        D = np.array([dts[i % 2] if i % 3 else dts[(i // 3) % len(dts)] for i in range(B)], np.float32)
        S = np.tile(np.asarray(gait.initial_gait_phase(), np.float32), (B, 1))
        g = _phase_grid(ctx, 64)
        pick = ctx.rng.integers(0, len(g), size=B)
        S[B // 2:] = g[pick[B // 2:]]                     # second half: random coherent starts
        fn = jax.jit(jax.vmap(lambda p, f, d: hist(p, f, d, N)))
        H = np.asarray(fn(jnp.asarray(S), jnp.asarray(F), jnp.asarray(D)))    # B x N x 2 float32
        fh = jax.jit(jax.vmap(jax.vmap(gait.desired_foot_height, in_axes=(0, None)), in_axes=(0, None)))
        worst_inc, worst_dev = 0.0, 0.0
        for b in range(B):
            prev = np.concatenate([S[b:b + 1], H[b, :-1]], axis=0)
            w, e, d = judge_phase_steps(ctx, f"history/{tag}", prev, H[b], F[b], D[b],
                                        detail={"start": S[b], "N": N}, history=True)
            worst_inc, worst_dev = max(worst_inc, e), max(worst_dev, d)
            ctx.monitor("history_wraps_observed", w)
            ctx.monitor("history_steps", N)
            ctx.case({"fn": "advance_gait_phase^N", "N": N, "f": float(F[b]), "dt": float(D[b]), "start": S[b]},
                     nontrivial=bool(F[b] > 0 and w > 1), cls=f"gait-history/{tag}")
        for h in h_list:
            sub = H[: min(B, 8)]
            Z = np.asarray(fh(jnp.asarray(sub), jnp.float32(h)))
            judge_foot_heights(ctx, f"history/{tag}", sub, Z, float(np.float32(h)), detail={"N": N})
        return worst_inc, worst_dev

    e1, d1 = run(100_000, ctx.n(48, 256), "1e5", [0.15, 0.08])
    ctx.notes["N1e5"] = {"max_increment_error": e1, "max_half_cycle_deviation": d1}
    if not ctx.quick:
        e2, d2 = run(1_000_000, 12, "1e6", [0.15])
        ctx.notes["N1e6"] = {"max_increment_error": e2, "max_half_cycle_deviation": d2}
    ctx.require("history_steps", 1_000_000)
    ctx.require("history_wraps_observed", 1000)


def u_foot_height(ctx):
    import jax
    import jax.numpy as jnp
    from lerax.env.unitree.g1 import gait

    P = _phase_grid(ctx, ctx.n(4001, 40001))
    Pj = jnp.asarray(P)
    special = np.array([[-PI32, 0.0], [0.0, -PI32], [PI32, 0.0], [0.0, PI32], [-PI32, PI32], [0.0, 0.0]], np.float32)
    hs = [0.15, 0.05, 0.08, 0.3, 1.0, 1e-3, 0.0, 7.5] + [float(x) for x in ctx.rng.uniform(0.01, 0.5, size=ctx.n(4, 24))]
    vm = jax.vmap(gait.desired_foot_height, in_axes=(0, None))
    jv = jax.jit(vm)
    j1 = jax.jit(gait.desired_foot_height)
    for c, h in enumerate(hs):
        h32 = float(np.float32(h))
        tol = 2e-6 * max(h32, 1e-3)
        modes = ["jit+vmap"] + (["vmap"] if c % 3 == 0 else [])
        for mode in modes:
            fn = jv if mode == "jit+vmap" else vm
            # swing height given as a Python float (documented) and as a float32 array
            harg = float(h) if c % 2 else jnp.float32(h)
            Z = np.asarray(fn(Pj, harg), np.float64)
            ok = Z.shape == P.shape and judge_foot_heights(ctx, f"desired_foot_height/{mode}", P, Z, h32)
            if ok:
                ctx.monitor("peak_checks")
                if Z.max() > h32 + tol:
                    ctx.violation("foot-height-peak-not-at-zero-phase", {"max": Z.max(), "swing_height": h32})
            ctx.case({"fn": "desired_foot_height", "h": h32, "mode": mode, "n_phases": len(P),
                      "h_as": "float" if c % 2 else "array"}, nontrivial=h32 > 0, cls=f"foot-height-grid/{mode}")
        for mode, fn in (("eager", gait.desired_foot_height), ("jit", j1)):
            for row in special:
                z = np.asarray(fn(jnp.asarray(row), float(h) if c % 2 else jnp.float32(h)), np.float64)
                judge_foot_heights(ctx, f"desired_foot_height/{mode}", row, z, h32)
                for p, v in zip(row, z):
                    if abs(abs(float(p)) - PI32) < 1e-9:
                        ctx.monitor("zero_at_pi_checks")
                        if not abs(v) <= tol:
                            key = "foot-height-nonzero-at-minus-pi" if p < 0 else "foot-height-nonzero-at-plus-pi"
                            ctx.violation(key, {"phase": float(p), "got": v, "swing_height": h32, "mode": mode})
                    elif float(p) == 0.0:
                        ctx.monitor("peak_at_zero_checks")
                        if not abs(v - h32) <= tol:
                            ctx.violation("foot-height-peak-not-at-zero-phase",
                                          {"phase": 0.0, "got": v, "swing_height": h32, "mode": mode})
                ctx.case({"fn": "desired_foot_height", "h": h32, "mode": mode, "phase": row},
                         nontrivial=h32 > 0, cls=f"foot-height-special/{mode}")
    # default swing height argument
    z = np.asarray(gait.desired_foot_height(jnp.asarray([0.0, -PI32], jnp.float32)), np.float64)
    ctx.monitor("peak_at_zero_checks")
    if abs(z[0] - float(np.float32(0.15))) > 1e-6 or abs(z[1]) > 1e-6:
        ctx.violation("foot-height-peak-not-at-zero-phase", {"default_swing_height": 0.15, "got": z})
    ctx.require("foot_heights_judged", 10000)
    ctx.require("zero_at_pi_checks", 20)
    ctx.require("peak_at_zero_checks", 20)


# ----------------------------------------------------------------------------------------------
# randomize_* on the base model
# ----------------------------------------------------------------------------------------------

def _rand_cfg(rng):
    def r(lo_a, lo_b, w_a, w_b):
        lo = float(rng.uniform(lo_a, lo_b))
        return (round(lo, 4), round(lo + float(rng.uniform(w_a, w_b)), 4))
    return dict(friction_range=r(0.05, 0.5, 0.05, 1.0), friction_loss_scale_range=r(0.1, 3.0, 0.1, 2.0),
                armature_scale_range=r(0.2, 2.0, 0.02, 1.0), mass_scale_range=r(0.5, 1.5, 0.05, 0.5),
                torso_offset_range=r(-3.0, 2.0, 0.1, 3.0))


def _randomize_unit(ctx, configs):
    import equinox as eqx
    import jax
    from lerax.env.unitree.g1 import G1Standing, randomize

    env = G1Standing()
    mj, base = env.mujoco_model, env.base_model
    nom = dict(nominal_friction_loss=env.nominal_friction_loss, nominal_armature=env.nominal_armature,
               nominal_body_mass=env.nominal_body_mass)
    tid = env.torso_body_id
    if tid != mj.body("torso_link").id:
        ctx.violation("torso-body-id-wrong", {"got": tid, "want": int(mj.body("torso_link").id)})

    def calls(cfg):
        return {
            "randomize_model": (lambda m, k: randomize.randomize_model(m, key=k, torso_body_id=tid, **nom, **cfg),
                                RAND_FIELDS),
            "randomize_friction": (lambda m, k: randomize.randomize_friction(
                m, key=k, friction_range=cfg["friction_range"]), (".pair_friction",)),
            "randomize_friction_loss": (lambda m, k: randomize.randomize_friction_loss(
                m, key=k, nominal_friction_loss=nom["nominal_friction_loss"],
                scale_range=cfg["friction_loss_scale_range"]), (".dof_frictionloss",)),
            "randomize_armature": (lambda m, k: randomize.randomize_armature(
                m, key=k, nominal_armature=nom["nominal_armature"], scale_range=cfg["armature_scale_range"]),
                (".dof_armature",)),
            "randomize_body_mass": (lambda m, k: randomize.randomize_body_mass(
                m, key=k, nominal_body_mass=nom["nominal_body_mass"], scale_range=cfg["mass_scale_range"],
                torso_body_id=tid, torso_offset_range=cfg["torso_offset_range"]), (".body_mass",)),
        }

    kc = 0
    for ci, (cname, cfg, use_defaults) in enumerate(configs):
        fns = calls(cfg)
        if use_defaults:
            # call with the documented default arguments left out
            fns["randomize_model"] = (lambda m, k: randomize.randomize_model(m, key=k, torso_body_id=tid, **nom),
                                      RAND_FIELDS)
            fns["randomize_friction"] = (lambda m, k: randomize.randomize_friction(m, key=k), (".pair_friction",))
        degenerate = all(cfg[r][0] == cfg[r][1] for r in cfg)
        for fname, (fn, expect) in fns.items():
            K = ctx.n(1000, 4000) if fname == "randomize_model" else ctx.n(200, 1000)
            if ci >= 2:
                K = max(64, K // 4)
            keys = _keys(ctx, kc, K)
            kc += 1
            tag = f"{fname}/{cname}"
            try:
                out = eqx.filter_jit(jax.vmap(lambda k: fn(base, k)))(keys)
            except Exception as e:  # a documented call that raises is a refutation, not a crash
                ctx.violation(f"{fname}-raises", {"config": cfg, "error": repr(e)[:300]})
                continue
            changed = judge_model(ctx, tag, mj, base, out, K, cfg, expect=expect, torso_id=tid)
            ctx.monitor("randomized_models_judged", K)
            for k in range(K):
                ctx.case({"fn": fname, "config": cname, "cfg": cfg if k == 0 else None, "key": [kc - 1, k],
                          "seed": ctx.seed}, nontrivial=bool(changed[k]) and not degenerate,
                         cls=f"{fname}/{'default' if use_defaults else 'custom'}/jit+vmap")
            # eager, one key at a time (first keys), same oracle
            for k in range(ctx.n(2, 6)):
                try:
                    m1 = fn(base, keys[k])
                except Exception as e:
                    ctx.violation(f"{fname}-raises", {"config": cfg, "mode": "eager", "error": repr(e)[:300]})
                    break
                ch = judge_model(ctx, tag + "/eager", mj, base, m1, 1, cfg, expect=expect, torso_id=tid)
                ctx.monitor("randomized_models_judged")
                ctx.case({"fn": fname, "config": cname, "key": [kc - 1, k], "mode": "eager", "seed": ctx.seed},
                         nontrivial=bool(ch[0]) and not degenerate, cls=f"{fname}/eager")
            # chained: randomising an already randomised model must still land around the NOMINAL model
            if fname == "randomize_model":
                Kc = min(K, 200)
                try:
                    out2 = eqx.filter_jit(jax.vmap(lambda k1, k2: fn(fn(base, k1), k2)))(keys[:Kc], keys[-Kc:])
                    ch = judge_model(ctx, tag + "/chained", mj, base, out2, Kc, cfg, expect=expect, torso_id=tid)
                    ctx.monitor("randomized_models_judged", Kc)
                    for k in range(Kc):
                        ctx.case({"fn": fname, "config": cname, "key": [kc - 1, k], "mode": "chained",
                                  "seed": ctx.seed}, nontrivial=bool(ch[k]) and not degenerate,
                                 cls=f"{fname}/chained")
                except Exception as e:
                    ctx.violation(f"{fname}-raises", {"config": cfg, "mode": "chained", "error": repr(e)[:300]})
            # how much of the range the samples covered (evidence only)
            if fname == "randomize_model" and not degenerate:
                arm = np.asarray(out.dof_armature, np.float64)[:, 6:] / np.asarray(mj.dof_armature)[6:]
                lo, hi = cfg["armature_scale_range"]
                ctx.notes[f"{cname}_armature_scale_span"] = [float(arm.min()), float(arm.max()), lo, hi]
    ctx.require("randomized_models_judged", 500)
    ctx.require("other_model_fields_compared_exactly", 10000)
    ctx.require("body_mass_values_judged", 1000)
    ctx.require("pair_friction_entries_judged", 1000)


def u_randomize_default(ctx):
    _randomize_unit(ctx, [("default", dict(DEFAULT_CFG), True)])


def u_randomize_custom(ctx):
    cfgs = [("custom-fixed", dict(CUSTOM_CFG), False), ("custom-rng", _rand_cfg(ctx.rng), False),
            ("degenerate", dict(friction_range=(0.7, 0.7), friction_loss_scale_range=(1.5, 1.5),
                                armature_scale_range=(1.0, 1.0), mass_scale_range=(1.1, 1.1),
                                torso_offset_range=(0.5, 0.5)), False),
            ("negative-offset", dict(DEFAULT_CFG, torso_offset_range=(-3.0, -2.0), mass_scale_range=(0.3, 0.4)), False)]
    if not ctx.quick:
        cfgs += [(f"custom-rng{i}", _rand_cfg(ctx.rng), False) for i in range(2, 6)]
    _randomize_unit(ctx, cfgs)


# ----------------------------------------------------------------------------------------------
# velocity command sampling (cheap: no physics in the compiled function)
# ----------------------------------------------------------------------------------------------

def judge_command(ctx, where, cmd, ranges, p_zero, standing=False):
    """cmd: K x 3. Returns bool[K] non-zero."""
    cmd = np.asarray(cmd, np.float64).reshape(-1, 3)
    ctx.monitor("commands_judged", len(cmd))
    zero = np.all(cmd == 0.0, axis=1)
    if standing:
        if not zero.all():
            k = int(np.argmax(~zero))
            ctx.violation("standing-command-nonzero", {"where": where, "sample": k, "got": cmd[k]})
        return ~zero
    lo = np.array([r[0] for r in ranges], np.float64)
    hi = np.array([r[1] for r in ranges], np.float64)
    inr = np.all(_in(cmd, lo, hi), axis=1)
    ok = inr | (zero & (p_zero > 0))
    if not ok.all():
        k = int(np.argmax(~ok))
        ctx.violation("command-out-of-range", {"where": where, "sample": k, "got": cmd[k], "ranges": ranges,
                                               "zero_command_probability": p_zero})
    if p_zero >= 1.0 and not zero.all():
        k = int(np.argmax(~zero))
        ctx.violation("command-nonzero-with-zero-probability-one", {"where": where, "sample": k, "got": cmd[k]})
    ctx.monitor("zero_commands_seen", int(zero.sum()))
    ctx.monitor("nonzero_commands_seen", int((~zero).sum()))
    return ~zero


def u_command(ctx):
    import equinox as eqx
    import jax
    from lerax.env.unitree.g1 import G1Locomotion

    def rr(a, b, w0, w1):
        lo = float(ctx.rng.uniform(a, b))
        return (round(lo, 3), round(lo + float(ctx.rng.uniform(w0, w1)), 3))

    cfgs = [("default", {}),
            ("custom-fixed", {k: v for k, v in CUSTOM_LOCO.items() if "vel" in k or "zero" in k}),
            ("excluding-zero-p0.5", dict(lin_vel_x_range=(0.5, 1.5), lin_vel_y_range=(-0.4, -0.1),
                                        ang_vel_yaw_range=(2.0, 3.0), zero_command_probability=0.5)),
            ("p1", dict(zero_command_probability=1.0)),
            ("rng", dict(lin_vel_x_range=rr(-2, 1, 0.05, 2), lin_vel_y_range=rr(-1, 0.5, 0.05, 1),
                         ang_vel_yaw_range=rr(-3, 2, 0.05, 2),
                         zero_command_probability=float(round(ctx.rng.uniform(0, 0.5), 3))))]
    K = ctx.n(1500, 10000)
    for ci, (cname, kw) in enumerate(cfgs):
        try:
            env = G1Locomotion(**kw)
        except Exception as e:
            ctx.violation("locomotion-construction-raises", {"config": kw, "error": repr(e)[:300]})
            continue
        ranges = [tuple(kw.get(n, d)) for n, d in (("lin_vel_x_range", (-1.0, 1.0)),
                                                     ("lin_vel_y_range", (-0.5, 0.5)),
                                                     ("ang_vel_yaw_range", (-1.0, 1.0)))]
        p = float(kw.get("zero_command_probability", 0.1))
        keys = _keys(ctx, ci, K)
        cmd = np.asarray(eqx.filter_jit(jax.vmap(lambda k: env.sample_command(key=k)))(keys))
        nz = judge_command(ctx, f"G1Locomotion.sample_command/{cname}", cmd, ranges, p)
        for k in range(K):
            ctx.case({"fn": "sample_command", "config": cname, "kw": kw if k == 0 else None, "key": [ci, k],
                      "seed": ctx.seed}, nontrivial=bool(nz[k]), cls=f"command/{cname}")
        ctx.notes[f"{cname}_zero_fraction"] = [float(1 - nz.mean()), p]
        for k in range(3):
            c1 = np.asarray(env.sample_command(key=keys[k]))
            judge_command(ctx, f"G1Locomotion.sample_command/{cname}/eager", c1, ranges, p)
    ctx.require("commands_judged", 1000)
    ctx.require("zero_commands_seen", 10)
    ctx.require("nonzero_commands_seen", 500)


# ----------------------------------------------------------------------------------------------
# initial() and rollouts through the real transition
# ----------------------------------------------------------------------------------------------

def _kin_ref(mj, qpos):
    import mujoco

    d = mujoco.MjData(mj)
    d.qpos[:] = np.asarray(qpos, np.float64)
    mujoco.mj_kinematics(mj, d)
    return {"xpos": d.xpos.copy(), "xquat": d.xquat.copy(), "site_xpos": d.site_xpos.copy(),
            "geom_xpos": d.geom_xpos.copy()}


def _maxdiff(a, b, sign_free=False):
    a, b = np.asarray(a, np.float64), np.asarray(b, np.float64)
    if a.shape != b.shape:
        return float("inf")
    if not (np.isfinite(a).all() and np.isfinite(b).all()):
        return float("inf")
    if sign_free:
        return float(np.max(np.minimum(np.abs(a - b).max(axis=-1), np.abs(a + b).max(axis=-1))))
    return float(np.max(np.abs(a - b)))


def judge_initial(ctx, task, cname, env, states, K, cfg, loco=None, kidx=0, mjx_recompute=False):
    """states: batched G1EnvState from jit(vmap(env.initial)). loco: None or dict(ranges, p_zero, freq_range)."""
    mj, base = env.mujoco_model, env.base_model
    where = f"{task}.initial/{cname}"
    changed = judge_model(ctx, where, mj, base, states.model, K, cfg, torso_id=None)
    sim = states.sim_state
    qpos, qvel = np.asarray(sim.qpos), np.asarray(sim.qvel)
    feet = [int(mj.site("left_foot").id), int(mj.site("right_foot").id)]
    got = {n: np.asarray(getattr(sim, n)) for n in ("xpos", "xquat", "site_xpos", "geom_xpos")}
    worst = 0.0
    for k in range(K):
        ctx.monitor("initial_states_judged")
        if not (np.isfinite(qpos[k]).all() and np.isfinite(qvel[k]).all()):
            ctx.violation("initial-state-not-finite", {"where": where, "sample": k})
            continue
        ref = _kin_ref(mj, qpos[k])
        for n in ref:
            d = _maxdiff(got[n][k], ref[n], sign_free=(n == "xquat"))
            worst = max(worst, d)
            ctx.monitor("kinematic_arrays_compared")
            if not d <= 1e-5:
                ctx.violation("initial-kinematics-inconsistent-with-qpos",
                              {"where": where, "sample": k, "array": n, "max_abs_diff": d,
                               "qpos_head": qpos[k][:7], "got_root": got[n][k][1], "want_root": ref[n][1]})
                break
        low_ref = min(ref["xpos"][1:, 2].min(), ref["site_xpos"][feet, 2].min())
        low_got = min(got["xpos"][k][1:, 2].min(), got["site_xpos"][k][feet, 2].min())
        ctx.monitor("ground_clearance_checked")
        if not (abs(low_ref - CLEARANCE) <= 1e-5 and abs(low_got - CLEARANCE) <= 1e-5):
            ctx.violation("initial-lowest-point-not-at-clearance",
                          {"where": where, "sample": k, "lowest_from_qpos": low_ref, "lowest_in_returned_data": low_got,
                           "want": CLEARANCE})
    ctx.notes[f"{task}_{cname}_max_kinematic_diff_vs_C"] = worst

    # gait start
    ph = np.asarray(states.gait_phase, np.float64)
    ctx.monitor("initial_phase_judged", K)
    bad = (np.abs(ph) > PI32 + 1e-6).any(axis=1) | (np.abs(_wrap(ph[:, 1] - ph[:, 0] - np.pi)) > 1e-4)
    if bad.any():
        ctx.violation("initial-gait-phase-not-half-cycle-apart", {"where": where, "got": ph[int(np.argmax(bad))]})
    # command / frequency
    cmd = np.asarray(states.command)
    fr = np.asarray(states.gait_frequency, np.float64)
    if loco is None:
        judge_command(ctx, where, cmd, None, 0.0, standing=True)
        ctx.monitor("frequencies_judged", K)
        if not (np.isfinite(fr).all() and (fr >= 0).all()):
            ctx.violation("standing-gait-frequency-invalid", {"where": where, "got": fr[:8]})
    else:
        judge_command(ctx, where, cmd, loco["ranges"], loco["p_zero"])
        flo, fhi = loco["freq_range"]
        ok = _in(fr, flo, fhi)
        ctx.monitor("frequencies_judged", K)
        if not ok.all():
            k = int(np.argmax(~ok))
            ctx.violation("gait-frequency-out-of-range", {"where": where, "sample": k, "got": fr[k],
                                                           "range": [flo, fhi]})
    for k in range(K):
        ctx.case({"task": task, "config": cname, "fn": "initial", "key": [kidx, k], "seed": ctx.seed},
                 nontrivial=bool(changed[k]), cls=f"initial/{task}/{cname}")

    if mjx_recompute:
        import equinox as eqx
        import jax
        from mujoco import mjx

        def fw(m, qp, qv):
            d = mjx.make_data(m).replace(qpos=qp, qvel=qv)
            d = mjx.forward(m, d)
            return {n: getattr(d, n) for n in ("xpos", "xquat", "xmat", "site_xpos", "site_xmat", "geom_xpos",
                                               "xipos", "subtree_com")}
        n2 = min(K, 8)
        sub = jax.tree.map(lambda x: x[:n2], (states.model, sim.qpos, sim.qvel))
        try:
            rec = eqx.filter_jit(jax.vmap(fw))(*sub)
            w2 = 0.0
            for n, v in rec.items():
                d = _maxdiff(np.asarray(getattr(sim, n))[:n2], np.asarray(v))
                w2 = max(w2, d)
                ctx.monitor("mjx_forward_recomputed_arrays")
                if not d <= 1e-5:
                    ctx.violation("initial-kinematics-inconsistent-with-qpos",
                                  {"where": where + "/mjx.forward-recomputed", "array": n, "max_abs_diff": d})
            ctx.notes[f"{task}_{cname}_max_kinematic_diff_vs_mjx_forward"] = w2
        except Exception as e:
            ctx.inconc(f"mjx.forward recomputation failed: {repr(e)[:200]}")
    return changed


def judge_rollout(ctx, task, cname, env, s0, hist, K, T, max_foot_height=None, kidx=0):
    """hist: dict of arrays [K, T, ...] recorded after each control step of the real transition."""
    import jax.numpy as jnp
    from lerax.env.unitree.g1 import gait

    where = f"{task}.transition/{cname}"
    dt32 = np.float32(np.asarray(env.dt))
    mj = env.mujoco_model
    want_dt = float(mj.opt.timestep) * env.frame_skip
    ph0 = np.asarray(s0.gait_phase)
    f0 = np.asarray(s0.gait_frequency)
    PH = np.asarray(hist["gait_phase"])
    FR = np.asarray(hist["gait_frequency"])
    keys3 = ("transition-phase-out-of-range", "transition-phases-not-half-cycle-apart",
             "transition-phase-increment-wrong")
    for k in range(K):
        prev = np.concatenate([ph0[k:k + 1], PH[k, :-1]], axis=0)
        # the frequency is an episode constant: judge against the frequency the episode started with
        w, e, d = judge_phase_steps(ctx, where, prev, PH[k], np.float32(f0[k]), dt32, keys=keys3,
                                    detail={"sample": k, "control_dt": float(dt32), "frame_skip": env.frame_skip,
                                            "physics_dt": float(mj.opt.timestep)}, history=True)
        ctx.monitor("rollout_control_steps", T)
        ctx.monitor("rollout_wraps_observed", w)
        if not np.all(FR[k] == f0[k]):
            ctx.violation("transition-changes-gait-frequency", {"where": where, "sample": k, "start": f0[k],
                                                                 "seen": FR[k][:8]})
        if max_foot_height is not None:
            Z = np.asarray(gait.desired_foot_height(jnp.asarray(PH[k].reshape(-1)), max_foot_height))
            judge_foot_heights(ctx, where, PH[k].reshape(-1), Z, float(np.float32(max_foot_height)))
        ctx.case({"task": task, "config": cname, "fn": "transition^T", "T": T, "key": [kidx, k], "seed": ctx.seed,
                  "f": float(f0[k])}, nontrivial=bool(f0[k] > 0 and w > 0), cls=f"rollout/{task}/{cname}")
        ctx.notes.setdefault(f"{task}_{cname}_rollout", {"max_increment_error": 0.0, "max_half_cycle_dev": 0.0})
        nn = ctx.notes[f"{task}_{cname}_rollout"]
        nn["max_increment_error"] = max(nn["max_increment_error"], e)
        nn["max_half_cycle_dev"] = max(nn["max_half_cycle_dev"], d)
    if abs(float(dt32) - want_dt) > 1e-6:
        ctx.violation("control-dt-not-frame-skip-times-physics-dt", {"where": where, "got": float(dt32),
                                                                      "want": want_dt})
    ctx.notes[f"{task}_{cname}_nan_qpos_steps"] = int(np.asarray(hist["qpos_nan"]).sum())


def _heavy_unit(ctx, task, cname, env_kw, cfg, loco, K, n_roll, T, do_rollout=True, mjx_recompute=False):
    import equinox as eqx
    import jax
    import jax.numpy as jnp
    from jax import lax
    from jax import random as jr
    from lerax.env.unitree import g1

    cls = getattr(g1, task)
    try:
        env = cls(**env_kw)
    except Exception as e:
        ctx.violation(f"{task.lower()}-construction-raises", {"config": env_kw, "error": repr(e)[:300]})
        return
    keys = _keys(ctx, 0, K)
    try:
        init = eqx.filter_jit(jax.vmap(lambda k: env.initial(key=k)))
        states = init(keys)
        jax.block_until_ready(states.sim_state.qpos)
    except Exception as e:
        ctx.violation(f"{task.lower()}-initial-raises", {"config": env_kw, "error": repr(e)[-400:]})
        return
    judge_initial(ctx, task, cname, env, states, K, cfg, loco=loco, mjx_recompute=mjx_recompute)
    # a second batch through the same compiled function
    if not ctx.quick:
        keys2 = _keys(ctx, 1, K)
        states2 = init(keys2)
        judge_initial(ctx, task, cname, env, states2, K, cfg, loco=loco, kidx=1)
    if not do_rollout:
        return

    def roll(s, key):
        def body(st, k):
            ka, kt = jr.split(k)
            a = jr.uniform(ka, (29,), minval=-1.0, maxval=1.0)
            st = env.transition(st, a, key=kt)
            rec = {"gait_phase": st.gait_phase, "gait_frequency": st.gait_frequency, "command": st.command,
                   "qpos_nan": jnp.isnan(st.sim_state.qpos).any()}
            return st, rec
        return lax.scan(body, s, jr.split(key, T))[1]

    s0 = jax.tree.map(lambda x: x[:n_roll], states)
    try:
        hist = eqx.filter_jit(jax.vmap(roll))(s0, _keys(ctx, 2, n_roll))
        hist = jax.tree.map(np.asarray, hist)
    except Exception as e:
        ctx.violation(f"{task.lower()}-transition-raises", {"config": env_kw, "error": repr(e)[-400:]})
        return
    mfh = float(np.asarray(env.max_foot_height)) if hasattr(env, "max_foot_height") else 0.15
    judge_rollout(ctx, task, cname, env, s0, hist, n_roll, T, max_foot_height=mfh)
    # the command is an episode quantity too: it must stay inside its range along the rollout
    cmd = hist["command"].reshape(-1, 3)
    if loco is None:
        judge_command(ctx, f"{task}.transition/{cname}", cmd, None, 0.0, standing=True)
    else:
        judge_command(ctx, f"{task}.transition/{cname}", cmd, loco["ranges"], loco["p_zero"])


def _loco_spec(kw):
    return {"ranges": [tuple(kw.get(n, d)) for n, d in (("lin_vel_x_range", (-1.0, 1.0)),
                                                         ("lin_vel_y_range", (-0.5, 0.5)),
                                                         ("ang_vel_yaw_range", (-1.0, 1.0)))],
            "p_zero": float(kw.get("zero_command_probability", 0.1)),
            "freq_range": tuple(kw.get("gait_frequency_range", (1.25, 1.5)))}


def u_standing_initial(ctx):
    _heavy_unit(ctx, "G1Standing", "default", {}, DEFAULT_CFG, None, K=ctx.n(8, 32), n_roll=0, T=0,
                do_rollout=False)
    ctx.require("initial_states_judged", 8)
    ctx.require("kinematic_arrays_compared", 32)
    ctx.require("ground_clearance_checked", 8)


def u_standing_rollout(ctx):
    _heavy_unit(ctx, "G1Standing", "default", {}, DEFAULT_CFG, None, K=32, n_roll=4, T=50, mjx_recompute=True)
    ctx.require("rollout_control_steps", 100)
    ctx.require("mjx_forward_recomputed_arrays", 4)


def u_standing_custom(ctx):
    kw = dict(CUSTOM_CFG, control_frequency_hz=25.0, keyframe_name="knees_bent")
    _heavy_unit(ctx, "G1Standing", "custom", kw, CUSTOM_CFG, None, K=32, n_roll=4, T=30)
    ctx.require("rollout_control_steps", 100)


def u_loco_default(ctx):
    _heavy_unit(ctx, "G1Locomotion", "default", {}, DEFAULT_CFG, _loco_spec({}), K=48, n_roll=6, T=50)
    ctx.require("rollout_control_steps", 200)
    ctx.require("rollout_wraps_observed", 6)
    ctx.require("frequencies_judged", 48)


def u_loco_custom(ctx):
    kw = dict(CUSTOM_CFG, **CUSTOM_LOCO, max_foot_height=0.09)
    _heavy_unit(ctx, "G1Locomotion", "custom", kw, CUSTOM_CFG, _loco_spec(kw), K=48, n_roll=6, T=40)
    ctx.require("rollout_control_steps", 200)
    ctx.require("rollout_wraps_observed", 6)
    ctx.require("nonzero_commands_seen", 48)


def u_standup_default(ctx):
    _heavy_unit(ctx, "G1Standup", "default", {}, DEFAULT_CFG, None, K=32, n_roll=4, T=30)
    ctx.require("rollout_control_steps", 100)


def u_standup_custom(ctx):
    _heavy_unit(ctx, "G1Standup", "custom", dict(CUSTOM_CFG), CUSTOM_CFG, None, K=32, n_roll=0, T=0,
                do_rollout=False, mjx_recompute=True)
    ctx.require("initial_states_judged", 32)


def run_unit(name, ctx):
    globals()["u_" + name](ctx)
