"""C10 Training schedule: step budget, iteration counter, target-network updates."""

from __future__ import annotations

import numpy as np

RULE = ("cases = (a) one learn(total_timesteps) run of PPO/A2C/REINFORCE/DQN/SAC on a never-ending clock MDP with a "
        "harness-defined counting callback (its pure state counts on_step/on_iteration calls; the environment state "
        "counts steps actually taken), total_timesteps swept over multiples and non-multiples of num_envs*num_steps; "
        "(b) one (configuration, iteration k) of a Python loop over the real jitted iteration() with the algorithm "
        "state inspected after every call against a shadow model of the target-network / actor / temperature "
        "schedule; non-trivial = (a) total_timesteps not a multiple of num_envs*num_steps or >= 2 iterations, "
        "(b) every iteration; distinct by configuration and k")
FLOOR = {"quick": 30, "thorough": 300}
ASSUMPTIONS = ["DQN hard copy is compared bit-exactly leaf by leaf; SAC Polyak within 2e-6 absolute (float32 fma)",
               "events are emitted only at the top level of learn / of the scan body over iterations"]


def units(tier):
    return [{"name": n, "timeout": 2400} for n in ("budget_onpolicy", "budget_offpolicy", "dqn_target", "sac_schedule",
                                                     "counter", "learn_targets")]


def _clock_env(ctx, kind):
    from vlib.mdp import FiniteMDP, random_tables

    t = random_tables(ctx.rng, 4, 3, p_term=0.0, p_trunc=0.0)
    return FiniteMDP(t["P"], t["R"], np.zeros(4, bool), t["starts"], kind=kind, box_dim=1)


def _ending_env(ctx, kind):
    from lerax.wrapper import TimeLimit
    from vlib.mdp import FiniteMDP, random_tables

    t = random_tables(ctx.rng, 5, 3, p_term=0.3)
    return TimeLimit(FiniteMDP(t["P"], t["R"], t["term"], t["starts"], kind=kind, box_dim=1), 4)


def _mk(ctx, name, env, E, S, **kw):
    from lerax.algorithm import A2C, DQN, PPO, REINFORCE, SAC
    from lerax.policy import MLPActorCriticPolicy, MLPQPolicy, MLPSACPolicy

    k = ctx.key(int(ctx.rng.integers(0, 10**6)))
    if name == "PPO":
        return PPO(num_envs=E, num_steps=S, num_batches=1, num_epochs=1, **kw), MLPActorCriticPolicy(
            env, key=k, feature_size=4, feature_width=4, value_width=4, action_width=4)
    if name == "A2C":
        return A2C(num_envs=E, num_steps=S, **kw), MLPActorCriticPolicy(env, key=k, feature_size=4, feature_width=4,
                                                                        value_width=4, action_width=4)
    if name == "REINFORCE":
        return REINFORCE(num_envs=E, num_steps=S, **kw), MLPActorCriticPolicy(env, key=k, feature_size=4, feature_width=4,
                                                                              value_width=4, action_width=4)
    if name == "DQN":
        kw.setdefault("learning_starts", 3)
        kw.setdefault("target_update_interval", 2)
        return DQN(buffer_size=32 * E, num_envs=E, num_steps=S, batch_size=2, learning_rate=1e-2, **kw), MLPQPolicy(
            env, key=k, width_size=4)
    kw.setdefault("learning_starts", 3)
    return SAC(buffer_size=32 * E, num_envs=E, num_steps=S, batch_size=2, q_width_size=4, q_depth=1, policy_lr=1e-2,
               q_lr=1e-2, **kw), MLPSACPolicy(env, key=k, feature_size=4, width_size=4)


def _budget(ctx, names, n_cfg):
    import jax
    from vlib.stubs import ProbeCallback, Recorder

    for c in range(n_cfg):
        name = names[c % len(names)]
        kind = "box" if name == "SAC" else "discrete"
        env = _clock_env(ctx, kind)
        E, S = int(ctx.rng.integers(1, 4)), int(ctx.rng.integers(1, 6))
        algo, pol = _mk(ctx, name, env, E, S)
        ES = E * S
        ls = getattr(algo, "learning_starts", 0)
        totals = sorted({0, ES - 1, ES, ES + 1, 2 * ES, 3 * ES - 1, 3 * ES + int(ctx.rng.integers(0, ES)), 5 * ES}
                        if not ctx.quick else {ES - 1, ES, 2 * ES + (ES > 1), 3 * ES})
        for T in totals:
            if T < 0:
                continue
            rec = Recorder()
            cb = ProbeCallback(rec, tag=f"{name}-{T}")
            out = algo.learn(env, pol, T, key=ctx.key(7 * c + T), callback=cb)
            jax.block_until_ready(jax.tree.leaves(out))
            jax.effects_barrier()
            ev = rec.snapshot()
            ends = [e for e in ev if e[0] == "end"]
            its = [e for e in ev if e[0] == "iteration"]
            want = T // ES
            info = {"algo": name, "E": E, "S": S, "total_timesteps": T, "want_iterations": want}
            ctx.case(info, nontrivial=(T % ES != 0 or want >= 2), cls=f"budget/{name}")
            ctx.monitor("learn_runs")
            if len(ends) != 1:
                ctx.inconc(f"training-end event seen {len(ends)} times")
                continue
            _, _, it_count, iters, started, steps, dones, clock, pos = ends[0]
            ctx.monitor("iteration_events", len(its))
            if iters != want or len(its) != want:
                ctx.violation("number-of-iterations-not-floor-budget", {**info, "callback_count": iters, "events": len(its)})
            if it_count != want:
                ctx.violation("iteration-counter-not-number-of-iterations", {**info, "iteration_count": it_count})
            if [e[2] for e in its] != list(range(1, len(its) + 1)):
                ctx.violation("iteration-counter-not-advancing-by-one", {**info, "seen": [e[2] for e in its][:10]})
            steps_l = np.atleast_1d(np.asarray(steps)).tolist()
            clock_l = np.atleast_1d(np.asarray(clock)).tolist()
            want_steps = ls + want * S
            if len(clock_l) != E or any(x != want_steps for x in clock_l):
                ctx.violation("environment-steps-per-iteration-wrong", {**info, "clock": clock_l, "want_each": want_steps})
            if any(x != want_steps for x in steps_l):
                ctx.violation("callback-on-step-count-wrong", {**info, "steps": steps_l, "want_each": want_steps})
            if name in ("DQN", "SAC"):
                pos_l = np.atleast_1d(np.asarray(pos)).tolist()
                if any(x != want_steps for x in pos_l):
                    ctx.violation("stored-transition-count-wrong", {**info, "position": pos_l, "want_each": want_steps})
            if started != 1:
                ctx.violation("training-start-callback-count", {**info, "started": started})
    ctx.require("learn_runs", 4)


def _snap(tree):
    from vlib.common import inexact_leaves

    return [x.copy() for x in inexact_leaves(tree)]


def _same(a, b):
    return len(a) == len(b) and all(x.shape == y.shape and np.array_equal(x, y) for x, y in zip(a, b))


def u_dqn_target(ctx):
    import equinox as eqx

    for c in range(ctx.n(4, 24)):
        env = _ending_env(ctx, "discrete")
        E, S = int(ctx.rng.integers(1, 4)), int(ctx.rng.integers(1, 4))
        interval = int(ctx.rng.integers(1, 6)) if c else 3
        algo, pol = _mk(ctx, "DQN", env, E, S, target_update_interval=interval)
        cb = algo.consolidate_callbacks(None)
        st = eqx.filter_jit(lambda k: algo.reset(env, pol, key=k, callback=cb))(ctx.key(c))
        it = eqx.filter_jit(lambda s, k: algo.iteration(s, key=k, callback=cb))
        snaps = {0: _snap(st.policy)}
        if not _same(_snap(st.target_policy), snaps[0]):
            ctx.violation("dqn-target-not-online-at-start", {"interval": interval})
        K = ctx.n(8, 14)
        for k in range(1, K + 1):
            prev_t = _snap(st.target_policy)
            prev_p = _snap(st.policy)
            st = it(st, ctx.key(100 * c + k))
            snaps[k] = _snap(st.policy)
            info = {"interval": interval, "E": E, "S": S, "k": k}
            ctx.case(info, nontrivial=True, cls="dqn-target")
            ctx.monitor("dqn_iterations_observed")
            if int(st.iteration_count) != k:
                ctx.violation("iteration-counter-not-advancing-by-one", {**info, "count": int(st.iteration_count)})
            last = (k // interval) * interval
            tgt = _snap(st.target_policy)
            if not _same(tgt, snaps[last]):
                who = [j for j in range(k + 1) if _same(tgt, snaps[j])]
                ctx.violation("dqn-target-not-online-of-last-multiple-of-interval", {**info, "want_snapshot": last, "equals_snapshots": who})
            if k % interval != 0:
                ctx.monitor("dqn_between_updates")
                if not _same(tgt, prev_t):
                    ctx.violation("dqn-target-changed-between-updates", info)
            else:
                ctx.monitor("dqn_copy_iterations")
            if _same(snaps[k], prev_p):
                ctx.violation("online-network-not-trained", info)
    ctx.require("dqn_copy_iterations", 3)
    ctx.require("dqn_between_updates", 3)


def u_sac_schedule(ctx):
    import equinox as eqx

    for c in range(ctx.n(4, 24)):
        env = _ending_env(ctx, "box")
        E, S = int(ctx.rng.integers(1, 4)), int(ctx.rng.integers(1, 3))
        tau = [0.25, 0.005, 1.0, 0.0, 0.5, 0.9][c % 6]
        pf = int(ctx.rng.integers(1, 5)) if c else 3
        auto = bool(c % 2 == 0)
        algo, pol = _mk(ctx, "SAC", env, E, S, tau=tau, policy_frequency=pf, autotune=auto)
        cb = algo.consolidate_callbacks(None)
        st = eqx.filter_jit(lambda k: algo.reset(env, pol, key=k, callback=cb))(ctx.key(c))
        it = eqx.filter_jit(lambda s, k: algo.iteration(s, key=k, callback=cb))
        if not (_same(_snap(st.qf1_target), _snap(st.qf1)) and _same(_snap(st.qf2_target), _snap(st.qf2))):
            ctx.violation("sac-targets-not-online-at-start", {})
        actor_iters, alpha_iters = [], []
        K = ctx.n(8, 14)
        for k in range(1, K + 1):
            prev = st
            st = it(st, ctx.key(100 * c + k))
            info = {"tau": tau, "pf": pf, "autotune": auto, "E": E, "S": S, "k": k}
            ctx.case(info, nontrivial=True, cls="sac-schedule")
            ctx.monitor("sac_iterations_observed")
            if int(st.iteration_count) != k:
                ctx.violation("iteration-counter-not-advancing-by-one", {**info, "count": int(st.iteration_count)})
            for nm in ("qf1", "qf2"):
                on, tg_prev, tg = _snap(getattr(st, nm)), _snap(getattr(prev, nm + "_target")), _snap(getattr(st, nm + "_target"))
                err = max(float(np.max(np.abs((tau * o.astype(np.float64) + (1 - tau) * t.astype(np.float64)) - g)))
                          for o, t, g in zip(on, tg_prev, tg) if o.size)
                if err > 2e-6:
                    # which wrong schedule would explain it?
                    def e_of(f):
                        return max(float(np.max(np.abs(f(o.astype(np.float64), t.astype(np.float64)) - g)))
                                   for o, t, g in zip(on, tg_prev, tg) if o.size)
                    key = "sac-polyak-update-wrong"
                    if e_of(lambda o, t: (1 - tau) * o + tau * t) <= 2e-6:
                        key = "sac-polyak-tau-swapped"
                    elif e_of(lambda o, t: tau * o + (1 - tau) * (tau * o + (1 - tau) * t)) <= 2e-6:
                        key = "sac-polyak-applied-twice"
                    elif e_of(lambda o, t: t) <= 2e-6:
                        key = "sac-target-not-updated"
                    ctx.violation(key, {**info, "net": nm, "err": err})
                if _same(on, _snap(getattr(prev, nm))):
                    ctx.violation("critics-not-updated", {**info, "net": nm})
            if not _same(_snap(st.policy), _snap(prev.policy)):
                actor_iters.append(k)
            if float(st.log_alpha) != float(prev.log_alpha):
                alpha_iters.append(k)
        info = {"tau": tau, "pf": pf, "autotune": auto, "K": K}
        ctx.monitor("sac_actor_updates_observed", len(actor_iters))
        res = {k % pf for k in actor_iters}
        want_n = len([k for k in range(1, K + 1) if k % pf == (actor_iters[0] % pf if actor_iters else 0)])
        if len(res) > 1:
            ctx.violation("sac-actor-updated-off-schedule", {**info, "actor_iterations": actor_iters})
        elif len(actor_iters) != want_n:
            ctx.violation("sac-actor-skipped-on-its-iteration", {**info, "actor_iterations": actor_iters, "want_count": want_n})
        if auto:
            if alpha_iters != actor_iters:
                ctx.violation("sac-temperature-not-updated-with-actor", {**info, "alpha": alpha_iters, "actor": actor_iters})
        elif alpha_iters:
            ctx.violation("sac-temperature-changes-without-autotune", {**info, "alpha": alpha_iters})
    ctx.require("sac_actor_updates_observed", 3)


def u_counter(ctx):
    """iteration() advances the counter by exactly one for the on-policy algorithms too, and consumes
    num_envs*num_steps environment steps (clock MDP)."""
    import equinox as eqx

    for c in range(ctx.n(3, 12)):
        name = ["PPO", "A2C", "REINFORCE"][c % 3]
        env = _clock_env(ctx, "discrete")
        E, S = int(ctx.rng.integers(1, 4)), int(ctx.rng.integers(1, 9))
        algo, pol = _mk(ctx, name, env, E, S)
        cb = algo.consolidate_callbacks(None)
        st = algo.reset(env, pol, key=ctx.key(c), callback=cb)
        it = eqx.filter_jit(lambda s, k: algo.iteration(s, key=k, callback=cb))
        for k in range(1, ctx.n(4, 8)):
            st = it(st, ctx.key(50 * c + k))
            info = {"algo": name, "E": E, "S": S, "k": k}
            ctx.case(info, nontrivial=True, cls=f"counter/{name}")
            ctx.monitor("onpolicy_iterations_observed")
            if int(st.iteration_count) != k:
                ctx.violation("iteration-counter-not-advancing-by-one", {**info, "count": int(st.iteration_count)})
            clock = np.atleast_1d(np.asarray(st.step_state.env_state.t)).tolist()
            if len(clock) != E or any(x != k * S for x in clock):
                ctx.violation("environment-steps-per-iteration-wrong", {**info, "clock": clock, "want_each": k * S})


def u_learn_targets(ctx):
    """The target-network schedule *inside learn()*: an observer whose on_iteration hands the critics / target critics
    (SAC) or the online / target Q-networks (DQN) it finds in the algorithm state to a recorder (debug callback at the
    top level of the scan body). Between two consecutive observations exactly one per-iteration target update lies:
    SAC  T[i+1] = tau*Q[i] + (1-tau)*T[i];  DQN  T[i+1] = Q[i] when iteration i+1 is a multiple of the interval, else T[i]."""
    import jax
    import jax.numpy as jnp
    from vlib.common import inexact_leaves
    from vlib.stubs import ProbeCallback, Recorder

    class TargetProbe(ProbeCallback):
        def on_iteration(self, c, *, key):
            rec = self.recorder
            st = c.locals.get("state")
            if hasattr(st, "qf1"):
                pair = (inexact_leaves_j(st.qf1), inexact_leaves_j(st.qf1_target), inexact_leaves_j(st.qf2), inexact_leaves_j(st.qf2_target))
            else:
                pair = (inexact_leaves_j(st.policy), inexact_leaves_j(st.target_policy))

            def emit(it, *arrs):
                rec.add(("targets", int(it), [np.asarray(a) for a in arrs]))

            jax.debug.callback(emit, c.iteration_count, *pair, ordered=True)
            return super().on_iteration(c, key=key)

    def inexact_leaves_j(tree):
        return jnp.concatenate([jnp.ravel(x) for x in jax.tree.leaves(tree) if hasattr(x, "dtype") and jnp.issubdtype(x.dtype, jnp.inexact)])

    for c in range(ctx.n(4, 16)):
        name = ["SAC", "DQN"][c % 2]
        env = _clock_env(ctx, "box" if name == "SAC" else "discrete")
        E, S = int(ctx.rng.integers(1, 3)), int(ctx.rng.integers(1, 4))
        kw = {"tau": float(ctx.rng.choice([0.25, 0.05, 0.5]))} if name == "SAC" else {"target_update_interval": int(ctx.rng.integers(2, 4))}
        algo, pol = _mk(ctx, name, env, E, S, **kw)
        iters = int(ctx.rng.integers(4, 8))
        rec = Recorder()
        out = algo.learn(env, pol, iters * E * S, key=ctx.key(500 + c), callback=TargetProbe(rec, tag=name))
        jax.block_until_ready(jax.tree.leaves(out))
        jax.effects_barrier()
        obs = [e for e in rec.snapshot() if e[0] == "targets"]
        info = {"algo": name, "E": E, "S": S, **kw, "iterations": iters}
        ctx.case(info, nontrivial=True, cls=f"learn-targets/{name}")
        if len(obs) != iters:
            ctx.inconc(f"target probe saw {len(obs)} observations in {iters} iterations")
            continue
        for (_, it0, a0), (_, it1, a1) in zip(obs[:-1], obs[1:]):
            ctx.monitor("target_updates_inside_learn_checked")
            if name == "SAC":
                tau = kw["tau"]
                for q, t0, t1 in ((a0[0], a0[1], a1[1]), (a0[2], a0[3], a1[3])):
                    want = tau * q.astype(np.float64) + (1 - tau) * t0.astype(np.float64)
                    err = float(np.max(np.abs(t1 - want)))
                    if err > 2e-6:
                        twice = tau * q.astype(np.float64) + (1 - tau) * want
                        key = "sac-polyak-applied-twice" if float(np.max(np.abs(t1 - twice))) <= 2e-6 else "sac-polyak-update-wrong"
                        ctx.violation(key, {**info, "where": "inside learn()", "between_iterations": [it0, it1], "max_error": err})
                        break
            else:
                # the observation at iteration count it1 sees the target as left by the hook of the iteration before
                k = kw["target_update_interval"]
                want = a0[0] if it0 % k == 0 else a0[1]  # it0 = the counter after the iteration that was just observed
                if not np.array_equal(a1[1], want):
                    ctx.violation("dqn-target-not-online-at-interval", {**info, "where": "inside learn()", "between_iterations": [it0, it1],
                                                                        "equals_online": bool(np.array_equal(a1[1], a0[0])),
                                                                        "unchanged": bool(np.array_equal(a1[1], a0[1]))})
                    break
    ctx.require("target_updates_inside_learn_checked", 8)


def run_unit(name, ctx):
    if name == "learn_targets":
        return u_learn_targets(ctx)
    if name == "budget_onpolicy":
        _budget(ctx, ["PPO", "A2C", "REINFORCE"], ctx.n(3, 15))
    elif name == "budget_offpolicy":
        _budget(ctx, ["DQN", "SAC"], ctx.n(2, 10))
    elif name == "dqn_target":
        u_dqn_target(ctx)
    elif name == "sac_schedule":
        u_sac_schedule(ctx)
    elif name == "counter":
        u_counter(ctx)
