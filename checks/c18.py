"""C18 Saving and loading a policy restores it exactly or fails loudly."""

from __future__ import annotations

import os
import shutil
import tempfile
from collections import OrderedDict

import numpy as np

RULE = ("round-trip cases = one real policy (MLPActorCriticPolicy / MLPQPolicy / MLPSACPolicy) built on a "
        "FiniteMDP variant (action kinds discrete / multidiscrete / multibinary / box(d) / scalar box / n-d "
        "multibinary; observation kinds onehot / index / dict and swapped-in Discrete, MultiDiscrete, "
        "MultiBinary, Tuple, nested Dict, 2-d and unbounded Box) with random architecture arguments, every "
        "network parameter perturbed with N(0, 0.5) noise (plus a class with -0.0 / subnormal / huge / "
        "inf / nan entries), saved with the real serialize under one path spelling (plain, .eqx, nested "
        "not-yet-existing directories, relative, ./relative, pathlib.Path, directory containing a dot, "
        "no_suffix=True, blanks/non-ASCII, dotted file names, serialize called inside jit) and loaded with "
        "the real deserialize, same arguments, another key; non-trivial = every network parameter leaf of "
        "the saved policy differs from a fresh policy built with the load-time key (so a load that ignores "
        "the file cannot pass). mismatch cases = pair (saved policy, load arguments) in which exactly one "
        "size argument / one environment dimension or kind differs, both directions, in three size regimes "
        "(all sizes distinct, all sizes equal so that leaf shapes coincide as far as possible, random); "
        "the pair is judged only if the *really constructed* two policies have different sequences of "
        "array-leaf (shape, dtype) (pairs with identical sequences are outside the property and counted as "
        "excluded); non-trivial = always for judged pairs. distinct by hash of the full description "
        "(class, space kinds, arguments, spelling, digest of the parameters)")
FLOOR = {"quick": 150, "thorough": 1200}
ASSUMPTIONS = [
    "bit-identity is demanded for every array leaf (bytes, shape, dtype) and for bool/int leaves; a Python "
    "float leaf (MLPQPolicy.epsilon) is compared after rounding to float32, the library's working precision "
    "(on the pinned tree 0.1 comes back as float(float32(0.1)); recorded as monitor "
    "python_float_leaf_changed_within_float32, not judged)",
    "outputs of the saved and the loaded policy are computed by the same jitted+vmapped function on 64 "
    "observations and the same keys; XLA CPU is deterministic, so equality is demanded bit for bit "
    "(NaN == NaN)",
    "the classes with inf/nan parameters compare leaves only (outputs would be NaN everywhere)",
    "a mismatched load that raises any exception is accepted; returning any object is a violation",
    "loading with a spelling other than the one used for saving (x vs x.eqx) is recorded in the notes only",
    "a path whose last component contains a dot but does not end in .eqx ('model.v1') is taken as a legal "
    "spelling 'without the .eqx suffix' (the docstring of serialize says the suffix is *appended*)",
    "policy methods that raise for the *unsaved* policy on some space kind are not judged here (counted as "
    "output_methods_unavailable); they belong to other properties",
]

_UNITS = ("ac", "ac_spaces", "q", "sac", "mismatch_ac", "mismatch_q", "mismatch_sac", "paths")


def units(tier):
    return [{"name": n, "timeout": 2400} for n in _UNITS]


# ------------------------------------------------------------------------------------------------
# scratch directory
_ROOTS = []


class _Scratch:
    """Per-unit temporary directory; cwd is moved into it so that relative spellings land there."""

    def __enter__(self):
        self.old = os.getcwd()
        self.root = os.path.realpath(tempfile.mkdtemp(prefix="c18-"))
        _ROOTS.append(self.root)
        os.chdir(self.root)
        return self

    def __exit__(self, *exc):
        os.chdir(self.old)
        shutil.rmtree(self.root, ignore_errors=True)
        return False

    def files(self):
        out = set()
        for d, _dirs, fs in os.walk(self.root):
            for f in fs:
                out.add(os.path.relpath(os.path.join(d, f), self.root))
        return out


SPELLINGS = ("plain", "suffix", "nested", "nested-suffix", "relative", "relative-nested", "relative-dot",
             "pathlib", "dir-with-dot", "no-suffix-flag", "space-unicode", "jit-save")


def _spell(root, name, tag):
    """-> (path argument for serialize *and* deserialize, serialize kwargs)"""
    from pathlib import Path

    j = os.path.join
    return {
        "plain": (j(root, tag), {}),
        "suffix": (j(root, f"{tag}.eqx"), {}),
        "nested": (j(root, f"{tag}_n", "a", "b", "pol"), {}),
        "nested-suffix": (j(root, f"{tag}_ns", "c", "d", "pol.eqx"), {}),
        "relative": (f"{tag}_rel", {}),
        "relative-nested": (j(f"{tag}_reln", "x", "y", "pol.eqx"), {}),
        "relative-dot": (j(".", f"{tag}_rd", "pol"), {}),
        "pathlib": (Path(root) / f"{tag}_pl" / "sub" / "pol", {}),
        "dir-with-dot": (j(root, f"{tag}.run.1", "pol"), {}),
        "no-suffix-flag": (j(root, f"{tag}_nsf"), {"no_suffix": True}),
        "space-unicode": (j(root, f"{tag} dir", "pol icy-é"), {}),
        "jit-save": (j(root, f"{tag}_jit", "pol"), {}),
    }[name]


# ------------------------------------------------------------------------------------------------
# environments / spaces
_SPACE_ENV = []


def _space_env_cls():
    if not _SPACE_ENV:
        from vlib.mdp import FiniteMDP

        class SpaceEnv(FiniteMDP):
            """FiniteMDP whose declared spaces are replaced (policies only read the two spaces)."""

            def __init__(self, tabs, obs_space=None, act_space=None, **kw):
                super().__init__(tabs["P"], tabs["R"], tabs["term"], tabs["starts"], **kw)
                if obs_space is not None:
                    self.observation_space = obs_space
                if act_space is not None:
                    self.action_space = act_space

        _SPACE_ENV.append(SpaceEnv)
    return _SPACE_ENV[0]


def _mk_space(spec):
    """spec is a small hashable description -> lerax space."""
    from lerax.space import Box, Dict, Discrete, MultiBinary, MultiDiscrete, Tuple

    k = spec[0]
    if k == "box":  # ("box", shape, low, high)
        return Box(spec[2], spec[3], shape=tuple(spec[1]))
    if k == "discrete":
        return Discrete(int(spec[1]))
    if k == "multidiscrete":
        return MultiDiscrete(tuple(int(n) for n in spec[1]))
    if k == "multibinary":
        n = spec[1]
        return MultiBinary(int(n) if isinstance(n, int) else tuple(int(x) for x in n))
    if k == "dict":
        return Dict(OrderedDict((name, _mk_space(s)) for name, s in spec[1]))
    if k == "tuple":
        return Tuple(tuple(_mk_space(s) for s in spec[1]))
    raise ValueError(spec)


def _env(rng, spec):
    """spec: dict(nS, act=(kind, arg), obs=kind or space-spec, low, high)."""
    from vlib.mdp import random_tables

    nS = int(spec["nS"])
    ak, aa = spec["act"]
    kw = dict(kind="discrete", nvec=(), box_dim=1, low=float(spec.get("low", -1.0)), high=float(spec.get("high", 1.0)))
    act_space = None
    if ak == "discrete":
        nA = int(aa)
    elif ak == "multidiscrete":
        kw.update(kind="multidiscrete", nvec=tuple(aa))
        nA = int(np.prod(aa))
    elif ak == "multibinary":
        kw.update(kind="multibinary", nvec=(2,) * int(aa))
        nA = 2 ** int(aa)
    elif ak == "box":
        kw.update(kind="box", box_dim=int(aa))
        nA = 3
    elif ak == "space":  # any lerax space swapped in
        nA = 2
        act_space = _mk_space(aa)
    else:
        raise ValueError(ak)
    obs = spec["obs"]
    obs_space = None
    if isinstance(obs, str):
        kw["obs_kind"] = obs
    else:
        obs_space = _mk_space(obs)
    tabs = random_tables(rng, nS, nA)
    tabs = {k: tabs[k] for k in ("P", "R", "term", "starts")}
    return _space_env_cls()(tabs, obs_space=obs_space, act_space=act_space, **kw)


def _spec_names(spec):
    ak, aa = spec["act"]
    a = f"{ak}{aa}" if ak != "space" else "space-" + _short(aa)
    o = spec["obs"] if isinstance(spec["obs"], str) else "space-" + _short(spec["obs"])
    return a.replace(" ", ""), o.replace(" ", "")


def _short(s):
    k = s[0]
    if k == "box":
        return f"box{tuple(s[1])}" + ("-unbounded" if not np.all(np.isfinite([s[2], s[3]])) else "")
    if k in ("dict", "tuple"):
        inner = [(_short(x[1]) if k == "dict" else _short(x)) for x in s[1]]
        return f"{k}[{'+'.join(inner)}]"
    return f"{k}{s[1]}"


def _gen_obs(rng, space, n):
    """n observations for a space, written from the space's declared structure (NumPy only).
    Box rows are N(0, 2) values (deliberately not confined to the bounds), the first rows of a 1-d Box
    are the unit vectors (the observations a FiniteMDP really emits)."""
    from lerax.space import Box, Dict, Discrete, MultiBinary, MultiDiscrete, Tuple

    if isinstance(space, Box):
        x = rng.normal(0, 2, size=(n,) + tuple(space.shape)).astype(np.float32)
        if len(space.shape) == 1:
            k = min(space.shape[0], n)
            x[:k] = np.eye(space.shape[0], dtype=np.float32)[:k]
        return x
    if isinstance(space, Discrete):
        return rng.integers(0, space.n, size=(n,)).astype(np.int32)
    if isinstance(space, MultiDiscrete):
        return np.stack([rng.integers(0, m, size=(n,)) for m in space.nvec], axis=-1).astype(np.int32)
    if isinstance(space, MultiBinary):
        return rng.random((n,) + tuple(space.shape)) < 0.5
    if isinstance(space, Dict):
        return OrderedDict((k, _gen_obs(rng, s, n)) for k, s in space.spaces.items())
    if isinstance(space, Tuple):
        return tuple(_gen_obs(rng, s, n) for s in space.spaces)
    raise ValueError(type(space))


# ------------------------------------------------------------------------------------------------
# leaves
_SPACE_FIELDS = ("action_space", "observation_space")


def _flat(tree):
    import jax

    lp, td = jax.tree_util.tree_flatten_with_path(tree)
    return [(jax.tree_util.keystr(p), x) for p, x in lp], td


def _is_arr(x):
    import jax

    return isinstance(x, (jax.Array, np.ndarray))


def _perturb(ctx, pol, mode):
    """Every inexact array leaf outside the two space fields gets N(0, 0.5) noise; mode 'special'
    additionally plants -0.0, a subnormal and a huge value, mode 'nonfinite' also inf and nan."""
    import jax
    import jax.numpy as jnp

    lp, td = jax.tree_util.tree_flatten_with_path(pol)
    new = []
    for p, x in lp:
        top = getattr(p[0], "name", "")
        if _is_arr(x) and np.issubdtype(np.asarray(x).dtype, np.floating) and top not in _SPACE_FIELDS:
            a = np.array(x)
            b = (a + ctx.rng.normal(0, 0.5, size=a.shape)).astype(a.dtype)
            if mode in ("special", "nonfinite") and b.size:
                vals = [-0.0, 1e-45, -3e-39, 3.0e38, 1.1754944e-38]
                if mode == "nonfinite":
                    vals += [np.inf, -np.inf, np.nan]
                flat = b.reshape(-1)
                pos = ctx.rng.integers(0, flat.size, size=min(len(vals), flat.size))
                for q, v in zip(pos, ctx.rng.permutation(vals)):
                    flat[q] = np.asarray(v, dtype=a.dtype)
                b = flat.reshape(a.shape)
            new.append(jnp.asarray(b))
        else:
            new.append(x)
    out = jax.tree_util.tree_unflatten(td, new)
    # Python-scalar parameters changed after construction (e.g. an annealed or evaluation epsilon) are part
    # of what is saved: the load is done with the *constructor's* value, so a loader that keeps the
    # skeleton's scalar instead of the stored one is visible
    if isinstance(getattr(out, "epsilon", None), float) and ctx.rng.random() < 0.6:
        import equinox as eqx

        other = float(ctx.rng.choice([0.0, 0.5, 1.0, 0.25]))
        if other != out.epsilon:
            out = eqx.tree_at(lambda p: p.epsilon, out, other)
            ctx.monitor("python_scalar_parameters_changed_after_construction")
    return out


def _param_leaves(pol):
    import jax

    lp, _ = jax.tree_util.tree_flatten_with_path(pol)
    return [(jax.tree_util.keystr(p), np.asarray(x)) for p, x in lp
            if _is_arr(x) and getattr(p[0], "name", "") not in _SPACE_FIELDS]


def _same_bits(a, b):
    a, b = np.asarray(a), np.asarray(b)
    return a.shape == b.shape and a.dtype == b.dtype and a.tobytes() == b.tobytes()


def _compare_trees(ctx, saved, loaded):
    """-> list of (mechanism, detail); counts what was compared."""
    ls, ts = _flat(saved)
    ll, tl = _flat(loaded)
    out = []
    if ts != tl or len(ls) != len(ll):
        out.append(("loaded-tree-structure-differs", {"saved": str(ts)[:400], "loaded": str(tl)[:400]}))
        return out
    for (p, a), (_, b) in zip(ls, ll):
        if _is_arr(a):
            ctx.monitor("array_leaves_compared_bitwise")
            if not _is_arr(b) or not _same_bits(a, b):
                bb = np.asarray(b) if _is_arr(b) else None
                det = {"leaf": p, "saved_shape": np.asarray(a).shape, "saved_dtype": str(np.asarray(a).dtype),
                       "loaded_type": type(b).__name__}
                if bb is not None and bb.shape == np.asarray(a).shape and bb.size:
                    diff = np.asarray(a).reshape(-1).view(np.uint8).reshape(np.asarray(a).size, -1) != \
                        bb.astype(np.asarray(a).dtype).reshape(-1).view(np.uint8).reshape(bb.size, -1)
                    k = int(np.argmax(diff.any(axis=1)))
                    det.update(index=k, saved=np.asarray(a).reshape(-1)[k], loaded=bb.reshape(-1)[k],
                               n_different=int(diff.any(axis=1).sum()), loaded_dtype=str(bb.dtype))
                out.append(("array-leaf-not-bit-identical", det))
        elif isinstance(a, bool) or (isinstance(a, int) and not isinstance(a, bool)):
            ctx.monitor("python_scalar_leaves_compared")
            if type(a) is not type(b) or a != b:
                out.append(("python-scalar-leaf-differs", {"leaf": p, "saved": a, "loaded": repr(b)}))
        elif isinstance(a, float):
            ctx.monitor("python_scalar_leaves_compared")
            if not isinstance(b, float) or not _same_bits(np.float32(a), np.float32(b)):
                out.append(("python-scalar-leaf-differs", {"leaf": p, "saved": a, "loaded": repr(b)}))
            elif a != b:
                ctx.monitor("python_float_leaf_changed_within_float32")
        else:
            ctx.monitor("other_leaves_compared")
            same = a is b
            if not same:
                try:
                    same = bool(a == b)
                except Exception:
                    same = False
            if not same:
                out.append(("non-array-leaf-differs", {"leaf": p, "saved": repr(a)[:120], "loaded": repr(b)[:120]}))
    return out


# ------------------------------------------------------------------------------------------------
# outputs
_OUT_FN = {}


def _outputs_fn(kind):
    """One jitted, vmapped function per policy family; each method in its own try so that a method that
    cannot be traced for some space kind (not C18's business) does not hide the others."""
    if kind in _OUT_FN:
        return _OUT_FN[kind]
    import equinox as eqx
    from jax import random as jr

    unavailable = set()

    def guard(out, name, f):
        try:
            r = f()
        except Exception as e:  # trace-time
            unavailable.add(f"{name}: {type(e).__name__}")
            return None
        out[name] = r
        return r

    def one_ac(pol, o, k):
        k1, k2 = jr.split(k)
        out = {}
        guard(out, "action_nokey", lambda: pol(None, o)[1])
        guard(out, "action_key", lambda: pol(None, o, key=k1)[1])
        r = guard(out, "action_and_value", lambda: pol.action_and_value(None, o, key=k2)[1:])
        guard(out, "value", lambda: pol.value(None, o)[1])
        if r is not None:
            guard(out, "evaluate_action", lambda: pol.evaluate_action(None, o, r[0])[1:])
        return out

    def one_q(pol, o, k):
        out = {}
        guard(out, "q_values", lambda: pol.q_values(None, o)[1])
        guard(out, "action_nokey", lambda: pol(None, o)[1])
        guard(out, "action_key", lambda: pol(None, o, key=k)[1])
        return out

    def one_sac(pol, o, k):
        k1, k2 = jr.split(k)
        out = {}
        guard(out, "action_nokey", lambda: pol(None, o)[1])
        guard(out, "action_key", lambda: pol(None, o, key=k1)[1])
        r = guard(out, "action_and_log_prob", lambda: pol.action_and_log_prob(None, o, key=k2)[1:])
        if r is not None:
            guard(out, "dist_log_prob", lambda: pol.action_distribution(None, o)[1].log_prob(r[0]))
        return out

    one = {"ac": one_ac, "q": one_q, "sac": one_sac}[kind]
    fn = eqx.filter_jit(eqx.filter_vmap(one, in_axes=(None, 0, 0)))
    _OUT_FN[kind] = (fn, unavailable)
    return _OUT_FN[kind]


def _compare_outputs(ctx, kind, saved, loaded, obs, keys, equal_nan=True):
    import jax

    fn, unavailable = _outputs_fn(kind)
    unavailable.clear()
    o_s = fn(saved, obs, keys)
    un_s = set(unavailable)
    unavailable.clear()
    o_l = fn(loaded, obs, keys)
    un_l = set(unavailable) or un_s  # second call may hit the jit cache (no re-trace)
    if un_s:
        ctx.monitor("output_methods_unavailable", len(un_s))
        ctx.notes.setdefault("unavailable_methods", [])
        for u in sorted(un_s):
            if u not in ctx.notes["unavailable_methods"] and len(ctx.notes["unavailable_methods"]) < 20:
                ctx.notes["unavailable_methods"].append(u)
    bad = []
    if set(o_s) != set(o_l):
        bad.append({"what": "methods available differ", "saved": sorted(o_s), "loaded": sorted(o_l),
                    "unavailable_loaded": sorted(un_l)})
    for name in sorted(set(o_s) & set(o_l)):
        la, lb = jax.tree.leaves(o_s[name]), jax.tree.leaves(o_l[name])
        for j, (a, b) in enumerate(zip(la, lb)):
            a, b = np.asarray(a), np.asarray(b)
            ctx.monitor("output_arrays_compared")
            ctx.monitor(f"outputs/{name}")
            ok = a.shape == b.shape and a.dtype == b.dtype and (
                a.tobytes() == b.tobytes() or np.array_equal(a, b, equal_nan=equal_nan))
            if not ok:
                k = None
                if a.shape == b.shape and a.size:
                    neq = ~((a == b) | ((a != a) & (b != b)))
                    k = int(np.argmax(neq.reshape(-1)))
                bad.append({"method": name, "part": j, "index": k,
                            "saved": None if k is None else a.reshape(-1)[k],
                            "loaded": None if k is None else b.reshape(-1)[k],
                            "shapes": [a.shape, b.shape]})
    return bad, len(o_s)


# ------------------------------------------------------------------------------------------------
# round trip
_TAG = {"MLPActorCriticPolicy": "ac", "MLPQPolicy": "q", "MLPSACPolicy": "sac"}
_PLAIN_ACT = ("discrete", "box")


def _kw_desc(kw):
    return {k: (getattr(v, "__name__", None) or repr(v)[:40]) if callable(v) else v for k, v in kw.items()}


def _err(e):
    return f"{type(e).__name__}: {str(e)[:300]}"


def _construct(ctx, cls, env, spec, kw, key, desc):
    """Build the policy; a class that cannot be built on a supported space kind is a violation of the
    'for every policy class and every supported space kind' clause with its own key."""
    try:
        return cls(env, key=key, **kw)
    except Exception as e:
        ak = spec["act"][0]
        a, o = _spec_names(spec)
        if ak == "multidiscrete":
            k = "policy-class-not-constructible-multidiscrete"
        elif ak == "space":
            k = f"policy-class-not-constructible-action-{spec['act'][1][0]}"
        elif not isinstance(spec["obs"], str):
            k = f"policy-class-not-constructible-obs-{spec['obs'][0]}"
        else:
            k = f"policy-class-not-constructible-{ak}-{spec['obs']}"
        ctx.case({**desc, "stage": "construct"}, nontrivial=False, cls=f"construct-fails/{cls.__name__}/{a}/{o}")
        ctx.monitor("constructions_failed")
        ctx.violation(k, {"class": cls.__name__, "action_space": repr(env.action_space),
                          "observation_space": repr(env.observation_space)[:200], "kwargs": _kw_desc(kw),
                          "got": _err(e), "want": "a policy that can be saved and loaded"})
        return None


def _save(pol, path, skw, jit):
    import equinox as eqx
    import jax

    if jit:
        eqx.filter_jit(lambda p: p.serialize(path, **skw))(pol)
    else:
        pol.serialize(path, **skw)
    jax.effects_barrier()


def _roundtrip(ctx, T, cls, spec, kw, idx, spelling, perturb="normal", outputs=True, n_obs=64):
    from vlib.common import digest

    tag = _TAG[cls.__name__]
    a, o = _spec_names(spec)
    desc = {"class": cls.__name__, "action": a, "obs": o, "nS": spec["nS"], "kwargs": _kw_desc(kw),
            "spelling": spelling, "perturb": perturb}
    env = _env(ctx.rng, spec)
    pol0 = _construct(ctx, cls, env, spec, kw, ctx.key(idx), desc)
    if pol0 is None:
        return None
    pol = _perturb(ctx, pol0, perturb)
    fresh = cls(env, key=ctx.key(500_000 + idx), **kw)  # what a load that ignores the file would give
    pl, fl = _param_leaves(pol), _param_leaves(fresh)
    float_pairs = [(x, y) for (_, x), (_, y) in zip(pl, fl) if np.issubdtype(x.dtype, np.floating) and x.size]
    nontrivial = bool(float_pairs) and all(not _same_bits(x, y) for x, y in float_pairs)
    desc["h"] = digest(*[x for _, x in pl])
    ccls = f"roundtrip/{cls.__name__}/{a}/{o}"

    path, skw = _spell(T.root, spelling, f"{tag}{idx}")
    before = T.files()
    try:
        _save(pol, path, skw, jit=(spelling == "jit-save"))
    except Exception as e:
        ctx.case(desc, nontrivial=nontrivial, cls=ccls)
        ctx.violation(f"serialize-raised-{spelling}", {**desc, "path": str(path), "got": _err(e)})
        return None
    created = sorted(T.files() - before)
    ctx.monitor("files_created", len(created))
    if not created:
        ctx.case(desc, nontrivial=nontrivial, cls=ccls)
        ctx.violation(f"serialize-created-no-file-{spelling}", {**desc, "path": str(path)})
        return None
    try:
        loaded = cls.deserialize(path, env, key=ctx.key(500_000 + idx), **kw)
    except Exception as e:
        ctx.case(desc, nontrivial=nontrivial, cls=ccls)
        if isinstance(e, OSError):
            k = f"roundtrip-load-file-not-found-{spelling}"
        else:
            k = f"roundtrip-load-raised-{tag}"
        ctx.violation(k, {**desc, "path": str(path), "files_created": created, "got": _err(e),
                          "want": "the saved policy"})
        return None
    ctx.case(desc, nontrivial=nontrivial, cls=ccls)
    ctx.monitor("roundtrips_loaded")
    ctx.monitor(f"spelling/{spelling}")
    if nontrivial:
        ctx.monitor("roundtrips_distinguishable_from_fresh_init")
    if type(loaded) is not cls:
        ctx.violation(f"loaded-object-wrong-type-{tag}", {**desc, "got": type(loaded).__name__})
        return None
    problems = _compare_trees(ctx, pol, loaded)
    for mech, det in problems:
        ctx.violation(f"{mech}-{tag}", {**desc, **det})
    if not problems:
        ctx.monitor("roundtrips_leaves_identical")
    if outputs and perturb != "nonfinite":
        import jax.numpy as jnp
        from jax import random as jr

        obs = _gen_obs(ctx.rng, env.observation_space, n_obs)
        keys = jr.split(ctx.key(900_000 + idx), n_obs)
        try:
            bad, n_methods = _compare_outputs(ctx, tag, pol, loaded, jnp_tree(obs, jnp), keys)
        except Exception as e:
            # the saved policy itself cannot be evaluated here: nothing to compare
            ctx.monitor("output_evaluation_failed")
            ctx.notes.setdefault("output_evaluation_failed", []).append(f"{ccls}: {_err(e)}"[:300])
            return loaded
        if n_methods:
            ctx.monitor("roundtrips_outputs_compared")
        for b in bad:
            ctx.violation(f"outputs-differ-after-load-{tag}", {**desc, **b})
    return loaded


def jnp_tree(obs, jnp):
    import jax

    return jax.tree.map(jnp.asarray, obs)


# ------------------------------------------------------------------------------------------------
# case generators
def _pick(rng, xs):
    return xs[int(rng.integers(0, len(xs)))]


def _ac_kwargs(rng, i):
    import jax

    kw = dict(feature_size=int(_pick(rng, [1, 3, 5, 8, 16])), feature_width=int(_pick(rng, [2, 4, 7, 16])),
              feature_depth=int(_pick(rng, [0, 1, 2, 3])), value_width=int(_pick(rng, [2, 5, 8])),
              value_depth=int(_pick(rng, [0, 1, 2, 3])), action_width=int(_pick(rng, [2, 6, 9])),
              action_depth=int(_pick(rng, [0, 1, 2, 3])))
    if i % 3 == 1:
        kw["activation"] = jax.nn.tanh
    if i % 4 == 2:
        kw["log_std_init"] = float(_pick(rng, [-1.5, 0.5]))
    if i % 7 == 6:
        kw = {}  # library defaults
    return kw


def _q_kwargs(rng, i):
    kw = dict(width_size=int(_pick(rng, [1, 3, 8, 16])), depth=int(_pick(rng, [0, 1, 2, 3])),
              epsilon=float(_pick(rng, [0.0, 0.1, 0.3, 1.0, 1.0 / 3.0, 0.05])))
    if i % 7 == 6:
        kw = {}
    return kw


def _sac_kwargs(rng, i):
    kw = dict(feature_size=int(_pick(rng, [1, 4, 9, 16])), width_size=int(_pick(rng, [2, 5, 16])),
              depth=int(_pick(rng, [0, 1, 2, 3])))
    if i % 7 == 6:
        kw = {}
    return kw


_OBS_FINITE = ("onehot", "index", "dict")
_OBS_SPACES = (
    ("discrete", 5),
    ("multidiscrete", (3, 2, 4)),
    ("multibinary", 3),
    ("multibinary", (2, 2)),
    ("box", (2, 3), -1.0, 1.0),
    ("box", (4,), -np.inf, np.inf),
    ("box", (), 0.0, 1.0),
    ("tuple", (("box", (2,), -1.0, 1.0), ("discrete", 3))),
    ("dict", (("a", ("box", (2,), -1.0, 2.0)),
              ("b", ("dict", (("c", ("discrete", 4)), ("d", ("multibinary", 2))))))),
)


def _perturb_mode(i):
    return "special" if i % 5 == 3 else ("nonfinite" if i % 11 == 7 else "normal")


def u_ac(ctx):
    from lerax.policy import MLPActorCriticPolicy as C

    acts = [("discrete", 2), ("multidiscrete", (2, 3)), ("multibinary", 2), ("box", 1), ("discrete", 5),
            ("multidiscrete", (3, 2, 2)), ("multibinary", 3), ("box", 3), ("multibinary", 1), ("box", 2),
            ("discrete", 3), ("multidiscrete", (4,))]
    n = ctx.n(24, 180)
    with _Scratch() as T:
        for i in range(n):
            spec = dict(nS=int(ctx.rng.integers(2, 8)), act=acts[i % len(acts)],
                        obs=_OBS_FINITE[(i + i // len(acts)) % 3],
                        low=[-1.0, -0.5, 0.0][i % 3], high=[1.0, 2.0, 3.0][i % 3])
            _roundtrip(ctx, T, C, spec, _ac_kwargs(ctx.rng, i), i, SPELLINGS[i % len(SPELLINGS)],
                       perturb=_perturb_mode(i))
    _require_roundtrip(ctx)


def u_ac_spaces(ctx):
    from lerax.policy import MLPActorCriticPolicy as C

    act_spaces = [("space", ("box", (), -1.0, 1.0)), ("space", ("multibinary", (2, 2))),
                  ("space", ("box", (2, 2), -1.0, 1.0)), ("space", ("box", (2,), -np.inf, np.inf)),
                  ("discrete", 3), ("box", 2), ("multidiscrete", (2, 2))]
    n = ctx.n(22, 168)
    with _Scratch() as T:
        for i in range(n):
            act = act_spaces[i % len(act_spaces)]
            obs = _OBS_SPACES[i % len(_OBS_SPACES)] if act[0] != "space" or i % 2 else _OBS_FINITE[i % 3]
            spec = dict(nS=int(ctx.rng.integers(2, 7)), act=act, obs=obs)
            _roundtrip(ctx, T, C, spec, _ac_kwargs(ctx.rng, i), i, SPELLINGS[(i * 5 + 1) % len(SPELLINGS)],
                       perturb=_perturb_mode(i + 1))
    _require_roundtrip(ctx)


def u_q(ctx):
    from lerax.policy import MLPQPolicy as C

    n = ctx.n(22, 180)
    with _Scratch() as T:
        for i in range(n):
            obs = _OBS_FINITE[i % 3] if i % 2 == 0 else _OBS_SPACES[(i // 2) % len(_OBS_SPACES)]
            spec = dict(nS=int(ctx.rng.integers(2, 8)), act=("discrete", int(ctx.rng.integers(1, 7))), obs=obs)
            _roundtrip(ctx, T, C, spec, _q_kwargs(ctx.rng, i), i, SPELLINGS[(i * 7 + 2) % len(SPELLINGS)],
                       perturb=_perturb_mode(i + 2))
    _require_roundtrip(ctx)


def u_sac(ctx):
    from lerax.policy import MLPSACPolicy as C

    acts = [("box", 1), ("box", 2), ("space", ("box", (), -2.0, 0.5)), ("box", 3),
            ("space", ("box", (2,), (-1.0, 0.0), (1.0, 5.0)))]
    n = ctx.n(22, 180)
    with _Scratch() as T:
        for i in range(n):
            obs = _OBS_FINITE[i % 3] if i % 3 != 2 else _OBS_SPACES[(i // 3) % len(_OBS_SPACES)]
            spec = dict(nS=int(ctx.rng.integers(2, 8)), act=acts[i % len(acts)], obs=obs,
                        low=[-1.0, -0.5, 0.0][i % 3], high=[1.0, 2.0, 3.0][i % 3])
            _roundtrip(ctx, T, C, spec, _sac_kwargs(ctx.rng, i), i, SPELLINGS[(i * 5 + 3) % len(SPELLINGS)],
                       perturb=_perturb_mode(i + 4))
    _require_roundtrip(ctx)


def _require_roundtrip(ctx):
    ctx.require("roundtrips_loaded", 4)
    ctx.require("roundtrips_distinguishable_from_fresh_init", 4)
    ctx.require("array_leaves_compared_bitwise", 20)
    ctx.require("output_arrays_compared", 8)


# ------------------------------------------------------------------------------------------------
# mismatch pairs
def _serial_seq(pol):
    """What equinox writes, in order: ('a', shape, dtype) for arrays, ('p', type) for Python scalars."""
    ls, _ = _flat(pol)
    seq = []
    for _, x in ls:
        if _is_arr(x):
            seq.append(("a", tuple(np.asarray(x).shape), str(np.asarray(x).dtype)))
        elif isinstance(x, (bool, int, float, complex)):
            seq.append(("p", type(x).__name__))
    return seq


def _array_seq(pol):
    return [s for s in _serial_seq(pol) if s[0] == "a"]


def _variants_int(v, lo):
    out = []
    for w in (v + 1, v - 1, 2 * v, v + 3):
        if w >= lo and w != v and w not in out:
            out.append(w)
    return out


def _env_variants(spec):
    """Specs that differ from `spec` in one environment dimension or kind: [(label, spec')]"""
    out = []
    nS = spec["nS"]
    for w in (nS + 1, nS - 1, 2 * nS):
        if w >= 2 and w != nS:
            out.append(("env.nS", {**spec, "nS": w}))
    ak, aa = spec["act"]
    if ak == "discrete":
        for w in _variants_int(aa, 1)[:3]:
            out.append(("env.nA", {**spec, "act": ("discrete", w)}))
        out.append(("env.act-kind", {**spec, "act": ("multibinary", max(1, aa))}))
        out.append(("env.act-kind", {**spec, "act": ("box", max(1, aa))}))
    elif ak == "multibinary":
        for w in _variants_int(aa, 1)[:2]:
            out.append(("env.nA", {**spec, "act": ("multibinary", w)}))
        out.append(("env.act-kind", {**spec, "act": ("discrete", aa)}))
        out.append(("env.act-kind", {**spec, "act": ("box", aa)}))
        out.append(("env.act-kind", {**spec, "act": ("space", ("multibinary", (aa, 1)))}))
    elif ak == "box":
        for w in _variants_int(aa, 1)[:2]:
            out.append(("env.box-dim", {**spec, "act": ("box", w)}))
        out.append(("env.act-kind", {**spec, "act": ("discrete", aa)}))
        out.append(("env.act-kind", {**spec, "act": ("multibinary", aa)}))
        if aa == 1:
            out.append(("env.box-dim", {**spec, "act": ("space", ("box", (), -1.0, 1.0))}))
    elif ak == "multidiscrete":
        aa = tuple(aa)
        out.append(("env.nvec", {**spec, "act": ("multidiscrete", aa + (2,))}))
        out.append(("env.nvec", {**spec, "act": ("multidiscrete", (aa[0] + 1,) + aa[1:])}))
        out.append(("env.act-kind", {**spec, "act": ("discrete", int(sum(aa)))}))
    elif ak == "space" and aa[0] == "box" and tuple(aa[1]) == ():
        out.append(("env.box-dim", {**spec, "act": ("box", 1)}))
        out.append(("env.box-dim", {**spec, "act": ("box", 2)}))
    for ok in _OBS_FINITE:
        if ok != spec["obs"]:
            out.append(("env.obs-kind", {**spec, "obs": ok}))
    if spec["obs"] == "onehot":
        out.append(("env.obs-kind", {**spec, "obs": ("box", (nS, 1), 0.0, 1.0)}))
        out.append(("env.obs-kind", {**spec, "obs": ("multibinary", nS)}))
    return out


def _supported(family, act):
    """Action-space kinds the class documents (MLPQPolicy: Discrete only, MLPSACPolicy: Box only)."""
    if family == "q":
        return act[0] == "discrete"
    if family == "sac":
        return act[0] == "box" or (act[0] == "space" and act[1][0] == "box")
    return True


def _mismatch_pairs(ctx, family):
    """-> list of (class label, specA, kwA, specB, kwB)."""
    rng = ctx.rng
    if family == "ac":
        size_args = ["feature_size", "feature_width", "value_width", "action_width"]
        depth_args = ["feature_depth", "value_depth", "action_depth"]
        generic = dict(feature_size=5, feature_width=7, feature_depth=2, value_width=6, value_depth=2,
                       action_width=9, action_depth=2)
        acts = lambda u: [("discrete", u), ("multibinary", u), ("box", u), ("multidiscrete", (u, u))]  # noqa: E731
    elif family == "q":
        size_args, depth_args = ["width_size"], ["depth"]
        generic = dict(width_size=7, depth=2)
        acts = lambda u: [("discrete", u)]  # noqa: E731
    else:
        size_args, depth_args = ["feature_size", "width_size"], ["depth"]
        generic = dict(feature_size=5, width_size=7, depth=2)
        acts = lambda u: [("box", u), ("space", ("box", (), -1.0, 1.0))]  # noqa: E731

    bases = []  # (regime, spec, kw)
    for j, act in enumerate(acts(3)):
        bases.append(("generic", dict(nS=4, act=act, obs=_OBS_FINITE[j % 3]), dict(generic)))
    for u in (3, 4, 2, 1):
        for d in (1, 2, 3):
            for j, act in enumerate(acts(u)):
                kw = {a: u for a in size_args}
                kw.update({a: d for a in depth_args})
                bases.append((f"uniform{u}", dict(nS=max(u, 2), act=act, obs=_OBS_FINITE[(j + d) % 3 if j else 0]), kw))
    n_rand = ctx.n(4, 40)
    for j in range(n_rand):
        u = int(rng.integers(2, 6))
        act = _pick(rng, acts(u))
        kw = {a: int(rng.integers(1, 9)) for a in size_args}
        kw.update({a: int(rng.integers(0, 4)) for a in depth_args})
        bases.append(("random", dict(nS=int(rng.integers(2, 7)), act=act, obs=_pick(rng, _OBS_FINITE)), kw))

    pairs = []
    for regime, spec, kw in bases:
        for a in size_args:
            for w in _variants_int(kw[a], 1)[:3]:
                kb = {**kw, a: w}
                pairs.append((f"{regime}/{a}/grow" if w > kw[a] else f"{regime}/{a}/shrink", spec, kw, spec, kb))
                pairs.append((f"{regime}/{a}/shrink" if w > kw[a] else f"{regime}/{a}/grow", spec, kb, spec, kw))
        for a in depth_args:
            for w in (kw[a] + 1, kw[a] - 1):
                if w < 0:
                    continue
                kb = {**kw, a: w}
                pairs.append((f"{regime}/{a}/{'deeper' if w > kw[a] else 'shallower'}-skeleton", spec, kw, spec, kb))
        for label, sb in _env_variants(spec):
            if not _supported(family, sb["act"]):
                continue  # e.g. MLPQPolicy documents ValueError for non-Discrete actions: not a case
            pairs.append((f"{regime}/{label}/a-to-b", spec, kw, sb, kw))
            pairs.append((f"{regime}/{label}/b-to-a", sb, kw, spec, kw))
    return pairs


def _hostile(label):
    return label.startswith("uniform") and label.endswith("shallower-skeleton")


def _round_robin(pairs, cap, rng):
    """All pairs of the hostile class (equal sizes, file deeper than skeleton: leaf shapes coincide as
    a prefix) are always taken; the others round-robin over their classes up to the cap."""
    out = [p for p in pairs if _hostile(p[0])]
    groups = OrderedDict()
    for p in pairs:
        if not _hostile(p[0]):
            groups.setdefault(p[0], []).append(p)
    for g in groups.values():
        rng.shuffle(g)
    cap += len(out)
    while len(out) < cap and any(groups.values()):
        for g in groups.values():
            if g and len(out) < cap:
                out.append(g.pop())
    return out


def _mismatch_unit(ctx, family):
    from lerax.policy import MLPActorCriticPolicy, MLPQPolicy, MLPSACPolicy

    C = {"ac": MLPActorCriticPolicy, "q": MLPQPolicy, "sac": MLPSACPolicy}[family]
    pairs = _round_robin(_mismatch_pairs(ctx, family), ctx.n(200, 4000), ctx.rng)
    ctx.notes["pairs_generated"] = len(pairs)
    not_constructible = set()
    with _Scratch() as T:
        for i, (label, sa, ka, sb, kb) in enumerate(pairs):
            na, nb = _spec_names(sa), _spec_names(sb)
            desc = {"class": C.__name__, "pair": label, "saved": {"action": na[0], "obs": na[1], "nS": sa["nS"], **ka},
                    "load_args": {"action": nb[0], "obs": nb[1], "nS": sb["nS"], **kb}}
            ea, eb = _env(ctx.rng, sa), _env(ctx.rng, sb)
            A = B = None
            for spec, env, kw, which in ((sa, ea, ka, "A"), (sb, eb, kb, "B")):
                sig = (repr(spec["act"]), C.__name__)
                if sig in not_constructible:
                    # already reported once with its own key; the pair cannot be judged on this tree
                    ctx.monitor("mismatch_pairs_skipped_class_not_constructible")
                    break
                p = _construct(ctx, C, env, spec, kw, ctx.key(2 * i + (which == "B")), {**desc, "side": which})
                if p is None:
                    not_constructible.add(sig)
                    break
                if which == "A":
                    A = _perturb(ctx, p, "normal")
                else:
                    B = p
            if A is None or B is None:
                continue
            if _array_seq(A) == _array_seq(B):
                ctx.monitor("mismatch_pairs_excluded_same_shapes")
                continue
            path = os.path.join(T.root, f"m{i}", "pol.eqx")
            try:
                _save(A, path, {}, jit=False)
            except Exception as e:
                ctx.violation("serialize-raised-nested-suffix", {**desc, "got": _err(e)})
                continue
            # positive control: the file is good for the arguments it was saved with
            if i % 4 == 0:
                try:
                    back = C.deserialize(path, ea, key=ctx.key(7), **ka)
                    if not _compare_trees(ctx, A, back):
                        ctx.monitor("mismatch_control_roundtrips")
                    else:
                        ctx.violation(f"array-leaf-not-bit-identical-{family}", {**desc, "stage": "control"})
                except Exception as e:
                    ctx.violation(f"roundtrip-load-raised-{family}", {**desc, "stage": "control", "got": _err(e)})
                    continue
            ctx.case(desc, nontrivial=True, cls=f"mismatch/{C.__name__}/{label}")
            # the mismatched load must fail loudly through every spelling of the path that finds the file
            import pathlib

            spellings = [("suffix", path), ("no-suffix", path[:-4])]
            if i % 3 == 0:
                spellings.append(("pathlib-no-suffix", pathlib.Path(path[:-4])))
            for sp_name, sp in spellings:
                ctx.monitor("mismatch_loads_judged")
                ctx.monitor(f"mismatch_load_spelling/{sp_name}")
                try:
                    got = C.deserialize(sp, eb, key=ctx.key(8), **kb)
                except Exception as e:
                    ctx.monitor("mismatch_loads_raised")
                    ctx.monitor(f"mismatch_raised/{type(e).__name__}")
                    continue
                sA, sB = _serial_seq(A), _serial_seq(B)
                det = {**desc, "load_path_spelling": sp_name,
                       "saved_leaf_shapes": [s[1] if s[0] == "a" else s[1] for s in sA],
                       "skeleton_leaf_shapes": [s[1] if s[0] == "a" else s[1] for s in sB],
                       "got": f"an object of type {type(got).__name__}", "want": "an exception"}
                if len(sB) < len(sA):
                    # the skeleton was filled from a prefix of the file and the rest of the file was ignored
                    det["skeleton_is_exact_prefix_of_file"] = sA[:len(sB)] == sB
                    ctx.violation("deserialize-ignores-trailing-leaves", det)
                else:
                    ctx.violation(f"mismatched-load-returns-object-{family}", det)
        ctx.notes["files_left_before_cleanup"] = len(T.files())
    ctx.require("mismatch_loads_judged", ctx.n(40, 300))
    ctx.require("mismatch_control_roundtrips", 5)


# ------------------------------------------------------------------------------------------------
# path spellings in depth (leaves only: no compilation)
def u_paths(ctx):
    from lerax.policy import MLPActorCriticPolicy, MLPQPolicy, MLPSACPolicy

    classes = [
        (MLPQPolicy, dict(nS=4, act=("discrete", 3), obs="onehot"), dict(width_size=5, depth=1, epsilon=0.25)),
        (MLPActorCriticPolicy, dict(nS=3, act=("box", 2), obs="dict"),
         dict(feature_size=3, feature_width=4, value_width=4, action_width=4)),
        (MLPSACPolicy, dict(nS=5, act=("box", 1), obs="index"), dict(feature_size=4, width_size=6, depth=1)),
        (MLPActorCriticPolicy, dict(nS=3, act=("multibinary", 2), obs="onehot"),
         dict(feature_size=2, feature_width=3, value_width=3, action_width=3, feature_depth=1)),
    ]
    reps = ctx.n(1, 6)
    idx = 0
    with _Scratch() as T:
        # 1. every spelling x every class
        for rep in range(reps):
            for sp in SPELLINGS:
                for C, spec, kw in classes:
                    idx += 1
                    _roundtrip(ctx, T, C, {**spec, "nS": spec["nS"] + rep}, kw, idx, sp, outputs=False,
                               perturb="special" if rep % 2 else "normal")

        def mk(C, spec, kw, k):
            env = _env(ctx.rng, spec)
            return env, _perturb(ctx, C(env, key=ctx.key(k), **kw), "normal")

        def load(C, env, kw, path):
            return C.deserialize(path, env, key=ctx.key(99), **kw)

        def same(a, b):
            return not _compare_trees(ctx, a, b)

        # 2. dotted file names, same spelling for save and load
        dotted = ["model.v1", "ppo_lr0.001", "pol.ckpt.v2", "run.2024.best", "model.v1.eqx", ".hidden"]
        for rep in range(reps):
            for name in dotted:
                for C, spec, kw in classes[:2]:
                    idx += 1
                    env, pol = mk(C, spec, kw, idx)
                    d = os.path.join(T.root, f"dot{idx}")
                    path = os.path.join(d, name)
                    desc = {"class": C.__name__, "spelling": "dotted", "name": name, "rep": rep}
                    ctx.case(desc, nontrivial=True, cls="paths/dotted-name")
                    ctx.monitor("dotted_name_roundtrips")
                    try:
                        _save(pol, path, {}, jit=False)
                        files = sorted(os.listdir(d)) if os.path.isdir(d) else []
                    except Exception as e:
                        ctx.violation("serialize-raised-dotted", {**desc, "got": _err(e)})
                        continue
                    try:
                        back = load(C, env, kw, path)
                    except Exception as e:
                        ctx.violation("dotted-name-suffix-replaced",
                                      {**desc, "saved_to": path, "files_on_disk": files,
                                       "got": "deserialize(same path) -> " + _err(e), "want": "the saved policy"})
                        continue
                    if same(pol, back):
                        ctx.monitor("dotted_name_roundtrips_restored")
                    else:
                        ctx.violation("dotted-name-load-wrong-parameters", {**desc, "files_on_disk": files})

        # 3. two different names in one directory must not overwrite each other
        pairs = [("a", "b", "plain"), ("a.eqx", "b", "plain"), ("pol", "pol2.eqx", "plain"),
                 ("m.v1", "m.v2", "dotted"), ("run0.5", "run0.25", "dotted"), ("x.eqx", "x.old", "dotted")]
        for rep in range(reps):
            for n1, n2, kind in pairs:
                C, spec, kw = classes[(idx + rep) % 2]
                idx += 1
                env, p1 = mk(C, spec, kw, idx)
                _, p2 = mk(C, spec, kw, idx + 10_000)
                d = os.path.join(T.root, f"two{idx}", "sub")
                desc = {"class": C.__name__, "first": n1, "second": n2, "rep": rep}
                ctx.case(desc, nontrivial=True, cls=f"paths/two-names-{kind}")
                ctx.monitor("two_name_cases")
                try:
                    _save(p1, os.path.join(d, n1), {}, jit=False)
                    _save(p2, os.path.join(d, n2), {}, jit=False)
                    files = sorted(os.listdir(d))
                except Exception as e:
                    ctx.violation("serialize-raised-two-names", {**desc, "got": _err(e)})
                    continue
                key = "dotted-name-suffix-replaced" if kind == "dotted" else "distinct-paths-clobber-each-other"
                try:
                    b1 = load(C, env, kw, os.path.join(d, n1))
                except Exception as e:
                    ctx.violation(key, {**desc, "files_on_disk": files, "got": f"load({n1}) -> " + _err(e),
                                        "want": "two files, each restoring its own policy"})
                    continue
                if same(p1, b1):
                    ctx.monitor("two_name_first_survived")
                else:
                    ctx.violation(key, {**desc, "files_on_disk": files,
                                        "got": f"load({n1}) returned other parameters"
                                               + (" (those saved under the second name)" if same(p2, b1) else ""),
                                        "want": "the parameters saved under the first name"})

        # 4. saving again to the same path replaces the content
        for rep in range(ctx.n(3, 12)):
            C, spec, kw = classes[rep % len(classes)]
            idx += 1
            env, p1 = mk(C, spec, kw, idx)
            _, p2 = mk(C, spec, kw, idx + 20_000)
            sp = SPELLINGS[(rep * 3) % (len(SPELLINGS) - 1)]
            path, skw = _spell(T.root, sp, f"ow{idx}")
            desc = {"class": C.__name__, "spelling": sp, "rep": rep, "what": "overwrite"}
            ctx.case(desc, nontrivial=True, cls="paths/overwrite")
            try:
                _save(p1, path, skw, jit=False)
                _save(p2, path, skw, jit=False)
                back = load(C, env, kw, path)
            except Exception as e:
                ctx.violation("overwrite-raised", {**desc, "got": _err(e)})
                continue
            ctx.monitor("overwrite_cases")
            if not same(p2, back):
                ctx.violation("overwrite-keeps-stale-file", {**desc, "stale": same(p1, back)})

        # 4b. the same for dotted names in a directory the first save has to create (the second save finds it)
        for rep in range(reps):
            for name in dotted:
                C, spec, kw = classes[(idx + rep) % len(classes)]
                idx += 1
                env, p1 = mk(C, spec, kw, idx)
                _, p2 = mk(C, spec, kw, idx + 30_000)
                d = os.path.join(T.root, f"owd{idx}", "new", "dir")
                path = os.path.join(d, name)
                desc = {"class": C.__name__, "spelling": "dotted-new-dir", "name": name, "rep": rep, "what": "overwrite"}
                ctx.case(desc, nontrivial=True, cls="paths/overwrite-dotted")
                try:
                    _save(p1, path, {}, jit=False)
                    files1 = sorted(os.listdir(d))
                    _save(p2, path, {}, jit=False)
                    files2 = sorted(os.listdir(d))
                    back = load(C, env, kw, path)
                except Exception as e:
                    ctx.violation("overwrite-raised", {**desc, "got": _err(e)})
                    continue
                ctx.monitor("overwrite_cases")
                ctx.monitor("overwrite_dotted_new_dir_cases")
                if not same(p2, back):
                    ctx.violation("overwrite-keeps-stale-file", {**desc, "stale": same(p1, back), "files_after_first_save": files1,
                                                                 "files_after_second_save": files2})

        # 4c. the same file reached through two spellings: load through one, overwrite through the other, load again
        for rep in range(ctx.n(2, 8)):
            C, spec, kw = classes[rep % len(classes)]
            idx += 1
            env, p1 = mk(C, spec, kw, idx)
            _, p2 = mk(C, spec, kw, idx + 40_000)
            rel = os.path.join(f"xs{idx}", "ckpt", "latest")          # relative to the scratch cwd
            absolute = os.path.join(T.root, rel)
            dotted = os.path.join(T.root, f"xs{idx}", "ckpt", "..", "ckpt", "latest")
            pairs_ = [(rel, absolute), (absolute, rel), (rel, absolute + ".eqx"), (dotted, absolute)][rep % 4]
            save_sp, load_sp = pairs_
            desc = {"class": C.__name__, "save_spelling": save_sp.replace(T.root, "<root>"), "load_spelling": load_sp.replace(T.root, "<root>"),
                    "rep": rep, "what": "overwrite-through-another-spelling"}
            ctx.case(desc, nontrivial=True, cls="paths/overwrite-cross-spelling")
            try:
                _save(p1, save_sp, {}, jit=False)
                first = load(C, env, kw, load_sp)
                _save(p2, save_sp, {}, jit=False)
                back = load(C, env, kw, load_sp)
            except Exception as e:
                ctx.violation("overwrite-raised", {**desc, "got": _err(e)})
                continue
            ctx.monitor("overwrite_cross_spelling_cases")
            if not same(p1, first):
                ctx.violation("overwrite-keeps-stale-file", {**desc, "stage": "first load"})
            elif not same(p2, back):
                ctx.violation("overwrite-keeps-stale-file", {**desc, "stale": same(p1, back), "stage": "load after the second save"})

        # 5. observations only: other spelling at load time
        obs = {}
        C, spec, kw = classes[0]
        env, pol = mk(C, spec, kw, 77)
        for sname, lname in (("cross1", "cross1.eqx"), ("cross2.eqx", "cross2")):
            try:
                _save(pol, os.path.join(T.root, sname), {}, jit=False)
                obs[f"save {sname} load {lname}"] = "restored" if same(pol, load(C, env, kw, os.path.join(T.root, lname))) \
                    else "different parameters"
            except Exception as e:
                obs[f"save {sname} load {lname}"] = _err(e)[:120]
        ctx.notes["cross_spelling_observations"] = obs
        ctx.notes["files_left_before_cleanup"] = len(T.files())
    ctx.require("roundtrips_loaded", 20)
    ctx.require("roundtrips_distinguishable_from_fresh_init", 20)
    ctx.require("dotted_name_roundtrips", 4)
    ctx.require("two_name_cases", 4)
    ctx.require("overwrite_cases", 2)
    ctx.require("overwrite_dotted_new_dir_cases", 4)
    ctx.require("overwrite_cross_spelling_cases", 2)
    for sp in SPELLINGS:
        ctx.require(f"spelling/{sp}", 1)


def run_unit(name, ctx):
    cwd = os.getcwd()
    if name.startswith("mismatch_"):
        _mismatch_unit(ctx, name.split("_", 1)[1])
    else:
        {"ac": u_ac, "ac_spaces": u_ac_spaces, "q": u_q, "sac": u_sac, "paths": u_paths}[name](ctx)
    ctx.notes["scratch_dirs_removed"] = all(not os.path.exists(r) for r in _ROOTS)
    ctx.notes["cwd_restored"] = os.getcwd() == cwd
