"""C14 Spaces: exact membership, member samples, coherent equality."""

from __future__ import annotations

from collections import OrderedDict

import numpy as np

RULE = ("a space MODEL (plain dict) is generated first (six kinds, shapes () .. 3-D, bounds finite / half-infinite / "
        "infinite / degenerate / +-float32-max / signed zero, nesting depth <= 3, unsorted Dict keys) and the real "
        "lerax space is built from it through the public constructors; cases = (space, candidate, representation) "
        "for contains, (space, key[, mask]) for sample, (space) for canonical, (space, value pair) for "
        "flatten_sample, (space pair, relation) for == / hash, (space) for the Gymnasium round trip; every verdict "
        "comes from the pure NumPy membership / structure model in vlib/c14_helpers.py; non-trivial = the candidate "
        "is not a plain interior member (boundary, just-outside, malformed, foreign), the sampled space has a mask / "
        "non-finite or extreme bound / nesting / n-D shape, the pair is not an identity pair; distinct by "
        "(space repr, class, representation, value)")
FLOOR = {"quick": 10000, "thorough": 100000}
ASSUMPTIONS = [
    "x64 disabled: Box bounds are the float32 rounding of the constructor arguments; candidates are float32-representable",
    "subnormal float32 values are excluded (XLA CPU flushes them to zero, comparison outcome is platform-defined)",
    ("not asserted either way (only 'answers with a scalar boolean, does not raise'): plain dict / reordered keys for a "
    "Dict space, list for a Tuple space, Python lists for array spaces, in-bounds int/bool/float64 arrays for Box, "
    "integral-valued floats and bools for Discrete/MultiDiscrete, 0.0/1.0 floats for MultiBinary, +-inf sitting on an "
     "infinite Box bound, complex numbers with zero imaginary part"),
    "values produced by sample()/canonical() must be finite numbers inside the inclusive bounds (a space of reals)",
    ("Discrete n <= 2**31-1 (members must be representable as int32); empty masks are excluded; sampling is exercised "
     "for n <= 2**24+3 only (lerax materialises n probabilities: cost, not correctness)"),
    ("contains is exercised eagerly only (behaviour under jit/vmap is C12's subject); sample is exercised eagerly, "
     "under vmap over keys and under jit"),
    "Dict == with permuted key order is not asserted; Box(-0.0) vs Box(0.0) equality is not asserted, only that == implies equal hashes",
    "Gymnasium 1.3.0 spaces (==, key ordering) are the reference for the round trip",
]


def units(tier):
    t = 900 if tier == "quick" else 3000
    return [{"name": n, "timeout": t} for n in
            ("contains_discrete", "contains_box", "contains_multi", "contains_nested", "sample_leaf",
             "sample_nested", "mask", "flatten", "equality", "gym")]


# ---------------------------------------------------------------------------------- running contains
class Foreign:
    """An arbitrary user object."""

    def __repr__(self):
        return "Foreign()"


def _foreign_values():
    return [("none", None), ("str", "a"), ("str-digit", "1"), ("bytes", b"1"), ("object", Foreign()),
            ("dict", {"a": 1}), ("set", {1}), ("ellipsis", Ellipsis), ("function", len), ("type", int),
            ("ragged-tuple", (np.zeros(3, np.float32), np.zeros(2, np.float32))),
            ("ordereddict-of-arrays", OrderedDict(a=np.zeros(2, np.float32), b=np.zeros((), np.int32)))]


def call_contains(space, x):
    try:
        r = space.contains(x)
    except Exception as e:  # noqa: BLE001
        return ("raised", f"{type(e).__name__}: {str(e)[:120]}")
    if isinstance(r, (bool, np.bool_)):
        return ("ok", bool(r))
    if hasattr(r, "shape") and hasattr(r, "dtype"):
        if tuple(r.shape) != ():
            return ("nonscalar", f"shape {tuple(r.shape)}")
        if r.dtype != np.bool_:
            return ("notbool", str(r.dtype))
        return ("ok", bool(r))
    return ("notbool", type(r).__name__)


GENERIC_CLS = ("foreign-type", "huge-int", "int64-overflow")


def contains_key(kind, state, cls, expected):
    from vlib.c14_helpers import LEAF

    generic = cls in GENERIC_CLS and kind in LEAF  # decided in the shared try_cast, not per kind
    prefix = "" if generic else kind + "-"
    if state == "raised":
        return f"{prefix}contains-raises-on-{cls}"
    if state == "nonscalar":
        return f"{kind}-contains-nonscalar"
    if state == "notbool":
        return f"{kind}-contains-not-boolean"
    return f"{prefix}contains-{'accepts' if expected is False else 'rejects'}-{cls}"


def judge_contains(ctx, m, space, x, cls, rep, nontrivial=True, attribute=None, kind=None):
    """Run the real contains on x and compare with the model.  Returns the violation key or None.
    kind = kind of the (inner) node the candidate was mutated at, when it is not the root."""
    from vlib.c14_helpers import member, mrepr, xdesc

    expected = member(m, x)
    state, got = call_contains(space, x)
    ctx.case({"sp": mrepr(m), "cls": cls, "rep": rep, "x": xdesc(x)}, nontrivial=nontrivial,
             cls=f"contains/{m['k']}/{cls}")
    ctx.monitor("contains_scalar_bool_checked")
    key = None
    kind = kind or m["k"]
    if state != "ok":
        key = contains_key(kind, state, cls, expected)
    elif expected is None:
        ctx.monitor("contains_ambiguous_not_asserted")
    else:
        ctx.monitor("contains_verdicts_compared")
        ctx.monitor("contains_member_candidates" if expected else "contains_nonmember_candidates")
        if got != expected:
            key = contains_key(kind, state, cls, expected)
    if key is not None:
        if attribute is not None:
            sub = attribute(x)
            if sub is not None:
                ctx.monitor("container_failures_attributed_to_leaf")
                key = sub
        ctx.violation(key, {"space": mrepr(m), "candidate": xdesc(x), "class": cls, "rep": rep,
                            "got": f"{state}: {got}", "want": expected})
    return key


def reps(x, jnp_ok=True, py_ok=True):
    """Representations of a numpy candidate: numpy, jax array, python scalar (0-d only)."""
    from jax import numpy as jnp

    out = [("np", x)]
    a = np.asarray(x)
    if jnp_ok:
        try:
            out.append(("jnp", jnp.asarray(a)))
        except Exception:  # noqa: BLE001
            pass
    if py_ok and a.shape == () and a.dtype.kind in "iuf" and not (a.dtype.kind in "iu" and abs(int(a)) >= 2**31):
        out.append(("py", a.item()))
    return out


def wrong_shapes(rng, a):
    """Same values, other shapes (never equal to a.shape)."""
    a = np.asarray(a)
    out = [a[..., None], a[None, ...]]
    if a.ndim >= 2:
        out.append(a.ravel())
        if a.shape != a.T.shape:
            out.append(a.T)
    if a.ndim == 1:
        out.append(np.concatenate([a, a[:1]]))
        if a.shape[0] > 1:
            out.append(a[:-1])
        out.append(a[0])
        if a.shape[0] == 1:
            out.append(np.broadcast_to(a, (3,)).copy())
    if a.ndim == 0:
        out.append(np.stack([a, a]))
    out.append(np.zeros((0,), a.dtype))
    return [o for o in out if o.shape != a.shape]


def _foreign_cases(ctx, m, space):
    for name, v in _foreign_values():
        judge_contains(ctx, m, space, v, "foreign-type", name)
    judge_contains(ctx, m, space, space, "foreign-type", "space-itself")


# ---------------------------------------------------------------------------------- leaf candidates
def cands_discrete(rng, m, k):
    n = m["n"]
    from vlib.c14_helpers import INT32MAX

    out = []
    vals = {0, n - 1, n // 2} | {int(v) for v in rng.integers(0, n, k)}
    for v in sorted(vals):
        cls = "member-boundary" if v in (0, n - 1) else "member-interior"
        for dt in (np.int64, np.int32):
            out.append((cls, np.asarray(v, dt)))
        # narrow integer dtypes: a member whatever n is; own class when n exceeds the dtype's range
        for dt in (np.int8, np.uint8, np.int16):
            if v <= np.iinfo(dt).max:
                out.append((cls if n <= np.iinfo(dt).max else "member-narrow-dtype", np.asarray(v, dt)))
        if v < 2**24:
            out.append(("ambiguous-float-integral", np.asarray(v, np.float32)))
    big = [n, n + 1, 2 * n, n + int(rng.integers(1, 1000)), INT32MAX]
    for v in big:
        if n <= v <= INT32MAX:
            out.append(("too-large", np.asarray(v, np.int64)))
            out.append(("too-large", np.asarray(v, np.int32)))
    if n < 2**24:
        out.append(("too-large", np.asarray(n, np.float32)))
        out.append(("too-large", np.asarray(n + 0.5, np.float32)))
    out.append(("too-large", np.asarray(np.inf, np.float32)))
    out.append(("too-large", np.asarray(1e10, np.float32)))
    out.append(("too-large", np.asarray(2**32 - 1, np.uint32)))
    for v in (-1, -2, -n, -int(rng.integers(1, 10**6)), -2**31):
        out.append(("negative", np.asarray(v, np.int64)))
        out.append(("negative", np.asarray(v, np.int32)))
    out.append(("negative", np.asarray(-1, np.int8)))
    for v in (-1.0, -0.5, -np.inf, -1e-30, -3e38):
        out.append(("negative", np.asarray(v, np.float32)))
    for v in [0.5, 0.25, n - 0.5, 1e-30, float(rng.uniform(0, min(n, 1000)))] + [i + 0.5 for i in rng.integers(0, min(n, 2**20), 3)]:
        f = np.float32(v)
        if f != np.floor(f) and 0 < f < n:
            out.append(("non-integral", np.asarray(f, np.float32)))
    out.append(("nan", np.asarray(np.nan, np.float32)))
    out.append(("nan", np.asarray(np.nan, np.float64)))
    # half-precision candidates (two-byte floats, as narrow as int16)
    import ml_dtypes

    for hd in (np.float16, ml_dtypes.bfloat16):
        out.append(("nan", np.asarray(np.nan, hd)))
        out.append(("negative", np.asarray(-0.5, hd)))
        out.append(("negative", np.asarray(-1.0, hd)))
        if n > 1:
            out.append(("non-integral", np.asarray(0.5, hd)))
        if n > 3:
            out.append(("non-integral", np.asarray(2.5, hd)))
        if n <= 256:
            out.append(("too-large", np.asarray(float(n), hd)))
    out.append(("ambiguous-bool", np.asarray(True)))
    out.append(("ambiguous-bool", np.asarray(False)))
    return out


def run_discrete(ctx, m, space, k):
    from vlib.c14_helpers import gen_member

    for cls, a in cands_discrete(ctx.rng, m, k):
        for rep, x in reps(a):
            judge_contains(ctx, m, space, x, cls, rep, nontrivial=cls != "member-interior")
    if ctx.rng.random() < 0.5:
        judge_contains(ctx, m, space, True, "ambiguous-bool", "py")
    v = gen_member(ctx.rng, m)
    for w in wrong_shapes(ctx.rng, v):
        for rep, x in reps(w, py_ok=False):
            judge_contains(ctx, m, space, x, "wrong-shape", rep)
    judge_contains(ctx, m, space, [int(v)], "wrong-shape", "list")
    judge_contains(ctx, m, space, (), "wrong-shape", "empty-tuple")
    _foreign_cases(ctx, m, space)
    for c in (1 + 2j, np.complex64(0.5 + 1j), np.asarray(int(v) + 1j)):
        judge_contains(ctx, m, space, c, "complex", type(c).__name__)
    for h in (2**40, -2**40, 2**70, 2**31, -2**31 - 1, 2**32 + int(v)):
        judge_contains(ctx, m, space, h, "huge-int", "py")
    for h in (2**32 + int(v), 2**40, -2**32 + int(v) if v > 0 else 2**33, 2**63 - 1, -2**63, -2**63 + 1):
        judge_contains(ctx, m, space, np.int64(h), "int64-overflow", "np-scalar")
        judge_contains(ctx, m, space, np.asarray(h, np.int64), "int64-overflow", "np")
    judge_contains(ctx, m, space, np.asarray(2**32 + int(v), np.uint64), "int64-overflow", "np-uint64")


def u_contains_discrete(ctx):
    from vlib.c14_helpers import build, gen_discrete

    fixed = [1, 2, 3, 5, 17, 256, 1000, 65536, 2**24 + 3, 2**31 - 1]
    N = ctx.n(24, 150)
    for i in range(N):
        m = {"k": "discrete", "n": fixed[i]} if i < len(fixed) else gen_discrete(ctx.rng, big=True)
        space = build(m)
        run_discrete(ctx, m, space, ctx.n(4, 8))
        ctx.monitor("spaces_built")
    ctx.require("contains_member_candidates", 200)
    ctx.require("contains_nonmember_candidates", 500)


def cands_box(rng, m, k):
    """(cls, float32 ndarray) candidates for a Box model."""
    from vlib.c14_helpers import F32TINY, gen_member

    lo, hi = m["low"], m["high"]
    shape = lo.shape
    size = lo.size
    out = []
    for _ in range(k):
        out.append(("member-interior", gen_member(rng, m, "random")))
    out.append(("member-boundary", gen_member(rng, m, "low")))
    out.append(("member-boundary", gen_member(rng, m, "high")))
    for _ in range(max(1, k // 2)):
        out.append(("member-boundary", gen_member(rng, m, "mixed")))

    def with_elem(base, i, v):
        x = np.array(base, dtype=np.float32).reshape(-1).copy()
        x[i] = v
        return x.reshape(shape)

    def nxt(v, direction):
        with np.errstate(all="ignore"):
            w = np.nextafter(np.float32(v), np.float32(direction))
            if w != 0 and abs(w) < F32TINY:  # skip the subnormal range
                w = np.float32(-F32TINY if direction < 0 else F32TINY)
                if not (w < v if direction < 0 else w > v):
                    w = np.float32(0.0) if (0.0 < v if direction < 0 else 0.0 > v) else w
            return w

    idx = list(rng.permutation(size)[: max(1, min(size, k))])
    for i in idx:
        l, h = lo.ravel()[i], hi.ravel()[i]
        base = gen_member(rng, m, ["random", "low", "high"][int(rng.integers(3))])
        if np.isfinite(l):
            out.append(("just-below-low", with_elem(base, i, nxt(l, -np.inf))))
            with np.errstate(all="ignore"):
                out.append(("far-below-low", with_elem(base, i, np.float32(l) - np.float32(1) - np.abs(np.float32(l)))))
            out.append(("neg-inf-vs-finite-low", with_elem(base, i, -np.inf)))
        else:
            out.append(("ambiguous-inf-on-inf-bound", with_elem(base, i, -np.inf)))
        if np.isfinite(h):
            out.append(("just-above-high", with_elem(base, i, nxt(h, np.inf))))
            with np.errstate(all="ignore"):
                out.append(("far-above-high", with_elem(base, i, np.float32(h) + np.float32(1) + np.abs(np.float32(h)))))
            out.append(("pos-inf-vs-finite-high", with_elem(base, i, np.inf)))
        else:
            out.append(("ambiguous-inf-on-inf-bound", with_elem(base, i, np.inf)))
        out.append(("nan", with_elem(base, i, np.nan)))
    out.append(("nan", np.full(shape, np.nan, np.float32)))
    return out


def run_box(ctx, m, space, k):
    from vlib.c14_helpers import gen_member

    rng = ctx.rng
    lo, hi = m["low"], m["high"]
    for cls, a in cands_box(rng, m, k):
        for rep, x in reps(a):
            judge_contains(ctx, m, space, x, cls, rep, nontrivial=cls != "member-interior")
        if a.shape == ():
            judge_contains(ctx, m, space, np.float32(a), cls, "np-scalar", nontrivial=cls != "member-interior")
    v = gen_member(rng, m)
    for w in wrong_shapes(rng, v):
        for rep, x in reps(w, py_ok=False):
            judge_contains(ctx, m, space, x, "wrong-shape", rep)
    # other dtypes: asserted only when out of bounds (or ambiguous when inside)
    with np.errstate(all="ignore"):
        iv = np.clip(np.nan_to_num(np.ceil(lo.astype(np.float64)), neginf=-3, posinf=3), -2**30, 2**30).astype(np.int64)
    judge_contains(ctx, m, space, iv, "int-dtype-value", "np-int64")
    judge_contains(ctx, m, space, iv.astype(np.int32), "int-dtype-value", "np-int32")
    fin_hi = np.isfinite(hi) & (np.abs(hi) < 2**30)
    if fin_hi.any():
        i = int(np.argmax(fin_hi.ravel()))
        bad = iv.ravel().copy()
        bad[i] = int(np.floor(float(hi.ravel()[i]))) + 1 + int(rng.integers(0, 5))
        judge_contains(ctx, m, space, bad.reshape(lo.shape), "int-above-high", "np-int64")
        if (hi.ravel()[i] < 2**31) and (lo.ravel() <= 0).all() and (hi.ravel() >= 0).all():
            for big in (2**32, -2**63, 2**63 - 1):
                ov = np.zeros(lo.size, np.int64)
                ov[i] = big
                judge_contains(ctx, m, space, ov.reshape(lo.shape), "int64-overflow", "np")
    judge_contains(ctx, m, space, v.astype(np.float64), "ambiguous-float64", "np")
    judge_contains(ctx, m, space, v.tolist(), "ambiguous-python-list", "list")
    _foreign_cases(ctx, m, space)
    judge_contains(ctx, m, space, OrderedDict(a=v), "foreign-type", "ordereddict-of-array")
    c = v.astype(np.complex64) + np.complex64(1j)
    judge_contains(ctx, m, space, c, "complex", "np")
    if lo.shape == ():
        if np.isfinite(hi):
            judge_contains(ctx, m, space, 2**40 if hi < 2**40 else 2**200, "huge-int", "py")
        if np.isfinite(lo):
            judge_contains(ctx, m, space, -2**40 if lo > -2**40 else -2**200, "huge-int", "py")


def u_contains_box(ctx):
    from vlib.c14_helpers import BOX_CLASSES, BOX_SHAPES, build, gen_box

    N = ctx.n(70, 500)
    combos = [(s, c) for c in sorted(set(BOX_CLASSES)) for s in BOX_SHAPES]
    order = ctx.rng.permutation(len(combos))
    for i in range(N):
        s, c = combos[order[i % len(combos)]]
        m = gen_box(ctx.rng, shape=s, cls=c)
        try:
            space = build(m, variant=i)
        except Exception as e:  # noqa: BLE001
            ctx.violation("box-construction-raises", {"model": str(m), "err": repr(e)[:200]})
            continue
        run_box(ctx, m, space, ctx.n(3, 5))
        ctx.monitor("spaces_built")
        ctx.monitor(f"box_class_{c}")
    ctx.require("contains_member_candidates", 300)
    ctx.require("contains_nonmember_candidates", 800)


def run_multibinary(ctx, m, space, k):
    from vlib.c14_helpers import gen_member

    rng = ctx.rng
    shape = m["shape"]
    size = int(np.prod(shape))
    mem = [("member-boundary", gen_member(rng, m, "low")), ("member-boundary", gen_member(rng, m, "high"))]
    mem += [("member-random", gen_member(rng, m)) for _ in range(k)]
    for cls, b in mem:
        for dt in (bool, np.int8, np.int32, np.uint8, np.int64):
            for rep, x in reps(b.astype(dt), py_ok=False):
                judge_contains(ctx, m, space, x, cls, f"{rep}-{np.dtype(dt).name}")
        judge_contains(ctx, m, space, b.astype(np.float32), "ambiguous-float-01", "np")
    for _ in range(k):
        base = gen_member(rng, m).astype(np.int32)
        i = int(rng.integers(size))

        def w(v, dt):
            x = base.astype(dt).ravel().copy()
            x[i] = v
            return x.reshape(shape)
        for rep, x in reps(w(2, np.int32), py_ok=False):
            judge_contains(ctx, m, space, x, "value-two", rep)
        for rep, x in reps(w(int(rng.integers(3, 100)), np.int64), py_ok=False):
            judge_contains(ctx, m, space, x, "too-large", rep)
        for rep, x in reps(w(-1, np.int32), py_ok=False):
            judge_contains(ctx, m, space, x, "negative", rep)
        for rep, x in reps(w(0.5, np.float32), py_ok=False):
            judge_contains(ctx, m, space, x, "non-integral", rep)
        for rep, x in reps(w(np.nan, np.float32), py_ok=False):
            judge_contains(ctx, m, space, x, "nan", rep)
        for rep, x in reps(w(np.nan, np.float16), py_ok=False):
            judge_contains(ctx, m, space, x, "nan", rep + "-float16")
        for rep, x in reps(w(0.5, np.float16), py_ok=False):
            judge_contains(ctx, m, space, x, "non-integral", rep + "-float16")
        for rep, x in reps(w(-0.5, np.float16), py_ok=False):
            judge_contains(ctx, m, space, x, "negative", rep + "-float16")
        for rep, x in reps(w(np.inf, np.float32), py_ok=False):
            judge_contains(ctx, m, space, x, "too-large", rep + "-inf")
        for big in (2**32 + int(base.ravel()[i]), -2**63, 2**63 - 1):
            ov = base.astype(np.int64).ravel().copy()
            ov[i] = big
            judge_contains(ctx, m, space, ov.reshape(shape), "int64-overflow", "np")
        for vv in (2**32 - 1, 2**31, 2**31 + 1):
            for rep, x in reps(w(vv, np.uint32), py_ok=False):
                judge_contains(ctx, m, space, x, "too-large", rep + "-uint32")
    v = gen_member(rng, m).astype(np.int8)
    for wv in wrong_shapes(rng, v):
        for rep, x in reps(wv, py_ok=False):
            judge_contains(ctx, m, space, x, "wrong-shape", rep)
    if size == 1:
        judge_contains(ctx, m, space, 1, "wrong-shape", "py-scalar")
    _foreign_cases(ctx, m, space)
    judge_contains(ctx, m, space, v.astype(np.complex64) + np.complex64(2j), "complex", "np")


def run_multidiscrete(ctx, m, space, k):
    from vlib.c14_helpers import gen_member

    rng = ctx.rng
    nv = np.asarray(m["nvec"], np.int64)
    L = len(nv)
    mem = [("member-boundary", gen_member(rng, m, "low")), ("member-boundary", gen_member(rng, m, "high"))]
    mem += [("member-random", gen_member(rng, m)) for _ in range(k)]
    for cls, b in mem:
        for dt in (np.int64, np.int32, np.int16, np.uint8 if nv.max() <= 256 else np.uint32):
            for rep, x in reps(b.astype(dt), py_ok=False):
                judge_contains(ctx, m, space, x, cls, f"{rep}-{np.dtype(dt).name}")
        judge_contains(ctx, m, space, b.astype(np.float32), "ambiguous-float-integral", "np")
        judge_contains(ctx, m, space, b.tolist(), "ambiguous-python-list", "list")
    judge_contains(ctx, m, space, np.zeros(L, bool), "ambiguous-bool", "np")
    for _ in range(k):
        base = gen_member(rng, m).astype(np.int64)
        i = int(rng.integers(L))

        def w(v, dt=np.int64):
            x = base.astype(dt).copy()
            x[i] = v
            return x
        for v in (nv[i], nv[i] + int(rng.integers(1, 50)), 2**31 - 1):
            for rep, x in reps(w(v), py_ok=False):
                judge_contains(ctx, m, space, x, "too-large", rep)
        for rep, x in reps(w(np.inf, np.float32), py_ok=False):
            judge_contains(ctx, m, space, x, "too-large", rep + "-inf")
        for v in (-1, -int(nv[i]), -int(rng.integers(2, 10**6))):
            for rep, x in reps(w(v), py_ok=False):
                judge_contains(ctx, m, space, x, "negative", rep)
        for v in (-1.0, -np.inf):
            for rep, x in reps(w(v, np.float32), py_ok=False):
                judge_contains(ctx, m, space, x, "negative", rep + "-float")
        if nv[i] > 1:
            for rep, x in reps(w(float(rng.integers(0, nv[i] - 1)) + 0.5, np.float32), py_ok=False):
                judge_contains(ctx, m, space, x, "non-integral", rep)
        for rep, x in reps(w(0.25, np.float32), py_ok=False):
            judge_contains(ctx, m, space, x, "non-integral", rep)
        for rep, x in reps(w(np.nan, np.float32), py_ok=False):
            judge_contains(ctx, m, space, x, "nan", rep)
        for rep, x in reps(w(np.nan, np.float16), py_ok=False):
            judge_contains(ctx, m, space, x, "nan", rep + "-float16")
        for rep, x in reps(w(0.5, np.float16), py_ok=False):
            judge_contains(ctx, m, space, x, "non-integral", rep + "-float16")
        for rep, x in reps(w(-0.5, np.float16), py_ok=False):
            judge_contains(ctx, m, space, x, "negative", rep + "-float16")
        for big in (2**32 + int(base[i]), -2**63, -2**63 + 1, 2**63 - 1):
            judge_contains(ctx, m, space, w(big), "int64-overflow", "np")
        # unsigned values above the int32 range: reinterpreted as int32 they would be small negative / member indices
        for v in (2**32 - 1, 2**32 - int(nv[i]), 2**31, 2**31 + int(base[i])):
            for rep, x in reps(w(v, np.uint32), py_ok=False):
                judge_contains(ctx, m, space, x, "too-large", rep + "-uint32")
    if L >= 2 and len(set(m["nvec"])) > 1:
        # a value legal in another dimension, illegal in this one
        j, i = int(np.argmax(nv)), int(np.argmin(nv))
        x = np.zeros(L, np.int64)
        x[i] = nv[j] - 1
        for rep, xx in reps(x, py_ok=False):
            judge_contains(ctx, m, space, xx, "too-large", rep + "-other-dim-range")
    v = gen_member(rng, m)
    for wv in wrong_shapes(rng, v):
        for rep, x in reps(wv, py_ok=False):
            judge_contains(ctx, m, space, x, "wrong-shape", rep)
    _foreign_cases(ctx, m, space)
    judge_contains(ctx, m, space, v.astype(np.complex64) + np.complex64(2j), "complex", "np")


def u_contains_multi(ctx):
    from vlib.c14_helpers import MB_SHAPES, build, gen_multibinary, gen_multidiscrete

    N = ctx.n(20, 120)
    for i in range(N):
        m = {"k": "multibinary", "shape": MB_SHAPES[i]} if i < len(MB_SHAPES) else gen_multibinary(ctx.rng)
        run_multibinary(ctx, m, build(m, variant=i), ctx.n(2, 4))
        ctx.monitor("spaces_built")
        ctx.monitor("multibinary_nd_spaces" if len(m["shape"]) > 1 else "multibinary_1d_spaces")
    for i in range(N):
        m = gen_multidiscrete(ctx.rng)
        run_multidiscrete(ctx, m, build(m), ctx.n(2, 4))
        ctx.monitor("spaces_built")
    ctx.require("contains_member_candidates", 300)
    ctx.require("contains_nonmember_candidates", 800)
    ctx.require("multibinary_nd_spaces", 3)


# ---------------------------------------------------------------------------------- nested contains
def bad_leaf(rng, lm):
    """(cls, value) clear non-members of a leaf model (numpy level)."""
    from vlib.c14_helpers import gen_member

    k = lm["k"]
    v = gen_member(rng, lm)
    out = [("foreign-type", None), ("wrong-shape", np.asarray(v)[None, ...]), ("foreign-type", "x")]
    if k == "discrete":
        out += [("negative", np.asarray(-1, np.int32)), ("too-large", np.asarray(lm["n"], np.int32)),
                ("non-integral", np.asarray(0.5, np.float32)), ("nan", np.asarray(np.nan, np.float32))]
    elif k == "box":
        out += [(c, a) for c, a in cands_box(rng, lm, 1)
                if c in ("just-below-low", "just-above-high", "far-above-high", "nan", "pos-inf-vs-finite-high")]
    elif k == "multibinary":
        a = np.asarray(v).astype(np.int32)
        i = int(rng.integers(a.size))
        for c, val in (("value-two", 2), ("negative", -1)):
            b = a.ravel().copy()
            b[i] = val
            out.append((c, b.reshape(a.shape)))
    else:
        a = np.asarray(v).astype(np.int64)
        i = int(rng.integers(a.size))
        for c, val in (("negative", -1), ("too-large", lm["nvec"][i])):
            b = a.copy()
            b[i] = val
            out.append((c, b))
        b = a.astype(np.float32)
        b[i] = 0.5
        out.append(("non-integral", b))
    return out


def to_jnp(x):
    from jax import numpy as jnp

    if isinstance(x, OrderedDict):
        return OrderedDict((k, to_jnp(v)) for k, v in x.items())
    if isinstance(x, dict):
        return {k: to_jnp(v) for k, v in x.items()}
    if isinstance(x, tuple):
        return tuple(to_jnp(v) for v in x)
    if isinstance(x, list):
        return [to_jnp(v) for v in x]
    if isinstance(x, np.ndarray):
        return jnp.asarray(x)
    return x


def make_attr(m, space, mutated_path=None, mutated_cls=None):
    """Attribution only (not an oracle): when a container verdict is wrong, look whether one of its
    leaves misjudges its own part; if so the finding belongs to that leaf's mechanism."""
    from vlib.c14_helpers import get_node, get_value, leaf_paths, member_leaf, np_view, sub_space

    def attr(x):
        for path in leaf_paths(m):
            try:
                xv = get_value(m, x, path)
                ls = sub_space(space, m, path)
            except Exception:  # noqa: BLE001
                continue
            lm = get_node(m, path)
            exp = member_leaf(lm, xv)
            st, got = call_contains(ls, xv)
            if st != "ok" or (exp is not None and got != exp):
                cls = mutated_cls if path == mutated_path else (
                    "foreign-type" if np_view(xv)[0] is None else "member-component")
                return contains_key(lm["k"], st, cls, exp)
        return None

    return attr


def run_nested(ctx, m, space, k):
    from vlib.c14_helpers import (gen_member, get_node, get_value, leaf_paths, member, node_paths,
                                  set_value)

    rng = ctx.rng
    base_attr = make_attr(m, space)
    for mode in ["low", "high"] + ["random"] * k:
        x = gen_member(rng, m, mode)
        cls = "member-assembled" if mode == "random" else "member-boundary"
        judge_contains(ctx, m, space, x, cls, "np", attribute=base_attr)
        key = judge_contains(ctx, m, space, to_jnp(x), cls, "jnp", attribute=base_attr)
        if key is None and mode != "random":
            try:
                r = x in space
                ctx.monitor("dunder_contains_checked")
                if member(m, x) is True and r is not True:
                    ctx.violation("dunder-contains-disagrees", {"space": str(space)[:200], "got": r})
            except Exception as e:  # noqa: BLE001
                ctx.violation("dunder-contains-raises", {"space": str(space)[:200], "err": repr(e)[:200]})
    # one bad component
    lps = leaf_paths(m)
    for path in [lps[int(i)] for i in rng.permutation(len(lps))[: max(2, k)]]:
        lm = get_node(m, path)
        for cls, bad in bad_leaf(rng, lm):
            x = set_value(m, gen_member(rng, m), path, bad)
            at = make_attr(m, space, path, cls)
            judge_contains(ctx, m, space, x, f"bad-component-{cls}", "np", attribute=at)
            if rng.random() < 0.3:
                judge_contains(ctx, m, space, to_jnp(x), f"bad-component-{cls}", "jnp", attribute=at)
    # structure mutations at container nodes
    cps = [p for p in node_paths(m) if get_node(m, p)["k"] in ("tuple", "dict")]
    for path in [cps[int(i)] for i in rng.permutation(len(cps))[: max(2, k)]]:
        cm = get_node(m, path)
        x0 = gen_member(rng, m)
        sub = get_value(m, x0, path)
        muts = []
        if cm["k"] == "tuple":
            muts.append(("wrong-length-long", sub + (sub[-1],)))
            muts.append(("wrong-length-short", sub[:-1]))
            muts.append(("ambiguous-list-for-tuple", list(sub)))
            muts.append(("wrong-length-list", list(sub) + [sub[0]]))
            muts.append(("ordereddict-for-tuple", OrderedDict((str(i), v) for i, v in enumerate(sub))))
            if len(sub) >= 2:
                i, j = (int(v) for v in rng.permutation(len(sub))[:2])
                sw = list(sub)
                sw[i], sw[j] = sw[j], sw[i]
                muts.append(("swapped-components", tuple(sw)))
            muts.append(("array-for-tuple", np.zeros(len(sub), np.float32)))
        else:
            keys = list(sub.keys())
            if keys:
                d = OrderedDict(sub)
                d.pop(keys[int(rng.integers(len(keys)))])
                muts.append(("missing-key", d))
                d = OrderedDict(sub)
                d["extra_key"] = sub[keys[0]]
                muts.append(("extra-key", d))
                kk = keys[int(rng.integers(len(keys)))]
                muts.append(("renamed-key", OrderedDict((("renamed_" + a) if a == kk else a, v) for a, v in sub.items())))
                muts.append(("ambiguous-plain-dict", dict(sub)))
                dd = dict(sub)
                dd.pop(keys[0])
                muts.append(("missing-key-plain-dict", dd))
                if len(keys) >= 2:
                    muts.append(("ambiguous-reordered-keys", OrderedDict((a, sub[a]) for a in reversed(keys))))
                muts.append(("tuple-for-dict", tuple(sub.values())))
                muts.append(("int-keys", OrderedDict((i, v) for i, v in enumerate(sub.values()))))
        for cls, new in muts:
            x = set_value(m, x0, path, new)
            judge_contains(ctx, m, space, x, cls, "np", attribute=base_attr, kind=cm["k"])
    # foreign objects where the whole container is expected
    for name, v in _foreign_values() + [("int", 0), ("array", np.zeros(3, np.float32)), ("space-itself", space)]:
        for path in [cps[0]] + ([cps[-1]] if len(cps) > 1 else []):
            x = set_value(m, gen_member(rng, m), path, v)
            judge_contains(ctx, m, space, x, "foreign-type", name, attribute=base_attr, kind=get_node(m, path)["k"])


def u_contains_nested(ctx):
    from vlib.c14_helpers import build, depth_of, gen_nested, has_nd_multibinary

    N = ctx.n(60, 400)
    for i in range(N):
        depth = 1 + i % 3
        nd = False if i % 4 else None  # every 4th family may contain n-D MultiBinary leaves
        m = gen_nested(ctx.rng, depth, nd_mb=nd, tame=True, root=["tuple", "dict"][i % 2])
        try:
            space = build(m, variant=i)
        except Exception as e:  # noqa: BLE001
            ctx.violation("nested-construction-raises", {"model": str(m)[:300], "err": repr(e)[:200]})
            continue
        run_nested(ctx, m, space, ctx.n(2, 3))
        ctx.monitor("spaces_built")
        ctx.monitor(f"nested_depth_{depth_of(m)}")
        if not has_nd_multibinary(m):
            ctx.monitor("nested_spaces_without_nd_multibinary")
    # the empty Dict is a legal construction whose only member is the empty OrderedDict
    m = {"k": "dict", "items": []}
    space = build(m)
    judge_contains(ctx, m, space, OrderedDict(), "member-empty-dict", "py")
    judge_contains(ctx, m, space, OrderedDict(a=np.zeros(1)), "extra-key", "py")
    judge_contains(ctx, m, space, None, "foreign-type", "none")
    ctx.require("contains_member_candidates", 100)
    ctx.require("contains_nonmember_candidates", 500)
    ctx.require("nested_spaces_without_nd_multibinary", 10)


# ---------------------------------------------------------------------------------- sample / canonical
def sample_nontrivial(m):
    from vlib.c14_helpers import box_classes

    k = m["k"]
    if k in ("tuple", "dict"):
        return True
    if k == "box":
        return box_classes(m) != ["bounded"] or m["low"].ndim != 1
    if k == "discrete":
        return m["n"] == 1 or m["n"] >= 2**24
    if k == "multibinary":
        return len(m["shape"]) > 1
    return 1 in m["nvec"] or max(m["nvec"]) > 100


def judge_produced(ctx, m, value, what, mode, desc):
    """what = sample | canonical.  value is what the real space returned."""
    from vlib.c14_helpers import mrepr, produced_problems, to_numpy, xdesc

    xn = to_numpy(value)
    ctx.case(dict(desc, sp=mrepr(m), what=what, mode=mode), nontrivial=sample_nontrivial(m),
             cls=f"{what}/{m['k']}/{mode}")
    ctx.monitor(f"{what}_judged")
    probs = produced_problems(m, xn)
    for path, kind, prob in probs[:3]:
        ctx.violation(f"{kind}-{what}-{prob}", {"space": mrepr(m), "mode": mode, "path": path, "case": desc,
                                                 "got": xn if isinstance(xn, np.ndarray) else xdesc(xn),
                                                 "low": m.get("low"), "high": m.get("high")})
    return xn, not probs


def call_sample(ctx, m, space, key, mode, **kw):
    from vlib.c14_helpers import mrepr

    try:
        if mode == "jit":
            import equinox as eqx

            return eqx.filter_jit(lambda sp, k: sp.sample(key=k, **kw))(space, key)
        return space.sample(key=key, **kw)
    except Exception as e:  # noqa: BLE001
        ctx.violation(f"{m['k']}-sample-raises", {"space": mrepr(m), "mode": mode, "err": f"{type(e).__name__}: {str(e)[:200]}"})
        return None


def run_samples(ctx, m, space, n_eager, n_vmap, jit, base):
    """Samples with fresh keys, eagerly / under vmap over keys / under jit; canonical()."""
    import jax
    from jax import random as jr
    from vlib.c14_helpers import mrepr, to_numpy

    out = []
    attr = make_attr(m, space) if m["k"] in ("tuple", "dict") else None
    for j in range(n_eager):
        v = call_sample(ctx, m, space, ctx.key(base + j), "eager")
        if v is None:
            break
        xn, ok = judge_produced(ctx, m, v, "sample", "eager", {"key": base + j})
        out.append(xn)
        if ok and j < 3:  # the space must recognise what it produced itself (judged by the model, as any candidate)
            judge_contains(ctx, m, space, v, "own-sample", "jax", attribute=attr)
    if jit:
        v = call_sample(ctx, m, space, ctx.key(base + 500), "jit")
        if v is not None:
            xn, _ = judge_produced(ctx, m, v, "sample", "jit", {"key": base + 500})
            out.append(xn)
    if n_vmap:
        try:
            keys = jr.split(ctx.key(base + 900), n_vmap)
            batch = to_numpy(jax.vmap(lambda k: space.sample(key=k))(keys))
            for j in range(n_vmap):
                xj = jax.tree.map(lambda a: a[j], batch)
                xn, _ = judge_produced(ctx, m, xj, "sample", "vmap", {"key": base + 900, "i": j})
                out.append(xn)
        except Exception as e:  # noqa: BLE001
            ctx.violation(f"{m['k']}-sample-raises", {"space": mrepr(m), "mode": "vmap", "err": f"{type(e).__name__}: {str(e)[:200]}"})
    try:
        c = space.canonical()
    except Exception as e:  # noqa: BLE001
        ctx.violation(f"{m['k']}-canonical-raises", {"space": mrepr(m), "err": f"{type(e).__name__}: {str(e)[:200]}"})
        c = None
    if c is not None:
        xn, ok = judge_produced(ctx, m, c, "canonical", "eager", {})
        out.append(xn)
        if ok:
            judge_contains(ctx, m, space, c, "own-canonical", "jax", attribute=attr)
    return out


def u_sample_leaf(ctx):
    from vlib.c14_helpers import (BOX_CLASSES, BOX_SHAPES, MB_SHAPES, build, gen_box, gen_discrete,
                                  gen_multidiscrete)

    models = []
    combos = [(s, c) for c in sorted(set(BOX_CLASSES)) for s in BOX_SHAPES]
    order = ctx.rng.permutation(len(combos))
    for i in range(ctx.n(60, 400)):
        s, c = combos[order[i % len(combos)]]
        models.append(gen_box(ctx.rng, shape=s, cls=c))
    # the historical Gym idiom: +-float32 max as "no bound"
    fm = np.float32(np.finfo(np.float32).max)
    models.append({"k": "box", "low": np.full((4,), -fm, np.float32), "high": np.full((4,), fm, np.float32)})
    # lerax's Discrete.sample materialises n probabilities: n is capped at 2**24+3 here (cost, not correctness)
    for n in [1, 2, 3, 5, 17, 256, 2**24 + 3]:
        models.append({"k": "discrete", "n": n})
    for i in range(ctx.n(6, 40)):
        models.append(gen_discrete(ctx.rng))
    for sh in MB_SHAPES:
        models.append({"k": "multibinary", "shape": sh})
    for i in range(ctx.n(10, 60)):
        models.append(gen_multidiscrete(ctx.rng))
    for i, m in enumerate(models):
        try:
            space = build(m, variant=i)
        except Exception as e:  # noqa: BLE001
            ctx.violation(f"{m['k']}-construction-raises", {"model": str(m)[:300], "err": repr(e)[:200]})
            continue
        run_samples(ctx, m, space, n_eager=ctx.n(10, 24), n_vmap=(ctx.n(64, 256) if i % 6 == 0 else 0),
                    jit=(i % 5 == 0), base=i * 1000)
        ctx.monitor("spaces_sampled")
    ctx.require("sample_judged", 500)
    ctx.require("canonical_judged", 50)


def u_sample_nested(ctx):
    from vlib.c14_helpers import build, gen_nested

    N = ctx.n(50, 300)
    for i in range(N):
        m = gen_nested(ctx.rng, 1 + i % 3, root=["dict", "tuple"][i % 2])
        try:
            space = build(m, variant=i)
        except Exception as e:  # noqa: BLE001
            ctx.violation("nested-construction-raises", {"model": str(m)[:300], "err": repr(e)[:200]})
            continue
        run_samples(ctx, m, space, n_eager=ctx.n(5, 10), n_vmap=(ctx.n(16, 64) if i % 10 == 0 else 0),
                    jit=(i % 10 == 5), base=i * 1000)
        ctx.monitor("spaces_sampled")
    ctx.require("sample_judged", 200)
    ctx.require("canonical_judged", 40)


# ---------------------------------------------------------------------------------- Discrete masks
def judge_masked(ctx, n, mask, rep, value, mode, desc):
    mask = np.asarray(mask, bool)
    ms = "".join("1" if b else "0" for b in mask[:64])
    ctx.case(dict(desc, n=n, mask=ms, rep=rep, mode=mode), nontrivial=not mask.all(), cls=f"masked-sample/{mode}/{rep}")
    ctx.monitor("masked_samples_judged")
    a = np.asarray(value)
    if a.shape != () or a.dtype.kind not in "iu" or not (0 <= int(a) < n):
        ctx.violation("discrete-masked-sample-not-member", {"n": n, "mask": ms, "rep": rep, "mode": mode, "got": a})
        return None
    if not mask[int(a)]:
        ctx.violation("discrete-sample-ignores-mask", {"n": n, "mask": ms, "rep": rep, "mode": mode, "got": int(a),
                                                       "allowed": np.flatnonzero(mask)})
        return None
    return int(a)


def u_mask(ctx):
    import itertools

    import equinox as eqx
    import jax
    from jax import numpy as jnp
    from jax import random as jr
    from lerax.space import Discrete

    rng = ctx.rng
    jobs = []
    for n in range(1, 6):
        for bits in itertools.product([False, True], repeat=n):
            if any(bits):
                jobs.append((n, np.array(bits, bool), "exhaustive"))
        ctx.monitor("exhaustive_mask_sets_n_le_5")
    for n in [6, 8, 17, 64, 200, 1000]:
        for r in range(ctx.n(4, 20)):
            mk = rng.random(n) < rng.choice([0.05, 0.3, 0.7, 0.95])
            if not mk.any():
                mk[rng.integers(n)] = True
            jobs.append((n, mk, "random"))
        for pos in {0, n - 1, int(rng.integers(n))}:
            mk = np.zeros(n, bool)
            mk[pos] = True
            jobs.append((n, mk, "single-allowed"))
            jobs.append((n, ~mk, "single-forbidden"))
    spaces = {}
    for ji, (n, mk, kind) in enumerate(jobs):
        sp = spaces.setdefault(n, Discrete(n))
        seen = set()
        for rep, mobj in (("jnp", jnp.asarray(mk)), ("np", mk), ("list", [bool(b) for b in mk])):
            for j in range(ctx.n(3, 8)):
                kid = ji * 100 + j
                try:
                    v = sp.sample(key=ctx.key(kid), mask=mobj)
                except Exception as e:  # noqa: BLE001
                    ctx.violation("discrete-masked-sample-raises", {"n": n, "rep": rep, "err": f"{type(e).__name__}: {str(e)[:200]}"})
                    break
                r = judge_masked(ctx, n, mk, rep, v, "eager", {"key": kid})
                if r is not None:
                    seen.add(r)
        K = ctx.n(96, 512)
        try:
            vs = np.asarray(jax.vmap(lambda k: sp.sample(key=k, mask=jnp.asarray(mk)))(jr.split(ctx.key(ji * 100 + 99), K)))
            for j in range(K):
                r = judge_masked(ctx, n, mk, "jnp", vs[j], "vmap", {"key": ji * 100 + 99, "i": j})
                if r is not None:
                    seen.add(r)
        except Exception as e:  # noqa: BLE001
            ctx.violation("discrete-masked-sample-raises", {"n": n, "mode": "vmap", "err": f"{type(e).__name__}: {str(e)[:200]}"})
        if ji % 9 == 0:
            try:
                v = eqx.filter_jit(lambda s_, k, mm: s_.sample(key=k, mask=mm))(sp, ctx.key(ji * 100 + 98), jnp.asarray(mk))
                judge_masked(ctx, n, mk, "jnp", v, "jit", {"key": ji * 100 + 98})
            except Exception as e:  # noqa: BLE001
                ctx.violation("discrete-masked-sample-raises", {"n": n, "mode": "jit", "err": f"{type(e).__name__}: {str(e)[:200]}"})
        ctx.monitor("masks_tried")
        if seen == set(np.flatnonzero(mk).tolist()):
            ctx.monitor("masks_with_every_allowed_value_observed")
        if not mk.all():
            ctx.monitor("masks_with_a_forbidden_value")
    ctx.require("masked_samples_judged", 2000)
    ctx.require("masks_with_a_forbidden_value", 50)
    ctx.require("exhaustive_mask_sets_n_le_5", 5)


# ---------------------------------------------------------------------------------- flatten_sample
def near_value(rng, lm, v):
    """Another member of the leaf that differs from v in exactly one element (None if the leaf has one member)."""
    from vlib.c14_helpers import F32TINY

    k = lm["k"]
    a = np.array(v).copy()
    if k == "discrete":
        return None if lm["n"] == 1 else np.asarray((int(a) + 1) % lm["n"], a.dtype)
    if k == "multidiscrete":
        idx = [i for i, n in enumerate(lm["nvec"]) if n > 1]
        if not idx:
            return None
        i = idx[int(rng.integers(len(idx)))]
        a[i] = (int(a[i]) + 1) % lm["nvec"][i]
        return a
    if k == "multibinary":
        f = a.ravel()
        i = int(rng.integers(f.size))
        f[i] = not f[i]
        return f.reshape(a.shape)
    lo, hi = lm["low"].ravel(), lm["high"].ravel()
    idx = [i for i in range(lo.size) if lo[i] < hi[i]]
    if not idx:
        return None
    i = idx[int(rng.integers(len(idx)))]
    f = a.ravel()
    with np.errstate(all="ignore"):
        up = np.nextafter(f[i], np.float32(np.inf))
        dn = np.nextafter(f[i], np.float32(-np.inf))
    for w in (up, dn, hi[i], lo[i]):
        if np.isfinite(w) and lo[i] <= w <= hi[i] and w != f[i] and (w == 0 or abs(w) >= F32TINY) and not (w == 0 and f[i] == 0):
            f[i] = w
            return f.reshape(a.shape)
    return None


def first_difference(m, x, y):
    """(leaf model, value x, value y) of the first leaf where two structurally aligned values differ."""
    from vlib.c14_helpers import get_node, get_value, leaf_paths

    for path in leaf_paths(m):
        a, b = np.asarray(get_value(m, x, path)), np.asarray(get_value(m, y, path))
        if a.shape != b.shape or not np.array_equal(a, b):
            return get_node(m, path), a, b
    return None


def inj_key(lm, a, b):
    if lm["k"] in ("discrete", "multidiscrete") and max(np.max(np.abs(a)), np.max(np.abs(b))) >= 2**24:
        return "flatten-not-injective-large-index"  # float32 cannot tell neighbouring integers apart above 2**24
    return f"flatten-not-injective-{lm['k']}"


def run_flatten(ctx, m, space, values, tag):
    """values: numpy-level members.  Checks size / dtype / finiteness of every flattening and that
    distinct members never flatten to the same vector."""
    from vlib.c14_helpers import mrepr, values_equal, xdesc

    try:
        fs = space.flat_size
    except Exception as e:  # noqa: BLE001
        ctx.violation(f"{m['k']}-flat-size-raises", {"space": mrepr(m), "err": repr(e)[:200]})
        return
    if not isinstance(fs, (int, np.integer)) or isinstance(fs, bool) or fs < 0:
        ctx.violation("flat-size-not-an-int", {"space": mrepr(m), "got": repr(fs)})
        return
    flats = []
    for i, x in enumerate(values):
        ctx.case({"sp": mrepr(m), "x": xdesc(x), "tag": tag}, nontrivial=True, cls=f"flatten/{m['k']}/{tag}")
        try:
            f = space.flatten_sample(to_jnp(x) if i % 2 == 0 else x)
        except Exception as e:  # noqa: BLE001
            key = "dict-flatten-empty-raises" if (m["k"] == "dict" and not m["items"]) else f"{m['k']}-flatten-raises"
            ctx.violation(key, {"space": mrepr(m), "value": xdesc(x), "err": f"{type(e).__name__}: {str(e)[:200]}"})
            flats.append(None)
            continue
        ctx.monitor("flatten_outputs_checked")
        f = np.asarray(f)
        flats.append(f)
        if f.ndim != 1 or f.shape[0] != fs:
            ctx.violation("flatten-wrong-size", {"space": mrepr(m), "flat_size": fs, "got_shape": f.shape})
        elif f.dtype.kind != "f":
            ctx.violation("flatten-not-float", {"space": mrepr(m), "dtype": str(f.dtype)})
        elif not np.isfinite(f).all():
            ctx.violation("flatten-nonfinite", {"space": mrepr(m), "value": xdesc(x), "got": f})
    # injectivity over all pairs with identical flattening
    groups = {}
    for x, f in zip(values, flats):
        if f is not None:
            groups.setdefault((f.shape, f.tobytes()), []).append(x)
    for g in groups.values():
        for y in g[1:]:
            ctx.monitor("flatten_equal_image_pairs")
            if not values_equal(g[0], y):
                d = first_difference(m, g[0], y)
                if d is not None:
                    ctx.violation(inj_key(*d), {"space": mrepr(m), "a": d[1], "b": d[2], "same_flattening": True})
    n = len([f for f in flats if f is not None])
    ctx.monitor("flatten_pairs_compared", n * (n - 1) // 2)


def flatten_values(ctx, m, space, n_sample, n_member, base):
    from vlib.c14_helpers import (gen_member, get_node, get_value, leaf_paths, produced_problems, set_value,
                                  to_numpy)

    vals = []
    for j in range(n_sample):
        try:
            v = to_numpy(space.sample(key=ctx.key(base + j)))
        except Exception:  # noqa: BLE001
            continue  # judged in the sample units
        if not produced_problems(m, v):
            vals.append(v)
    for mode in ["low", "high"] + ["random"] * n_member:
        vals.append(gen_member(ctx.rng, m, mode))
    # near pairs: one element of one leaf changed
    lps = leaf_paths(m)
    for x in list(vals[: 2 + n_member]):
        path = lps[int(ctx.rng.integers(len(lps)))] if lps else None
        if path is None:
            continue
        nv = near_value(ctx.rng, get_node(m, path), get_value(m, x, path))
        if nv is not None:
            vals.append(set_value(m, x, path, nv))
            ctx.monitor("flatten_near_pairs")
    return vals


def u_flatten(ctx):
    from vlib.c14_helpers import build, gen_leaf, gen_nested

    N = ctx.n(80, 500)
    for i in range(N):
        if i % 3 == 0:
            m = gen_leaf(ctx.rng, tame=(i % 2 == 0))
        else:
            m = gen_nested(ctx.rng, 1 + i % 3, tame=True, root=["dict", "tuple"][i % 2])
        try:
            space = build(m, variant=i)
        except Exception as e:  # noqa: BLE001
            ctx.violation("nested-construction-raises", {"model": str(m)[:300], "err": repr(e)[:200]})
            continue
        vals = flatten_values(ctx, m, space, ctx.n(3, 5), ctx.n(3, 5), i * 100)
        run_flatten(ctx, m, space, vals, "nested" if m["k"] in ("tuple", "dict") else "leaf")
        ctx.monitor("spaces_flattened")
        # the numbers determine the sample: a Dict member whose OrderedDict was filled in another key order
        # is the same sample (contains() accepts it) and must flatten to the same vector, laid out in the
        # space's own key order
        if m["k"] == "dict" and len(m["items"]) >= 2:
            for v in vals[:3]:
                if not isinstance(v, OrderedDict):
                    continue
                keys = list(v.keys())
                perm = OrderedDict((k, v[k]) for k in reversed(keys))
                try:
                    if not bool(space.contains(perm)):
                        ctx.monitor("permuted_dict_members_not_accepted_by_contains")
                        continue
                    a = np.asarray(space.flatten_sample(v))
                    b = np.asarray(space.flatten_sample(perm))
                except Exception as e:  # noqa: BLE001
                    ctx.violation("dict-flatten-raises-on-permuted-member", {"space": str(m)[:200], "err": repr(e)[:200]})
                    continue
                ctx.case({"space": str(m)[:200], "rel": "permuted-member-flatten", "i": i}, nontrivial=True, cls="flatten/dict-permuted-member")
                ctx.monitor("permuted_dict_members_flattened")
                if a.shape != b.shape or not np.array_equal(a, b, equal_nan=True):
                    ctx.violation("dict-flatten-depends-on-sample-insertion-order",
                                  {"space": str(m)[:300], "space_order": a[:12], "permuted_member": b[:12]})
    # indices beyond float32's integer range (2**24): neighbours must still be told apart
    for n in (2**24 + 3, 2**25, 2**31 - 1):
        m = {"k": "discrete", "n": n}
        space = build(m)
        vals = [np.asarray(v, np.int32) for v in (2**24, 2**24 + 1, 2**24 + 2, n - 1, n - 2, 0, 1)]
        run_flatten(ctx, m, space, vals, "large-discrete")
    m = {"k": "multidiscrete", "nvec": (3, 2**25)}
    run_flatten(ctx, m, build(m), [np.asarray(v, np.int32) for v in ([1, 2**24], [1, 2**24 + 1], [2, 5])], "large-multidiscrete")
    # the empty Dict has flat_size 0 and one member
    m = {"k": "dict", "items": []}
    run_flatten(ctx, m, build(m), [OrderedDict()], "empty-dict")
    # Boxes with a zero-length axis: no numbers at all, alone and next to a non-empty neighbour
    for shp in ((0,), (3, 0)):
        mb = {"k": "box", "low": np.zeros(shp, np.float32), "high": np.ones(shp, np.float32)}
        try:
            run_flatten(ctx, mb, build(mb), [np.zeros(shp, np.float32)], "empty-box")
            mt = {"k": "tuple", "items": [mb, {"k": "discrete", "n": 3}]}
            run_flatten(ctx, mt, build(mt), [(np.zeros(shp, np.float32), np.asarray(v, np.int32)) for v in (0, 1, 2)], "empty-box-in-tuple")
            ctx.monitor("empty_box_flatten_cases")
        except Exception as e:  # noqa: BLE001
            ctx.violation("flatten-raises", {"space": f"Box{shp}", "error": f"{type(e).__name__}: {e}"[:300]})
    ctx.require("flatten_outputs_checked", 500)
    ctx.require("flatten_pairs_compared", 2000)
    ctx.require("flatten_near_pairs", 100)
    ctx.require("permuted_dict_members_flattened", 5)


# ---------------------------------------------------------------------------------- equality / hashing
def mutate_node(rng, node):
    """[(mutation-name, new node)] single-field mutations of one node; every result is structurally unequal."""
    from vlib.c14_helpers import gen_leaf, models_equal

    k = node["k"]
    out = []
    if k == "discrete":
        out.append(("n-changed", {"k": "discrete", "n": node["n"] + 1}))
        if node["n"] > 1:
            out.append(("n-changed", {"k": "discrete", "n": node["n"] - 1}))
        out.append(("kind-changed", {"k": "multidiscrete", "nvec": (node["n"],)}))
        if node["n"] < 64:
            out.append(("kind-changed", {"k": "multibinary", "shape": (node["n"],)}))
            out.append(("kind-changed", {"k": "box", "low": np.zeros((), np.float32), "high": np.asarray(node["n"] - 1, np.float32)}))
    elif k == "box":
        lo, hi = node["low"], node["high"]
        if lo.size:
            for which in ("low", "high"):
                arr = node[which].ravel().copy()
                i = int(rng.integers(arr.size))
                d = np.float32(-np.inf if which == "low" else np.inf)
                choice = int(rng.integers(3))
                with np.errstate(all="ignore"):
                    if not np.isfinite(arr[i]):
                        arr[i] = np.float32(-1e3 if which == "low" else 1e3)
                    elif choice == 0:
                        arr[i] = np.nextafter(arr[i], d)
                    elif choice == 1:
                        arr[i] = d
                    else:
                        arr[i] = arr[i] + (np.float32(-1) if which == "low" else np.float32(1)) * (np.abs(arr[i]) + np.float32(1))
                    if arr[i] != 0 and np.abs(arr[i]) < np.finfo(np.float32).tiny:  # keep out of the subnormal range
                        arr[i] = np.float32(np.finfo(np.float32).tiny) * (np.float32(-1) if which == "low" else np.float32(1))
                new = {"k": "box", "low": lo.copy(), "high": hi.copy()}
                new[which] = arr.reshape(lo.shape)
                out.append((f"{which}-bound-changed", new))
        shapes = [lo.shape + (1,), (1,) + lo.shape]
        if lo.ndim >= 2:
            shapes.append((lo.size,))
            if lo.shape != lo.T.shape:
                out.append(("shape-changed", {"k": "box", "low": lo.T.copy(), "high": hi.T.copy()}))
        for sh in shapes:
            out.append(("shape-changed", {"k": "box", "low": lo.reshape(sh).copy(), "high": hi.reshape(sh).copy()}))
        if lo.ndim == 1:
            out.append(("shape-changed", {"k": "box", "low": np.concatenate([lo, lo[-1:]]), "high": np.concatenate([hi, hi[-1:]])}))
        if lo.ndim == 1 and np.all(lo == 0) and np.all(hi == 1):
            out.append(("kind-changed", {"k": "multibinary", "shape": lo.shape}))
    elif k == "multibinary":
        sh = tuple(node["shape"])
        out.append(("shape-changed", {"k": "multibinary", "shape": sh[:-1] + (sh[-1] + 1,)}))
        out.append(("shape-changed", {"k": "multibinary", "shape": sh + (1,)}))
        if len(sh) > 1:
            out.append(("shape-changed", {"k": "multibinary", "shape": (int(np.prod(sh)),)}))
            if sh != sh[::-1]:
                out.append(("shape-changed", {"k": "multibinary", "shape": sh[::-1]}))
        out.append(("kind-changed", {"k": "multidiscrete", "nvec": (2,) * int(np.prod(sh))}))
        out.append(("kind-changed", {"k": "box", "low": np.zeros(sh, np.float32), "high": np.ones(sh, np.float32)}))
    elif k == "multidiscrete":
        nv = list(node["nvec"])
        i = int(rng.integers(len(nv)))
        out.append(("nvec-changed", {"k": "multidiscrete", "nvec": tuple(nv[:i] + [nv[i] + 1] + nv[i + 1:])}))
        out.append(("nvec-extended", {"k": "multidiscrete", "nvec": tuple(nv + [nv[-1]])}))
        if len(nv) > 1:
            out.append(("nvec-truncated", {"k": "multidiscrete", "nvec": tuple(nv[:-1])}))
        if nv != nv[::-1]:
            out.append(("nvec-permuted", {"k": "multidiscrete", "nvec": tuple(nv[::-1])}))
        if len(nv) == 1:
            out.append(("kind-changed", {"k": "discrete", "n": nv[0]}))
    elif k == "tuple":
        items = list(node["items"])
        out.append(("extra-components", {"k": "tuple", "items": items + [gen_leaf(rng, tame=True)]}))
        out.append(("extra-components", {"k": "tuple", "items": items + [items[-1]]}))
        if len(items) > 1:
            out.append(("extra-components", {"k": "tuple", "items": items[:-1]}))
            i, j = (int(v) for v in rng.permutation(len(items))[:2])
            if not models_equal(items[i], items[j]):
                sw = list(items)
                sw[i], sw[j] = sw[j], sw[i]
                out.append(("components-permuted", {"k": "tuple", "items": sw}))
        out.append(("kind-changed", {"k": "dict", "items": [(str(i), s) for i, s in enumerate(items)]}))
    else:
        items = list(node["items"])
        out.append(("extra-keys", {"k": "dict", "items": items + [("extra_key", gen_leaf(rng, tame=True))]}))
        if items:
            out.append(("extra-keys", {"k": "dict", "items": items[:-1]}))
            i = int(rng.integers(len(items)))
            out.append(("key-renamed", {"k": "dict", "items": [(("renamed_" + a) if t == i else a, b) for t, (a, b) in enumerate(items)]}))
            out.append(("kind-changed", {"k": "tuple", "items": [b for _, b in items]}))
        if len(items) > 1:
            i, j = (int(v) for v in rng.permutation(len(items))[:2])
            if not models_equal(items[i][1], items[j][1]):
                sw = list(items)
                sw[i], sw[j] = (sw[i][0], sw[j][1]), (sw[j][0], sw[i][1])
                out.append(("values-permuted", {"k": "dict", "items": sw}))
    if k not in ("tuple",):
        out.append(("wrapped-in-tuple", {"k": "tuple", "items": [node]}))
    return [(name, new) for name, new in out if not models_equal(node, new)]


def eq_call(a, b):
    try:
        r = a == b
    except Exception as e:  # noqa: BLE001
        return ("raised", f"{type(e).__name__}: {str(e)[:150]}")
    if isinstance(r, (bool, np.bool_)):
        return ("ok", bool(r))
    return ("notbool", type(r).__name__)


def hash_call(a):
    try:
        h = hash(a)
    except Exception as e:  # noqa: BLE001
        return ("raised", f"{type(e).__name__}: {str(e)[:150]}")
    return ("ok", h)


def judge_equal_pair(ctx, m, a, b, tag):
    """a, b built from structurally equal models."""
    from vlib.c14_helpers import has_kind, mrepr

    root = m["k"]
    ctx.case({"sp": mrepr(m), "rel": "equal", "tag": tag}, nontrivial=a is not b, cls=f"eq/equal/{root}/{tag}")
    ctx.monitor("equal_pairs_judged")
    owner = "dict" if has_kind(m, "dict") else root
    for x, y, d in ((a, b, "a==b"), (b, a, "b==a")):
        st, r = eq_call(x, y)
        if st != "ok":
            ctx.violation(f"{owner}-eq-{'raises' if st == 'raised' else 'not-boolean'}", {"space": mrepr(m), "dir": d, "got": r})
        elif r is not True:
            ctx.violation(f"{owner}-eq-false-for-equal", {"space": mrepr(m), "dir": d, "tag": tag, "got": r, "want": True})
        else:
            try:
                if x != y:
                    ctx.violation("ne-inconsistent-with-eq", {"space": mrepr(m)})
            except Exception as e:  # noqa: BLE001
                ctx.violation("ne-raises", {"space": mrepr(m), "err": repr(e)[:200]})
    (sa, ha), (sb, hb) = hash_call(a), hash_call(b)
    ctx.monitor("hash_pairs_judged")
    if sa != "ok" or sb != "ok":
        ctx.violation(f"{owner}-hash-raises", {"space": mrepr(m), "got": ha if sa != "ok" else hb})
    elif ha != hb:
        ctx.violation(f"{root}-hash-differs-for-equal", {"space": mrepr(m), "tag": tag, "hashes": [ha, hb]})


def judge_unequal_pair(ctx, m, m2, a, b, nodekind, mutation):
    from vlib.c14_helpers import has_kind, mrepr

    ctx.case({"a": mrepr(m), "b": mrepr(m2), "rel": mutation}, nontrivial=True, cls=f"eq/unequal/{nodekind}/{mutation}")
    ctx.monitor("unequal_pairs_judged")
    if not (has_kind(m, "dict") or has_kind(m2, "dict")):
        ctx.monitor("unequal_pairs_judged_without_dict")
    for x, y, d in ((a, b, "a==b"), (b, a, "b==a")):
        st, r = eq_call(x, y)
        if st != "ok":
            ctx.violation(f"{nodekind}-eq-{'raises' if st == 'raised' else 'not-boolean'}",
                          {"a": mrepr(m), "b": mrepr(m2), "dir": d, "got": r})
        elif r is not False:
            ctx.violation(f"{nodekind}-eq-ignores-{mutation}", {"a": mrepr(m), "b": mrepr(m2), "dir": d, "got": r, "want": False})


def u_equality(ctx):
    import gymnasium as gym
    from vlib.c14_helpers import (build, build_gym, copy_model, gen_leaf, gen_nested, get_node, has_kind, mrepr,
                                  node_paths, replace_node)

    rng = ctx.rng
    N = ctx.n(150, 1000)
    for i in range(N):
        fam = i % 4
        if fam == 0:
            m = gen_leaf(rng)
        elif fam == 1:
            m = gen_nested(rng, 1 + (i // 4) % 3, kinds=("discrete", "box", "multibinary", "multidiscrete"), root="tuple")
            # Tuple-only family: replace any Dict below by a Tuple so that Tuple/leaf equality is judged on its own
            def undict(x):
                if x["k"] == "dict":
                    return {"k": "tuple", "items": [undict(s) for _, s in x["items"]]}
                if x["k"] == "tuple":
                    return {"k": "tuple", "items": [undict(s) for s in x["items"]]}
                return x
            m = undict(m)
        else:
            m = gen_nested(rng, 1 + (i // 4) % 3, root=["dict", "tuple"][fam % 2])
        try:
            a = build(m, variant=i)
            b = build(copy_model(m), variant=i + 1 + int(rng.integers(3)))
        except Exception as e:  # noqa: BLE001
            ctx.violation("nested-construction-raises", {"model": mrepr(m), "err": repr(e)[:200]})
            continue
        judge_equal_pair(ctx, m, a, b, "copy")
        if i % 10 == 0:
            judge_equal_pair(ctx, m, a, a, "identity")
        # single-field mutations at random nodes
        paths = node_paths(m)
        for path in [paths[int(t)] for t in rng.permutation(len(paths))[: ctx.n(3, 4)]]:
            node = get_node(m, path)
            muts = mutate_node(rng, node)
            for t in rng.permutation(len(muts))[: ctx.n(3, 5)]:
                name, new = muts[int(t)]
                m2 = replace_node(m, path, new)
                try:
                    b2 = build(m2, variant=i + 2)
                except Exception as e:  # noqa: BLE001
                    ctx.violation("nested-construction-raises", {"model": mrepr(m2), "err": repr(e)[:200]})
                    continue
                judge_unequal_pair(ctx, m, m2, a, b2, node["k"], name)
        # comparison with things that are not lerax spaces
        foreign = [("none", None), ("int", 0), ("str", "x"), ("list", [a]), ("type", type(a))]
        try:
            foreign.append(("gym-space", build_gym(m)))
        except Exception:  # noqa: BLE001
            pass
        if m["k"] == "tuple":
            foreign.append(("tuple-of-spaces", tuple(a.spaces)))
        if m["k"] == "dict":
            foreign.append(("ordereddict-of-spaces", OrderedDict(a.spaces)))
            foreign.append(("dict-of-spaces", dict(a.spaces)))
        if m["k"] == "discrete":
            foreign.append(("its-n", m["n"]))
        if m["k"] == "multidiscrete":
            foreign.append(("its-nvec", tuple(m["nvec"])))
        if m["k"] == "multibinary":
            foreign.append(("its-shape", tuple(m["shape"])))
        for name, f in foreign:
            ctx.case({"sp": mrepr(m), "rel": "foreign", "other": name}, nontrivial=True, cls=f"eq/foreign/{m['k']}/{name}")
            ctx.monitor("foreign_eq_judged")
            st, r = eq_call(a, f)
            if st != "ok":
                ctx.violation(f"{m['k']}-eq-raises-for-foreign", {"space": mrepr(m), "other": name, "got": r})
            elif r is not False:
                ctx.violation(f"{m['k']}-eq-true-for-foreign-{name}", {"space": mrepr(m), "other": name, "got": r, "want": False})
    # signed zero: == is not asserted, but == must imply equal hashes
    for i in range(ctx.n(20, 100)):
        sh = [(), (2,), (2, 2)][i % 3]
        z = np.where(rng.random(sh) < 0.5, np.float32(0.0), np.float32(-0.0)).astype(np.float32)
        other = (rng.uniform(0.5, 2, sh)).astype(np.float32)
        low_side = i % 2 == 0
        m1 = {"k": "box", "low": z, "high": other} if low_side else {"k": "box", "low": -other, "high": z}
        zz = (-z).astype(np.float32)  # flips every zero's sign
        m2 = {"k": "box", "low": zz, "high": other} if low_side else {"k": "box", "low": -other, "high": zz}
        if i % 4 >= 2:
            m1, m2 = ({"k": "tuple", "items": [m1, {"k": "discrete", "n": 3}]},
                      {"k": "tuple", "items": [m2, {"k": "discrete", "n": 3}]})
        a, b = build(m1, variant=1), build(m2, variant=1)
        ctx.case({"a": mrepr(m1), "b": mrepr(m2), "rel": "signed-zero"}, nontrivial=True, cls="eq/signed-zero")
        st, r = eq_call(a, b)
        (sa, ha), (sb, hb) = hash_call(a), hash_call(b)
        ctx.monitor("signed_zero_pairs_judged")
        if st != "ok" or sa != "ok" or sb != "ok":
            ctx.violation("box-eq-raises", {"a": mrepr(m1), "b": mrepr(m2), "got": [r, ha, hb]})
        elif r and ha != hb:
            ctx.violation("box-eq-hash-disagree-signed-zero", {"a": mrepr(m1), "b": mrepr(m2), "eq": r, "hashes": [ha, hb]})
    # permuted Dict keys: whether they are "equal structure" is not asserted either way, but the answer must
    # come without raising and, whatever it is, agree with hashing (a == b implies hash(a) == hash(b)),
    # also when the permuted Dict sits inside a Tuple or another Dict
    for i in range(ctx.n(30, 120)):
        m = gen_nested(rng, 1 + i % 2, root="dict")
        if len(m["items"]) < 2:
            continue
        perm = list(reversed(m["items"])) if i % 3 else [m["items"][int(t)] for t in rng.permutation(len(m["items"]))]
        if [k for k, _ in perm] == [k for k, _ in m["items"]]:
            perm = list(reversed(m["items"]))
        m2 = {"k": "dict", "items": perm}
        if i % 4 == 1:
            m, m2 = ({"k": "tuple", "items": [{"k": "discrete", "n": 2}, m]}, {"k": "tuple", "items": [{"k": "discrete", "n": 2}, m2]})
        elif i % 4 == 3:
            m, m2 = ({"k": "dict", "items": [("outer", m)]}, {"k": "dict", "items": [("outer", m2)]})
        a, b = build(m), build(m2)
        ctx.case({"a": mrepr(m), "b": mrepr(m2), "rel": "permuted-dict-keys"}, nontrivial=True, cls="eq/permuted-dict-keys")
        st, r = eq_call(a, b)
        st2, r2 = eq_call(b, a)
        (sa, ha), (sb, hb) = hash_call(a), hash_call(b)
        ctx.monitor("permuted_dict_pairs_judged_for_hash_agreement")
        if st != "ok" or st2 != "ok":
            ctx.violation("dict-eq-raises", {"a": mrepr(m), "b": mrepr(m2), "got": r})
        elif r != r2:
            ctx.violation("dict-eq-not-symmetric-permuted-keys", {"a": mrepr(m), "b": mrepr(m2), "ab": r, "ba": r2})
        elif sa == "ok" and sb == "ok" and r and ha != hb:
            ctx.violation("dict-eq-hash-disagree-permuted-keys", {"a": mrepr(m), "b": mrepr(m2), "eq": r, "hashes": [ha, hb]})
    ctx.require("equal_pairs_judged", 100)
    ctx.require("unequal_pairs_judged_without_dict", 200)
    ctx.require("hash_pairs_judged", 100)
    ctx.require("foreign_eq_judged", 300)
    ctx.require("signed_zero_pairs_judged", 10)
    ctx.require("permuted_dict_pairs_judged_for_hash_agreement", 5)


# ---------------------------------------------------------------------------------- Gymnasium round trip
def first_model_difference(a, b, dict_order):
    """Kind of the first node where two models differ (None if equal)."""
    from vlib.c14_helpers import models_equal

    if models_equal(a, b, dict_order=dict_order):
        return None
    if a["k"] != b["k"]:
        return a["k"]
    if a["k"] == "tuple" and len(a["items"]) == len(b["items"]):
        for x, y in zip(a["items"], b["items"]):
            d = first_model_difference(x, y, dict_order)
            if d:
                return d
    if a["k"] == "dict" and len(a["items"]) == len(b["items"]):
        ia, ib = a["items"], b["items"]
        if not dict_order:
            ia, ib = sorted(ia, key=lambda t: t[0]), sorted(ib, key=lambda t: t[0])
        if [k for k, _ in ia] == [k for k, _ in ib]:
            for (_, x), (_, y) in zip(ia, ib):
                d = first_model_difference(x, y, dict_order)
                if d:
                    return d
    return a["k"]


def gym_nontrivial(m):
    from vlib.c14_helpers import box_classes

    k = m["k"]
    if k in ("tuple", "dict"):
        return True
    if k == "box":
        return m["low"].ndim != 1 or box_classes(m) != ["bounded"]
    if k == "multibinary":
        return len(m["shape"]) > 1
    return k == "discrete" and m["n"] == 1


def has_unsorted_dict(m):
    if m["k"] == "dict":
        keys = [k for k, _ in m["items"]]
        return keys != sorted(keys) or any(has_unsorted_dict(s) for _, s in m["items"])
    if m["k"] == "tuple":
        return any(has_unsorted_dict(s) for s in m["items"])
    return False


def u_gym(ctx):
    import warnings

    from lerax.compatibility.gym import gym_space_to_lerax_space as g2l
    from lerax.compatibility.gym import lerax_to_gym_space as l2g
    from vlib.c14_helpers import (build, build_gym, extract, extract_gym, gen_leaf, gen_member, gen_nested, has_kind,
                                  member, mrepr, models_equal)

    warnings.filterwarnings("ignore")
    rng = ctx.rng
    N = ctx.n(150, 3000)
    for i in range(N):
        m = gen_leaf(rng) if i % 3 == 0 else gen_nested(rng, 1 + i % 3, root=["dict", "tuple"][(i // 3) % 2])
        desc = {"sp": mrepr(m)}
        try:
            a = build(m, variant=i)
            ref = build_gym(m)
        except Exception as e:  # noqa: BLE001
            ctx.violation("nested-construction-raises", {"model": mrepr(m), "err": repr(e)[:200]})
            continue
        # ---- lerax -> gym
        ctx.case(dict(desc, dir="lerax-gym-lerax"), nontrivial=gym_nontrivial(m), cls=f"gym/l2g2l/{m['k']}")
        try:
            g = l2g(a)
        except Exception as e:  # noqa: BLE001
            ctx.violation(f"lerax-to-gym-raises-{m['k']}", {"space": mrepr(m), "err": f"{type(e).__name__}: {str(e)[:200]}"})
            continue
        try:
            mg = extract_gym(g)
        except Exception as e:  # noqa: BLE001
            ctx.violation(f"lerax-to-gym-wrong-{m['k']}", {"space": mrepr(m), "got": str(g)[:200], "err": repr(e)[:100]})
            continue
        ctx.monitor("to_gym_compared_with_reference")
        d = first_model_difference(m, mg, dict_order=False)
        if d:
            ctx.violation(f"lerax-to-gym-wrong-{d}", {"space": mrepr(m), "got": mrepr(mg), "gym": str(g)[:300]})
        else:
            try:
                same = bool(g == ref)
            except Exception as e:  # noqa: BLE001
                same = f"raised {e!r}"[:100]
            if same is not True:
                ctx.violation(f"lerax-to-gym-wrong-{m['k']}", {"space": mrepr(m), "got": str(g)[:300], "want": str(ref)[:300], "gym_eq": same})
        # ---- and back
        try:
            rt = g2l(g)
            mrt = extract(rt)
        except Exception as e:  # noqa: BLE001
            ctx.violation(f"gym-to-lerax-raises-{m['k']}", {"space": mrepr(m), "gym": str(g)[:200], "err": f"{type(e).__name__}: {str(e)[:200]}"})
            continue
        ctx.monitor("roundtrips_judged")
        if has_unsorted_dict(m):
            ctx.monitor("dict_roundtrips_with_unsorted_keys")
        d = first_model_difference(m, mrt, dict_order=False)
        if d:
            ctx.violation(f"gym-roundtrip-changes-{d}", {"space": mrepr(m), "got": mrepr(mrt), "via": str(g)[:300]})
            continue
        if not models_equal(mg, mrt, dict_order=True):
            ctx.violation("gym-roundtrip-dict-order-not-gymnasium", {"space": mrepr(m), "gym_order": mrepr(mg), "got": mrepr(mrt)})
            continue
        # lerax's own == against the original re-keyed in Gymnasium's order
        expect = build(mg, variant=i + 1)
        st, r = eq_call(rt, expect)
        st2, r2 = eq_call(expect, rt)
        ctx.monitor("roundtrip_lerax_eq_judged")
        owner = "dict" if has_kind(m, "dict") else m["k"]
        if st != "ok" or st2 != "ok":
            ctx.violation(f"{owner}-eq-raises", {"space": mrepr(m), "got": [r, r2]})
        elif r is not True or r2 is not True:
            ctx.violation(f"{owner}-eq-false-for-equal", {"space": mrepr(m), "tag": "gym-roundtrip", "got": [r, r2], "want": True})

        # ---- gym -> lerax -> gym from a hand-built Gymnasium space (insertion-ordered Dict on odd i)
        try:
            g0 = build_gym(m, ordered=bool(i % 2))
        except Exception:  # noqa: BLE001
            continue
        mg0 = extract_gym(g0)
        ctx.case(dict(desc, dir="gym-lerax-gym", ordered=bool(i % 2)), nontrivial=gym_nontrivial(m), cls=f"gym/g2l2g/{m['k']}")
        try:
            l0 = g2l(g0)
            ml0 = extract(l0)
        except Exception as e:  # noqa: BLE001
            ctx.violation(f"gym-to-lerax-raises-{m['k']}", {"gym": str(g0)[:300], "err": f"{type(e).__name__}: {str(e)[:200]}"})
            continue
        ctx.monitor("from_gym_judged")
        d = first_model_difference(mg0, ml0, dict_order=True)
        if d:
            ctx.violation(f"gym-to-lerax-wrong-{d}", {"gym": str(g0)[:300], "want": mrepr(mg0), "got": mrepr(ml0)})
            continue
        try:
            g1 = l2g(l0)
            same = bool(g1 == g0) and models_equal(extract_gym(g1), mg0, dict_order=False)
        except Exception as e:  # noqa: BLE001
            ctx.violation(f"lerax-to-gym-raises-{m['k']}", {"gym": str(g0)[:300], "err": f"{type(e).__name__}: {str(e)[:200]}"})
            continue
        if not same:
            ctx.violation(f"gym-lerax-gym-roundtrip-changes-{m['k']}", {"gym": str(g0)[:300], "got": str(g1)[:300]})

        # ---- sanity of the membership model against the reference library (clean representations only)
        if m["k"] in ("discrete", "box", "multibinary", "multidiscrete") and i % 2 == 0:
            cands = [gen_member(rng, m, md) for md in ("low", "high", "random")]
            cands += [v for c, v in bad_leaf(rng, m) if isinstance(v, np.ndarray) and v.dtype.kind in "iuf"
                      and not (m["k"] != "box" and v.dtype.kind == "f")]
            for x in cands:
                if m["k"] == "multibinary":
                    x = np.asarray(x).astype(np.int8)
                if m["k"] in ("discrete", "multidiscrete"):
                    x = np.asarray(x).astype(np.int64)
                want = member(m, x)
                if want is None:
                    continue
                try:
                    got = bool(ref.contains(x))
                except Exception:  # noqa: BLE001
                    continue
                ctx.monitor("model_vs_gymnasium_compared")
                if got != want:
                    ctx.monitor("model_vs_gymnasium_disagreements")
                    ctx.inconc(f"membership model disagrees with Gymnasium on {mrepr(m)} x={x!r}: model {want}, gym {got}")
    ctx.require("roundtrips_judged", 100)
    ctx.require("to_gym_compared_with_reference", 100)
    ctx.require("from_gym_judged", 100)
    ctx.require("dict_roundtrips_with_unsorted_keys", 10)
    ctx.require("model_vs_gymnasium_compared", 100)


def run_unit(name, ctx):
    globals()["u_" + name](ctx)
