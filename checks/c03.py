"""C03 Advantages and returns equal the GAE definition, cut at episode ends."""

from __future__ import annotations

import itertools

import numpy as np

RULE = ("cases = (rewards, values, dones, bootstrap, gamma, lambda) fed to the real "
        "RolloutBuffer.compute_returns_and_advantages eagerly / under jit / under vmap, all 2^T done "
        "patterns for small T plus random long ones; plus the same post-condition as an icontract on "
        "the real method while real PPO/A2C/REINFORCE collect on finite MDPs; non-trivial = at least "
        "one done strictly inside the rollout (so cutting matters); distinct by hash of all inputs")
FLOOR = {"quick": 200, "thorough": 2000}
ASSUMPTIONS = ["float64 NumPy backward recursion is the definition of GAE",
               "float32 tolerance 1e-4 * magnitude bound + 1e-6"]


def units(tier):
    return [{"name": "exhaustive", "timeout": 1200}, {"name": "random", "timeout": 1200},
            {"name": "metamorphic", "timeout": 1200}, {"name": "algo", "timeout": 1800},
            {"name": "vector", "timeout": 1800}]


_DONE_ENC = [0]


def _mk(r, v, d):
    import jax
    import jax.numpy as jnp
    from lerax.buffer import RolloutBuffer

    z = jnp.zeros_like(jnp.asarray(r, dtype=jnp.float32))
    dd = jnp.asarray(d, bool)
    if not isinstance(d, jax.core.Tracer):
        # the episode-end flags in every encoding a caller may hold them in (0/1 integers are common)
        _DONE_ENC[0] += 1
        k = _DONE_ENC[0] % 6
        dn = np.asarray(d).astype(bool)
        dd = [dd, dn.astype(np.int32), dn.astype(np.uint8), jnp.asarray(dn.astype(np.int32)), [int(x) for x in dn], dn][k]
    return RolloutBuffer(observations=z, actions=z, rewards=jnp.asarray(r, jnp.float32),
                         dones=dd, log_probs=z, values=jnp.asarray(v, jnp.float32),
                         states=None)


def _compare(ctx, tag, r, v, d, last, gamma, lam, adv, ret, mode):
    from vlib.refmodels import gae_ref, mc_return_ref
    from vlib.common import digest

    r32, v32 = np.asarray(r, np.float32), np.asarray(v, np.float32)
    a_ref, ret_ref, bound = gae_ref(r32, v32, d, np.float32(last), float(np.float32(gamma)), float(np.float32(lam)))
    tol = 1e-4 * bound + 1e-6
    adv, ret = np.asarray(adv, np.float64), np.asarray(ret, np.float64)
    d = np.asarray(d, bool)
    nontrivial = bool(d[:-1].any()) if len(d) > 1 else False
    ctx.case({"mode": mode, "T": len(r), "dones": "".join("1" if x else "0" for x in d[:32]),
              "gamma": float(gamma), "lam": float(lam), "h": digest(r32, v32, d, np.float32(last))},
             nontrivial=nontrivial, cls=f"{tag}/{mode}")
    ctx.monitor("gae_oracle_evaluations")
    if adv.shape != a_ref.shape or not np.all(np.abs(adv - a_ref) <= tol):
        i = int(np.argmax(np.abs(adv - a_ref) - tol)) if adv.shape == a_ref.shape else -1
        ctx.violation("gae-advantage-mismatch", {"mode": mode, "T": len(r), "t": i, "dones": d.astype(int),
                                                 "gamma": gamma, "lam": lam, "rewards": r32, "values": v32,
                                                 "last": last, "got": adv, "want": a_ref})
        return False
    if not np.all(np.abs(ret - ret_ref) <= tol + 1e-6 * np.abs(v32)):
        ctx.violation("gae-return-not-adv-plus-value", {"mode": mode, "got": ret, "want": ret_ref})
        return False
    if float(np.float32(lam)) == 1.0:
        mc = mc_return_ref(r32, v32, d, np.float32(last), float(np.float32(gamma)))
        ctx.monitor("lambda1_montecarlo_checked")
        if not np.all(np.abs(ret - mc) <= 2 * tol + 1e-5 * np.abs(v32)):
            ctx.violation("lambda1-not-montecarlo", {"got": ret, "want": mc, "dones": d.astype(int)})
    if float(lam) == 0.0:
        nv = np.concatenate([v32[1:], [np.float32(last)]]).astype(np.float64)
        td = r32 + float(np.float32(gamma)) * nv * (1 - d) - v32
        ctx.monitor("lambda0_td_checked")
        if not np.all(np.abs(adv - td) <= tol):
            ctx.violation("lambda0-not-td-error", {"got": adv, "want": td})
    return True


def _gen_vals(rng, T, heavy=False):
    if heavy:
        r = rng.standard_t(2, size=T) * 10
        v = rng.standard_t(2, size=T) * 10
    else:
        r = rng.normal(0, 1, size=T)
        v = rng.normal(0, 2, size=T)
    return r.astype(np.float32), v.astype(np.float32), np.float32(rng.normal(0, 2))


def _gl(rng, i):
    g = [0.0, 1.0, 0.99, float(rng.uniform(0, 1))][i % 4]
    lam = [1.0, 0.0, 0.95, float(rng.uniform(0, 1))][(i // 4) % 4]
    # the corners are also given as whole numbers (gamma=1 is how "no discounting" is usually written)
    if i % 3 == 2 and g in (0.0, 1.0):
        g = [int(g), np.int64(int(g)), bool(g)][(i // 3) % 3]
    if i % 5 == 4 and lam in (0.0, 1.0):
        lam = int(lam)
    return g, lam


def u_exhaustive(ctx):
    import equinox as eqx
    import jax
    import jax.numpy as jnp

    Tmax = ctx.n(7, 10)
    fn = lambda r, v, d, last, lam, g: _mk(r, v, d).compute_returns_and_advantages(last, lam, g)  # noqa: E731
    take = lambda b: (b.advantages, b.returns)  # noqa: E731
    vm = eqx.filter_jit(jax.vmap(lambda r, v, d, last, lam, g: take(fn(r, v, d, last, lam, g)),
                                 in_axes=(0, 0, 0, 0, None, None)))
    k = 0
    for T in range(1, Tmax + 1):
        pats = np.array(list(itertools.product([0, 1], repeat=T)), dtype=bool)
        for rep in range(ctx.n(2, 4)):
            g, lam = _gl(ctx.rng, k)
            k += 1
            R = np.stack([_gen_vals(ctx.rng, T)[0] for _ in pats])
            V = np.stack([_gen_vals(ctx.rng, T)[1] for _ in pats])
            L = ctx.rng.normal(0, 2, size=len(pats)).astype(np.float32)
            adv, ret = vm(jnp.asarray(R), jnp.asarray(V), jnp.asarray(pats), jnp.asarray(L), lam, g)
            adv, ret = np.asarray(adv), np.asarray(ret)
            for i in range(len(pats)):
                _compare(ctx, "exhaustive", R[i], V[i], pats[i], L[i], g, lam, adv[i], ret[i], "vmap+jit")
        ctx.monitor("exhaustive_done_patterns_T", 1)
    ctx.notes["exhaustive_T_upto"] = Tmax
    # eager and jit on every pattern for T <= 4
    jit1 = eqx.filter_jit(lambda b, last, lam, g: take(b.compute_returns_and_advantages(last, lam, g)))
    for T in range(1, 5):
        for pat in itertools.product([0, 1], repeat=T):
            g, lam = _gl(ctx.rng, k)
            k += 1
            r, v, last = _gen_vals(ctx.rng, T)
            b = _mk(r, v, pat)
            a1, r1 = take(b.compute_returns_and_advantages(last, lam, g))
            _compare(ctx, "exhaustive", r, v, pat, last, g, lam, a1, r1, "eager")
            a2, r2 = jit1(b, last, lam, g)
            _compare(ctx, "exhaustive", r, v, pat, last, g, lam, a2, r2, "jit")


def u_random(ctx):
    import equinox as eqx

    take = lambda b: (b.advantages, b.returns)  # noqa: E731
    jit1 = eqx.filter_jit(lambda b, last, lam, g: take(b.compute_returns_and_advantages(last, lam, g)))
    n = ctx.n(150, 1500)
    for i in range(n):
        T = int(ctx.rng.choice([2, 3, 5, 8, 16, 33, 64, 128, 512]))
        if ctx.quick and T > 128:
            T = 128
        p = float(ctx.rng.choice([0.02, 0.1, 0.3, 0.7]))
        d = ctx.rng.random(T) < p
        if i % 7 == 0:
            d[-1] = True
        if i % 11 == 0:
            d[:] = False
            d[ctx.rng.integers(0, T)] = True
        g, lam = _gl(ctx.rng, i)
        r, v, last = _gen_vals(ctx.rng, T, heavy=(i % 5 == 0))
        b = _mk(r, v, d)
        if i % 3 == 0:
            a, rt = take(b.compute_returns_and_advantages(last, lam, g))
            mode = "eager"
        else:
            a, rt = jit1(b, last, lam, g)
            mode = "jit"
        _compare(ctx, "random", r, v, d, last, g, lam, a, rt, mode)


def u_metamorphic(ctx):
    """Nothing recorded after an episode end influences the estimates before it."""
    import equinox as eqx

    jit1 = eqx.filter_jit(lambda b, last, lam, g: b.compute_returns_and_advantages(last, lam, g).advantages)
    n = ctx.n(150, 1200)
    for i in range(n):
        T = int(ctx.rng.integers(3, 40))
        d = ctx.rng.random(T) < 0.2
        cut = int(ctx.rng.integers(0, T - 1))
        d[cut] = True
        g, lam = float(ctx.rng.uniform(0.5, 1)), float(ctx.rng.uniform(0.3, 1))
        r, v, last = _gen_vals(ctx.rng, T)
        a0 = np.asarray(jit1(_mk(r, v, d), last, lam, g))
        r2, v2 = r.copy(), v.copy()
        # perturb everything strictly after the cut (rewards, values, later dones, bootstrap)
        r2[cut + 1:] += ctx.rng.normal(0, 100, size=T - cut - 1).astype(np.float32)
        v2[cut + 1:] += ctx.rng.normal(0, 100, size=T - cut - 1).astype(np.float32)
        d2 = d.copy()
        d2[cut + 1:] = ctx.rng.random(T - cut - 1) < 0.5
        a1 = np.asarray(jit1(_mk(r2, v2, d2), last + 1000.0, lam, g))
        ctx.case({"T": T, "cut": cut, "h": __import__("vlib.common", fromlist=["digest"]).digest(r, v, d)},
                 nontrivial=True, cls="metamorphic")
        ctx.monitor("metamorphic_pairs")
        if not np.array_equal(a0[: cut + 1], a1[: cut + 1]):
            ctx.violation("post-done-data-leaks-backwards",
                          {"T": T, "cut": cut, "dones": d.astype(int), "before": a0[: cut + 1], "after": a1[: cut + 1]})


def _mdp_env(ctx, i, kind="discrete", tl=None):
    from lerax.wrapper import TimeLimit
    from vlib.mdp import FiniteMDP, random_tables

    nS, nA = int(ctx.rng.integers(3, 7)), int(ctx.rng.integers(2, 4))
    tabs = random_tables(ctx.rng, nS, nA, p_term=0.3)
    env = FiniteMDP(tabs["P"], tabs["R"], tabs["term"], tabs["starts"], trunc=tabs["trunc"], kind=kind,
                    obs_kind="onehot_t")
    if tl:
        env = TimeLimit(env, tl)
    return env, tabs


def _true_dones(obs, final_t):
    """Real episode ends of one stream, read from the environment's own episode clock (last observation
    entry): step k ended an episode iff the next acting state has clock 0."""
    t = np.round(np.asarray(obs)[:, -1]).astype(int)
    nxt = np.concatenate([t[1:], [int(final_t)]])
    return nxt == 0


def u_algo(ctx):
    """icontract post-condition on the real method while the real algorithms collect."""
    import icontract
    import jax.numpy as jnp
    from jax import random as jr
    from lerax.algorithm import A2C, PPO, REINFORCE
    from lerax.buffer import RolloutBuffer
    from lerax.policy import MLPActorCriticPolicy
    from vlib.common import PostBroken

    seen = {"n": 0, "concrete": 0, "last": None}
    orig = RolloutBuffer.compute_returns_and_advantages

    def gae_post(self, last_value, gae_lambda, gamma, result):
        seen["n"] += 1
        try:
            r = np.asarray(self.rewards)
        except Exception:
            return True  # tracer: not observable here
        seen["concrete"] += 1
        seen["last"] = (r, np.asarray(self.values), np.asarray(self.dones), float(last_value),
                        float(gamma), float(gae_lambda), np.asarray(result.advantages), np.asarray(result.returns))
        return True

    RolloutBuffer.compute_returns_and_advantages = icontract.ensure(gae_post, error=PostBroken)(orig)
    try:
        n = ctx.n(12, 60)
        for i in range(n):
            tl = [None, 3, 5][i % 3]
            env, _ = _mdp_env(ctx, i, tl=tl)
            cls = [PPO, A2C, REINFORCE][i % 3]
            T = int(ctx.rng.integers(4, 24))
            kw = dict(num_envs=1, num_steps=T, gamma=[float(ctx.rng.uniform(0.8, 1.0)), 1.0, 1, 0.9][(i // 3) % 4])
            lam_i = [float(ctx.rng.uniform(0, 1)), 0.0, 1.0, 0, float(ctx.rng.uniform(0, 1)), 0.95][(i // 3) % 6]
            if cls is PPO:
                kw.update(num_batches=1, num_epochs=1, gae_lambda=lam_i)
            elif cls is A2C:
                kw.update(gae_lambda=lam_i)
            ctx.monitor(f"algo_rollouts_lambda_{'zero' if lam_i == 0 else 'one' if lam_i == 1 else 'fractional'}" if cls is not REINFORCE else "algo_rollouts_reinforce")
            algo = cls(**kw)
            if i % 2 == 1:
                # stateful policy whose value depends on its internal step counter: a bootstrap value
                # computed with any but the post-rollout policy state is visible
                from vlib.stubs import CountingACPolicy

                pol = CountingACPolicy(env, key=ctx.key(1000 + i))
                ctx.monitor("algo_rollouts_with_stateful_policy")
            else:
                pol = MLPActorCriticPolicy(env, key=ctx.key(1000 + i), feature_size=4, feature_width=8,
                                           value_width=8, action_width=8)
            cb = algo.consolidate_callbacks(None)
            st = algo.reset(env, pol, key=ctx.key(2000 + i), callback=cb)
            seen["last"] = None
            ss, buf = algo.collect_rollout(env, pol, st.step_state, cb, ctx.key(3000 + i))
            if seen["last"] is None:
                ctx.inconc("contract on compute_returns_and_advantages saw no concrete call")
                continue
            r, v, d, last, g, lam, adv, ret = seen["last"]
            ctx.monitor("contract_concrete_evaluations")
            inner = ss.env_state.env_state if tl else ss.env_state
            d_true = _true_dones(np.asarray(buf.observations), int(inner.t))
            ctx.monitor("true_episode_ends_in_algo_rollouts", int(d_true.sum()))
            if not np.array_equal(d_true, np.asarray(d, bool)):
                ctx.violation("estimator-not-cut-at-true-episode-ends",
                              {"algo": cls.__name__, "true_ends": d_true.astype(int), "dones_given_to_estimator": np.asarray(d).astype(int)})
            d = d_true
            # the estimator must be called with the algorithm's own gamma / lambda
            if abs(g - algo.gamma) > 1e-6 or abs(lam - algo.gae_lambda) > 1e-6:
                ctx.violation("algo-passes-wrong-gamma-lambda", {"algo": cls.__name__, "gamma": g, "lam": lam,
                                                                  "want": [algo.gamma, algo.gae_lambda]})
            # bootstrap value = V(observation of the post-rollout state) by the unchanged policy
            obs = env.observation(ss.env_state, key=jr.key(0))
            want_last = float(pol.value(ss.policy_state, obs)[1])
            if abs(last - want_last) > 1e-5 + 1e-4 * abs(want_last):
                ctx.violation("bootstrap-not-from-post-rollout-state",
                              {"algo": cls.__name__, "got": last, "want": want_last})
            _compare(ctx, "algo", r, v, d, last, g, lam, adv, ret, f"eager-{cls.__name__}")
            # and the buffer that comes out carries exactly those numbers
            if not (np.array_equal(np.asarray(buf.advantages), adv) and np.array_equal(np.asarray(buf.returns), ret)):
                ctx.violation("collect-rollout-drops-estimates", {"algo": cls.__name__})
    finally:
        RolloutBuffer.compute_returns_and_advantages = orig
    ctx.notes["contract_calls"] = seen["n"]
    ctx.notes["contract_concrete"] = seen["concrete"]
    ctx.require("contract_concrete_evaluations", 3)
    ctx.require("true_episode_ends_in_algo_rollouts", 3)
    ctx.require("algo_rollouts_with_stateful_policy", 3)


def u_vector(ctx):
    """With several parallel environments each stream is estimated on its own."""
    import equinox as eqx
    import jax
    from jax import random as jr
    from lerax.algorithm import A2C, PPO
    from lerax.policy import MLPActorCriticPolicy
    from vlib.refmodels import gae_ref

    n = ctx.n(6, 30)
    for i in range(n):
        env, _ = _mdp_env(ctx, i, tl=[None, 4][i % 2])
        E, T = int(ctx.rng.integers(2, 5)), int(ctx.rng.integers(4, 17))
        cls = [PPO, A2C][i % 2]
        kw = dict(num_envs=E, num_steps=T, gamma=float(ctx.rng.uniform(0.8, 1.0)), gae_lambda=float(ctx.rng.uniform(0.2, 1)))
        if cls is PPO:
            kw.update(num_batches=1, num_epochs=1)
        algo = cls(**kw)
        pol = MLPActorCriticPolicy(env, key=ctx.key(100 + i), feature_size=4, feature_width=8, value_width=8, action_width=8)
        cb = algo.consolidate_callbacks(None)
        st = algo.reset(env, pol, key=ctx.key(200 + i), callback=cb)
        ss, buf = eqx.filter_jit(eqx.filter_vmap(algo.collect_rollout, in_axes=(None, None, eqx.if_array(0), None, 0)))(
            env, pol, st.step_state, cb, jr.split(ctx.key(300 + i), E))
        obs = jax.vmap(lambda s: env.observation(s, key=jr.key(0)))(ss.env_state)
        lasts = np.asarray(jax.vmap(lambda o: pol.value(None, o)[1])(obs))
        R, V, D = np.asarray(buf.rewards), np.asarray(buf.values), np.asarray(buf.dones)
        A, RET = np.asarray(buf.advantages), np.asarray(buf.returns)
        if R.shape != (E, T):
            ctx.violation("vector-rollout-shape", {"shape": R.shape, "want": [E, T]})
            continue
        tl_on = (i % 2 == 1)
        inner_t = np.asarray((ss.env_state.env_state if tl_on else ss.env_state).t)
        OBS = np.asarray(buf.observations)
        for e in range(E):
            d_true = _true_dones(OBS[e], inner_t[e])
            ctx.monitor("true_episode_ends_in_vector_rollouts", int(d_true.sum()))
            if not np.array_equal(d_true, D[e]):
                ctx.violation("estimator-not-cut-at-true-episode-ends",
                              {"env": e, "true_ends": d_true.astype(int), "recorded_dones": D[e].astype(int)})
            _compare(ctx, "vector", R[e], V[e], d_true, lasts[e], algo.gamma, algo.gae_lambda, A[e], RET[e], f"vmap-env{e}of{E}")
        # the flattened-batch estimate must differ (otherwise this run could not tell them apart)
        a_flat, _, _ = gae_ref(R.reshape(-1), V.reshape(-1), D.reshape(-1), lasts[-1], algo.gamma, algo.gae_lambda)
        if np.max(np.abs(a_flat.reshape(E, T) - A)) > 1e-3:
            ctx.monitor("vector_cases_distinguishing_flattened_gae")
    ctx.require("vector_cases_distinguishing_flattened_gae", 2)


def run_unit(name, ctx):
    {"exhaustive": u_exhaustive, "random": u_random, "metamorphic": u_metamorphic,
     "algo": u_algo, "vector": u_vector}[name](ctx)
