"""C09 Each epoch partitions the rollout into disjoint, intact minibatches.

Units
  api<k>   buffer API directly (flatten_axes, batch_indices, gather, batches, sample) on RolloutBuffers
           whose every leaf encodes the unique sample id: all (envs<=4, steps<=16, batch_size<=N+1)
           in thorough (sharded), a stratified subset in quick; fused under jit plus an eager subset.
  axes<k>  flatten_axes / batches / sample with explicit batch_axes (permuted, negative, partial),
           3-D buffers, feature axes that have the same sizes as the batch axes, NumPy-array leaves.
  tag<k>   end-to-end through the real jitted PPO.train: a stub policy with one trainable row per
           sample id and a *recording optimiser* (harness-defined optax transformation put into the
           algorithm's `optimizer` field) whose state stores the gradient of every minibatch step.
           The gradient says exactly which ids were in which minibatch and whether every field of
           each row (observation leaves, action, policy state, mask, return, advantage, old log-prob)
           belonged to that id. The value column is trained with plain SGD (contraction 1/2 per
           visit), which gives a second, independent read-out of the per-sample visit count
           ("gradient tagging" of the design).
  eager<k> icontract post-conditions on AbstractBuffer.flatten_axes / batch_indices / gather while the
           real PPO.train_epoch runs outside jit (index matrix concrete, gather traced) and while the
           real PPO.train runs under jax.disable_jit() (everything concrete).
"""

from __future__ import annotations

import itertools
import math

import numpy as np

RULE = ("api/axes: cases = (buffer shape, pytree spec, batch_size, key, batch_axes, eager|jit) fed to the real "
        "buffer methods, every leaf of every returned buffer decoded back to sample ids by a NumPy oracle; "
        "tag/eager: cases = (num_envs, num_steps, num_batches, num_epochs, pytree spec, normalise, key) fed to "
        "the real PPO.train / train_epoch with a tagging stub policy and a recording optimiser; non-trivial = "
        "N >= 2 and (at least two minibatches or a non-empty remainder N % B), i.e. partitioning or trimming "
        "matters (axes units: N >= 2 and the flatten is over several axes or over a non-leading axis); "
        "distinct by the full case description (shape, spec, B, epochs, key index, mode)")
FLOOR = {"quick": 150, "thorough": 1500}
ASSUMPTIONS = [
    "NumPy decode of id-encoded leaves (value = id * Q + position, mask = bits of id) is the oracle; ids and "
    "positions are exactly representable in float32 (id * Q + pos < 2^24)",
    "batch_size = algo.batch_size as configured (N // num_batches); configurations with num_batches > N "
    "(batch_size 0) are excluded as invalid; that N // batch_size can exceed num_batches is only noted",
    "flattening is judged as a bijection on sample ids with intact rows; the order of the flattened axis is "
    "not prescribed by the property (C order is only counted)",
    "RolloutBuffer.sample is judged for intact rows inside the buffer only (the property does not say whether "
    "sampling is with or without replacement)",
    "tag units replace PPO's optimizer field by a recording optax transformation and use "
    "clip_value_loss=False; gradient decode tolerance 0.02 on integer counts, 1e-3 relative on decoded "
    "returns / advantages (float32 error measured < 2e-6)",
    "fresh-shuffle statements are judged only where the chance of a coincidence under independent uniform "
    "shuffles is below 1e-6 (otherwise the case is counted, not judged)",
    "leaves that are not per-sample arrays (fewer axes than the buffer, Python scalars) are out of scope",
]

N_API = {"quick": 3, "thorough": 6}
N_TAG = {"quick": 4, "thorough": 6}
N_EAGER = {"quick": 2, "thorough": 4}
N_AXES = {"quick": 3, "thorough": 4}


def units(tier):
    u = [{"name": f"api{i}", "timeout": 2400} for i in range(N_API[tier])]
    u += [{"name": f"axes{i}", "timeout": 2400} for i in range(N_AXES[tier])]
    u += [{"name": f"tag{i}", "timeout": 2400} for i in range(N_TAG[tier])]
    u += [{"name": f"eager{i}", "timeout": 2400} for i in range(N_EAGER[tier])]
    return u


# ------------------------------------------------------------------ specs
def L(kind, *shape):
    return ("leaf", kind, tuple(shape))


def spec_of(name):
    if name == "scalar":
        return (L("f32"), L("i32"), None, None)
    if name == "plain":
        return (L("f32", 3), L("i32"), None, None)
    if name == "rich":
        obs = ("dict", (("a", L("f32", 3)), ("b", L("f32")), ("c", ("tuple", (L("i32", 2, 2), L("f32", 1))))))
        return (obs, L("i32", 2), ("state", (("h", L("f32", 4)), ("c", L("i32")))), L("bits", 10))
    if name == "tuple":
        obs = ("tuple", (L("f32", 2), L("i32")))
        act = ("dict", (("x", L("f32", 2)), ("y", L("i32"))))
        return (obs, act, ("state", (("h", L("f32", 2)),)), None)
    raise ValueError(name)


def _lg10_fact(n):
    return math.lgamma(n + 1) / math.log(10)


def _lg10_comb(n, r):
    return _lg10_fact(n) - _lg10_fact(r) - _lg10_fact(n - r)


def _lg10_partitions(N, B):
    """log10 of the number of distinct outcomes 'sequence of minibatch id-sets' of one epoch."""
    nb, r = N // B, N % B
    return _lg10_fact(N) - nb * _lg10_fact(B) - _lg10_fact(r)


def _nontrivial(N, B):
    return N >= 2 and B >= 1 and (N // B >= 2 or N % B != 0)


# ------------------------------------------------------------------ oracle on one returned buffer
def judge_buffer(ctx, what, buf, specs, batch_ndim, detail):
    """Every per-sample leaf must decode to the same id array, with every slot intact.
    Returns the reference id array (from `rewards`) or None."""
    from vlib import c09_helpers as H

    dec = H.decode_buffer(buf, specs, batch_ndim)
    by = {n: (i, ok) for n, i, ok in dec}
    ref, ref_ok = by["rewards"]
    ctx.monitor(f"{what}_buffers_decoded")
    ctx.monitor("leaves_decoded", len(dec))
    if ref is None or not np.all(ref_ok):
        ctx.violation(f"{what}-row-not-a-collected-sample", {**detail, "leaf": "rewards",
                                                              "got": np.asarray(buf.rewards)})
        return None
    good = True
    for name, ids, ok in dec:
        if ids is None or ids.shape != ref.shape:
            ctx.violation(f"{what}-leaf-shape-inconsistent", {**detail, "leaf": name,
                                                              "leaf_batch_shape": None if ids is None else ids.shape,
                                                              "want": ref.shape})
            good = False
        elif not np.all(ok):
            w = np.argwhere(~ok)[0]
            ctx.violation(f"{what}-tears-sample-apart", {**detail, "leaf": name, "slot": w,
                                                         "note": "elements of one slot decode to different ids/positions"})
            good = False
        elif not np.array_equal(ids, ref):
            w = np.argwhere(ids != ref)[0]
            ctx.violation(f"{what}-misaligns-fields", {**detail, "leaf": name, "slot": w,
                                                       "got_id": ids[tuple(w)], "rewards_id": ref[tuple(w)]})
            good = False
    d = np.asarray(buf.dones)
    if d.shape != ref.shape or not np.array_equal(d, H.f_done(ref)):
        ctx.violation(f"{what}-misaligns-fields", {**detail, "leaf": "dones"})
        good = False
    return ref if good else None


def judge_indices(ctx, idx, N, B, detail, what="batch-indices"):
    idx = np.asarray(idx)
    ctx.monitor("index_matrices_checked")
    nb = N // B
    if idx.shape != (nb, B):
        ctx.violation(f"{what}-shape", {**detail, "got": idx.shape, "want": [nb, B]})
        return False
    if not np.issubdtype(idx.dtype, np.integer):
        ctx.violation(f"{what}-not-integer", {**detail, "dtype": str(idx.dtype)})
        return False
    flat = idx.reshape(-1)
    if flat.size and (flat.min() < 0 or flat.max() >= N):
        ctx.violation(f"{what}-out-of-range", {**detail, "got": idx})
        return False
    if len(np.unique(flat)) != flat.size:
        ctx.violation(f"{what}-duplicate-sample", {**detail, "got": idx})
        return False
    return True


# ------------------------------------------------------------------ unit: api
def _api_grid(tier):
    if tier == "thorough":
        shapes = [(E, S) for E in range(1, 5) for S in range(1, 17)]
        return [(E, S, B) for (E, S) in shapes for B in range(1, E * S + 2)]
    shapes = [(1, 1), (1, 4), (1, 7), (2, 3), (2, 8), (3, 5), (3, 7), (4, 4), (4, 9)]
    grid = []
    for (E, S) in shapes:
        N = E * S
        bs = sorted({1, 2, 3, N // 2, N // 2 + 1, N - 1, N, N + 1, max(1, N // 3), max(1, N // 4 + 1)})
        grid += [(E, S, B) for B in bs if 1 <= B <= N + 1]
    return grid


def _allops(buf, key, B, N):
    import jax

    flat = buf.flatten_axes()
    idx = flat.batch_indices(B, key=key)
    rows = jax.vmap(flat.gather)(idx) if N // B > 0 else None
    bs = buf.batches(B, key=key)
    seq = flat.batch_indices(B, key=None)
    sm = buf.sample(B, key=key) if B <= N else None
    return flat, idx, rows, bs, seq, sm


def _judge_api_case(ctx, out, specs, shape, B, detail, full=True):
    """Returns (ok, idx as numpy or None)."""
    N = int(np.prod(shape))
    flat, idx, rows, bs, seq, sm = out
    nb = N // B
    ok = judge_indices(ctx, idx, N, B, detail)
    ok &= judge_indices(ctx, seq, N, B, {**detail, "key": None})
    idx_np = np.asarray(idx) if ok else None
    if not full:
        return ok, idx_np
    ref = judge_buffer(ctx, "flatten", flat, specs, 1, detail)
    if ref is not None:
        if ref.shape != (N,) or not np.array_equal(np.sort(ref), np.arange(N)):
            ctx.violation("flatten-loses-or-duplicates-sample", {**detail, "got_ids": ref})
            ref = None
        else:
            ctx.monitor("flatten_bijection_checked")
            if np.array_equal(ref, np.arange(N)):
                ctx.monitor("flatten_is_c_order")
    if nb > 0 and idx_np is not None:
        got = judge_buffer(ctx, "gather", rows, specs, 2, detail)
        if got is not None and ref is not None:
            ctx.monitor("gather_rows_checked", nb)
            if not np.array_equal(got, ref[idx_np]):
                ctx.violation("gather-returns-other-rows-than-asked", {**detail, "indices": idx_np, "got_ids": got})
                ok = False
        gb = judge_buffer(ctx, "batches", bs, specs, 2, detail)
        if gb is not None:
            if gb.shape != (nb, B):
                ctx.violation("batches-shape", {**detail, "got": gb.shape, "want": [nb, B]})
                ok = False
            elif len(np.unique(gb)) != nb * B or gb.min() < 0 or gb.max() >= N:
                ctx.violation("batches-duplicate-or-foreign-sample", {**detail, "got_ids": gb})
                ok = False
            else:
                ctx.monitor("batches_partition_checked")
        else:
            ok = False
    if sm is not None:
        gs = judge_buffer(ctx, "sample", sm, specs, 1, detail)
        if gs is not None:
            if gs.shape != (B,) or gs.min() < 0 or gs.max() >= N:
                ctx.violation("sample-shape-or-foreign-sample", {**detail, "got_ids": gs})
                ok = False
            else:
                ctx.monitor("sample_rows_checked", B)
                if len(np.unique(gs)) == B:
                    ctx.monitor("sample_rows_distinct")
    return ok and ref is not None, idx_np


def _shuffle_judgement(ctx, idx_by_key, N, B, detail, scope):
    """idx_by_key: list of index matrices obtained with different keys for the same (N, B)."""
    K = len(idx_by_key)
    if K < 2 or N // B == 0:
        return
    r = N % B
    # order: two keys giving the identical matrix has probability r!/N!
    lg_m = _lg10_fact(N) - _lg10_fact(r)
    if math.log10(K * (K - 1) / 2) - lg_m < -6:
        ctx.monitor(f"{scope}_key_dependence_judged")
        for a, b in itertools.combinations(range(K), 2):
            if np.array_equal(idx_by_key[a], idx_by_key[b]):
                ctx.violation(f"{scope}-shuffle-ignores-key", {**detail, "keys": [a, b], "indices": idx_by_key[a]})
                break
    else:
        ctx.monitor(f"{scope}_key_dependence_not_judgeable")
    if r > 0:
        dropped = [frozenset(set(range(N)) - set(np.asarray(m).reshape(-1).tolist())) for m in idx_by_key]
        if (K - 1) * _lg10_comb(N, r) > 6:
            ctx.monitor(f"{scope}_dropped_set_judged")
            if len(set(dropped)) == 1:
                ctx.violation(f"{scope}-same-samples-dropped-for-every-key",
                              {**detail, "dropped": sorted(dropped[0]), "keys": K})
        else:
            ctx.monitor(f"{scope}_dropped_set_not_judgeable")


def u_api(ctx, shard, nshards):
    import equinox as eqx
    import jax
    from jax import random as jr
    from vlib import c09_helpers as H

    grid = _api_grid(ctx.tier)
    grid = [g for i, g in enumerate(grid) if i % nshards == shard]
    K = 4
    spec_cycle = ["plain", "rich", "scalar", "tuple"]
    n_eager = 0
    eager_budget = ctx.n(6, 20)
    for gi, (E, S, B) in enumerate(grid):
        N = E * S
        sname = spec_cycle[(gi + shard) % len(spec_cycle)] if not ctx.quick else spec_cycle[gi % 4]
        specs = spec_of(sname)
        shape = (S,) if (E == 1 and gi % 2 == 0) else (E, S)
        buf, _ = H.make_buffer(shape, *specs)
        legacy = gi % 9 == 4
        fn = eqx.filter_jit(lambda b, k, B=B, N=N: _allops(b, k, B, N))
        idxs = []
        for k in range(K):
            key = jr.PRNGKey(int(ctx.rng.integers(0, 2**31 - 1))) if legacy else ctx.key(gi * 16 + k)
            detail = {"shape": shape, "spec": sname, "B": B, "key_index": k, "mode": "jit",
                      "key_type": "legacy-uint32" if legacy else "typed"}
            try:
                out = fn(buf, key)
                out = jax.tree.map(lambda x: np.asarray(x) if eqx.is_array(x) else x, out)
            except Exception as e:  # the documented API must not raise on a valid configuration
                ctx.violation("buffer-api-raises", {**detail, "error": f"{type(e).__name__}: {str(e)[:300]}"})
                ctx.case(detail, nontrivial=_nontrivial(N, B), cls=f"api/{sname}/raised")
                break
            ok, idx_np = _judge_api_case(ctx, out, specs, shape, B, detail, full=(k < 2))
            if k < 2:
                ctx.case(detail, nontrivial=_nontrivial(N, B),
                         cls=f"api/{sname}/{'1d' if len(shape) == 1 else '2d'}/"
                             f"{'B>N' if B > N else 'rem' if N % B else 'exact'}")
            if idx_np is not None:
                idxs.append(idx_np)
        _shuffle_judgement(ctx, idxs, N, B, {"shape": shape, "B": B}, "batch-indices")
        # eager on a subset: the same calls outside jit (concrete values all the way)
        if n_eager < eager_budget and gi % max(1, len(grid) // eager_budget) == 0 and B <= N:
            n_eager += 1
            detail = {"shape": shape, "spec": sname, "B": B, "key_index": 0, "mode": "eager"}
            try:
                out = _allops(buf, ctx.key(gi * 16), B, N)
                out = jax.tree.map(lambda x: np.asarray(x) if eqx.is_array(x) else x, out)
                _judge_api_case(ctx, out, specs, shape, B, detail)
                ctx.monitor("api_eager_cases")
                # eager and jit agree on the index matrix for the same key
                if idxs and not legacy and not np.array_equal(np.asarray(out[1]), idxs[0]):
                    ctx.violation("batch-indices-eager-jit-differ", {**detail, "eager": out[1], "jit": idxs[0]})
            except Exception as e:
                ctx.violation("buffer-api-raises", {**detail, "error": f"{type(e).__name__}: {str(e)[:300]}"})
            ctx.case(detail, nontrivial=_nontrivial(N, B), cls=f"api/{sname}/eager")
    ctx.notes["grid_cases"] = len(grid)
    ctx.notes["exhaustive_subspace"] = ("all envs<=4, steps<=16, 1<=B<=N+1 (this shard: every %d-th)" % nshards
                                        if not ctx.quick else "stratified subset")
    ctx.require("flatten_bijection_checked", 5)
    ctx.require("gather_rows_checked", 5)
    ctx.require("batches_partition_checked", 5)
    ctx.require("index_matrices_checked", 10)
    ctx.require("sample_rows_checked", 5)


# ------------------------------------------------------------------ unit: axes
def u_axes(ctx, shard, nshards):
    import equinox as eqx
    import jax
    from jax import random as jr
    from vlib import c09_helpers as H

    def run_case(shape, axes, specs, sname, B, ki):
        ndim = len(shape)
        N = int(np.prod(shape))
        ax = tuple(range(ndim)) if axes is None else ((axes,) if isinstance(axes, int) else tuple(axes))
        ax = tuple(a + ndim if a < 0 else a for a in ax)
        lead = int(np.prod([shape[a] for a in ax]))
        rest = [shape[a] for a in range(ndim) if a not in ax]
        detail = {"shape": shape, "batch_axes": axes, "spec": sname, "B": B, "key_index": ki}
        cls = f"axes/{ndim}d/{'all' if len(ax) == ndim else 'partial'}/{sname}"
        ctx.case(detail, nontrivial=N >= 2 and (len(ax) >= 2 or ax[0] != 0), cls=cls)
        try:
            buf, _ = H.make_buffer(shape, *specs)
            flat = buf.flatten_axes(axes)
            bnd = 1 + len(rest)
            ref = judge_buffer(ctx, "flatten", flat, specs, bnd, detail)
            if ref is not None:
                if ref.shape != (lead, *rest) or not np.array_equal(np.sort(ref.reshape(-1)), np.arange(N)):
                    ctx.violation("flatten-loses-or-duplicates-sample", {**detail, "got_shape": ref.shape})
                else:
                    ctx.monitor("axes_flatten_bijection_checked")
                    if len(ax) >= 2 and tuple(ax) != tuple(range(len(ax))):
                        ctx.monitor("axes_flatten_needed_a_real_transpose")
                    # axes that were not selected keep their meaning: slot [r, i, j, ...] holds the sample whose
                    # coordinates along the unselected axes are (i, j, ...), and one r = one coordinate tuple
                    # along the selected axes
                    rest_axes = [a for a in range(ndim) if a not in ax]
                    if rest_axes:
                        co = np.unravel_index(ref, shape)
                        good = True
                        for pos, a in enumerate(rest_axes):
                            shp = [1] * ref.ndim
                            shp[1 + pos] = shape[a]
                            good &= np.array_equal(co[a], np.broadcast_to(np.arange(shape[a]).reshape(shp), ref.shape))
                        for a in ax:
                            good &= bool(np.all(co[a] == co[a][(slice(None),) + (0,) * len(rest_axes)].reshape(
                                (-1,) + (1,) * len(rest_axes))))
                        ctx.monitor("axes_partial_flatten_coordinates_checked")
                        if not good:
                            ctx.violation("flatten-scrambles-unflattened-axes", {**detail, "got_ids": ref})
                if tuple(flat.shape) != (lead, *rest):
                    ctx.violation("flatten-shape", {**detail, "got": flat.shape, "want": [lead, *rest]})
            if B <= lead:
                key = ctx.key(ki)
                nb = lead // B
                bs = buf.batches(B, key=key, batch_axes=axes)
                gb = judge_buffer(ctx, "batches", bs, specs, 2 + len(rest), detail)
                if gb is not None:
                    if gb.shape != (nb, B, *rest) or len(np.unique(gb)) != gb.size or \
                            (gb.size and (gb.min() < 0 or gb.max() >= N)):
                        ctx.violation("batches-duplicate-or-foreign-sample", {**detail, "got_shape": gb.shape})
                    else:
                        ctx.monitor("axes_batches_partition_checked")
                sm = buf.sample(B, key=key, batch_axes=axes)
                gs = judge_buffer(ctx, "sample", sm, specs, 1 + len(rest), detail)
                if gs is not None:
                    if gs.shape != (B, *rest) or gs.min() < 0 or gs.max() >= N:
                        ctx.violation("sample-shape-or-foreign-sample", {**detail, "got_shape": gs.shape})
                    else:
                        ctx.monitor("axes_sample_checked")
                # the PPO pattern on the flattened buffer
                if len(rest) == 0:
                    idx = np.asarray(flat.batch_indices(B, key=key))
                    if judge_indices(ctx, idx, lead, B, detail) and nb > 0 and ref is not None:
                        g = flat.gather(idx[0])
                        got = judge_buffer(ctx, "gather", g, specs, 1, detail)
                        if got is not None and not np.array_equal(got, ref[idx[0]]):
                            ctx.violation("gather-returns-other-rows-than-asked", {**detail, "indices": idx[0], "got": got})
        except Exception as e:
            ctx.violation("buffer-api-raises", {**detail, "error": f"{type(e).__name__}: {str(e)[:300]}"})

    def numpy_case(shape, specs, sname, ki):
        """Observation / action / state / mask leaves given as NumPy arrays (legal pytree leaves, accepted by
        the constructor). One mechanism, one key: flatten_axes must treat them like any other array leaf."""
        N = int(np.prod(shape))
        detail = {"shape": shape, "spec": sname, "numpy_leaves": True, "key_index": ki}
        ctx.case(detail, nontrivial=len(shape) >= 2 and N >= 2, cls=f"axes/numpy-leaves/{sname}")
        ctx.monitor("axes_numpy_leaf_cases")
        try:
            buf, _ = H.make_buffer(shape, *specs, numpy_leaves=True)
            flat = buf.flatten_axes()
            dec = H.decode_buffer(flat, specs, 1)
            ref = [i for n, i, ok in dec if n == "rewards"][0]
            bad = [n for n, i, ok in dec if i is None or i.shape != ref.shape or not np.all(ok) or not np.array_equal(i, ref)]
            if bad:
                leaf = [a for _, _, _, a in H.walk(specs[0], flat.observations)][0]
                g = flat.gather(np.array([0, N - 1]))
                first = [a for _, _, _, a in H.walk(specs[0], g.observations)][0]
                ctx.violation("flatten-axes-skips-numpy-leaves",
                              {**detail, "leaves_not_flattened": bad, "rewards_shape": np.asarray(flat.rewards).shape,
                               "observation_leaf_shape": np.asarray(leaf).shape,
                               "gather_rows_0_and_last_observation": np.asarray(first),
                               "gather_rows_0_and_last_rewards": np.asarray(g.rewards),
                               "want": "every per-sample leaf flattened to leading axis N; row i of every leaf = sample i"})
            else:
                ctx.monitor("axes_numpy_leaves_flattened_like_the_rest")
        except Exception as e:
            ctx.violation("flatten-axes-skips-numpy-leaves", {**detail, "error": f"{type(e).__name__}: {str(e)[:300]}"})

    def mirror_spec(shape):
        # feature axes with the same sizes as the batch axes: an axis mix-up stays shape-correct
        feats = [L("f32", shape[-1]), L("f32", shape[0]), L("i32", *shape[-2:])]
        obs = ("dict", tuple((f"m{i}", f) for i, f in enumerate(feats)))
        return (obs, L("i32", shape[0]), ("state", (("h", L("f32", shape[-1], 2)),)), L("bits", 10))

    shapes2 = [(2, 3), (3, 3), (4, 5), (1, 6)] if ctx.quick else \
        [(E, S) for E in range(1, 5) for S in (1, 2, 3, 5, 8, 16)] + [(6, 6), (7, 3)]
    axes2 = [None, (0, 1), (1, 0), 0, 1, -1, (-1, -2), (-2, -1)]
    shapes3 = [(2, 3, 4), (3, 3, 3)] if ctx.quick else [(2, 3, 4), (3, 3, 3), (1, 4, 2), (2, 2, 5), (4, 1, 3), (3, 2, 2)]
    axes3 = [None, (0, 1, 2), (2, 0, 1), (1, 2), (0, 2), 2, (2, 0), (1, 0, 2), (-1, 0)]
    todo = []
    for shape, axes_list, snames in [(s_, axes2, ("mirror", "rich")) for s_ in shapes2] + \
            [(s_, axes3, ("mirror",)) for s_ in shapes3]:
        for axes in axes_list:
            ndim = len(shape)
            axn = tuple(range(ndim)) if axes is None else ((axes,) if isinstance(axes, int) else axes)
            lead = int(np.prod([shape[a] for a in axn]))
            for sname in snames:
                for B in sorted({1, max(1, lead // 2), max(1, lead - 1)} if (ndim == 2 and not ctx.quick and sname == "mirror")
                                else {1, max(1, lead // 2)}):
                    todo.append((shape, axes, sname, B))
    for ki, (shape, axes, sname, B) in enumerate(todo):
        if ki % nshards == shard:
            run_case(shape, axes, mirror_spec(shape) if sname == "mirror" else spec_of(sname), sname, B, ki)
    ctx.notes["axes_cases_total"] = len(todo)
    # NumPy-array leaves in the observation / action / state / mask pytrees
    ki = len(todo)
    for shape in ([(2, 3), (3, 4)] if ctx.quick else [(2, 3), (3, 4), (1, 5), (4, 4), (2, 3, 2)]):
        for sname in ("plain", "rich"):
            ki += 1
            if ki % nshards == shard:
                numpy_case(shape, spec_of(sname), sname, ki)
    if shard != 0:
        ctx.require("axes_flatten_bijection_checked", 20)
        ctx.require("axes_flatten_needed_a_real_transpose", 5)
        ctx.require("axes_batches_partition_checked", 20)
        ctx.require("axes_partial_flatten_coordinates_checked", 5)
        return
    # under jit as well (static batch_axes)
    for shape, axes in (((3, 4), (1, 0)), ((2, 3, 4), (2, 0, 1)), ((4, 3), None)):
        specs = mirror_spec(shape)
        buf, _ = H.make_buffer(shape, *specs)
        N = int(np.prod(shape))
        detail = {"shape": shape, "batch_axes": axes, "spec": "mirror", "mode": "jit"}
        ctx.case(detail, nontrivial=True, cls="axes/jit")
        try:
            fl, bs = eqx.filter_jit(lambda b, k, axes=axes: (b.flatten_axes(axes), b.batches(2, key=k, batch_axes=axes)))(buf, ctx.key(9000))
            ref = judge_buffer(ctx, "flatten", fl, specs, 1, detail)
            if ref is not None and not np.array_equal(np.sort(ref), np.arange(N)):
                ctx.violation("flatten-loses-or-duplicates-sample", detail)
            gb = judge_buffer(ctx, "batches", bs, specs, 2, detail)
            if gb is not None and (len(np.unique(gb)) != gb.size or gb.size != (N // 2) * 2):
                ctx.violation("batches-duplicate-or-foreign-sample", detail)
            ctx.monitor("axes_jit_cases")
        except Exception as e:
            ctx.violation("buffer-api-raises", {**detail, "error": f"{type(e).__name__}: {str(e)[:300]}"})
    ctx.require("axes_flatten_bijection_checked", 20)
    ctx.require("axes_flatten_needed_a_real_transpose", 5)
    ctx.require("axes_batches_partition_checked", 20)
    ctx.require("axes_partial_flatten_coordinates_checked", 5)
    ctx.require("axes_jit_cases", 3)


# ------------------------------------------------------------------ unit: tag (end-to-end PPO.train)
def _tag_setup(E, S, NB, EP, sname, normalize, ec, vc, shape1d):
    import equinox as eqx
    from lerax.algorithm import PPO
    from vlib import c09_helpers as H

    N = E * S
    specs = spec_of(sname)
    algo = PPO(num_envs=E, num_steps=S, num_batches=NB, num_epochs=EP, normalize_advantages=normalize,
               value_loss_coefficient=vc, entropy_loss_coefficient=ec, clip_value_loss=False)
    B = int(algo.batch_size)
    if B < 1:
        return None
    tmax = EP * (N // B) + 4
    algo = eqx.tree_at(lambda a: a.optimizer, algo, H.recorder(tmax, 0.5 * B / vc))
    shape = (S,) if shape1d else (E, S)
    buf, _ = H.make_buffer(shape, *specs)
    pol = H.TagPolicy(N, specs)
    opt = algo.optimizer.init(eqx.filter(pol, eqx.is_inexact_array))
    return dict(algo=algo, buf=buf, pol=pol, opt=opt, N=N, B=B, EP=EP, specs=specs, ec=ec, vc=vc,
                normalize=normalize, shape=shape, tmax=tmax)


_FIELD_OF = {"observations": "observation", "actions": "action", "states": "policy-state", "action_masks": "mask"}


def judge_train(ctx, cfg, new_pol, opt_state, detail, agg):
    """Decode the recorded per-step gradients; returns list (per step) of id arrays, or None."""
    from vlib import c09_helpers as H

    N, B, EP, ec, vc = cfg["N"], cfg["B"], cfg["EP"], cfg["ec"], cfg["vc"]
    nb = N // B
    r = N % B
    G = np.asarray(opt_state["G"], np.float64)
    P = np.asarray(opt_state["P"], np.float64)
    count = int(opt_state["count"])
    ctx.monitor("train_runs_decoded")
    if count != EP * nb:
        ctx.violation("train-minibatch-step-count", {**detail, "steps": count, "want": EP * nb,
                                                     "note": "num_epochs * floor(N / batch_size) optimiser steps expected"})
    count_c = min(count, cfg["tmax"])
    names = H.TagPolicy.channel_names(cfg["specs"])
    ids_all = np.arange(N)
    steps = []
    clean = True
    for t in range(count_c):
        q = -G[t, :, H.CH_VISIT] / ec
        x = q * B
        n = np.round(x)
        if not np.all(np.isfinite(x)) or abs(q.sum() - 1.0) > 1e-3:
            ctx.inconc(f"visit channel of step {t} not decodable (sum {q.sum()!r}) in {detail}")
            return None
        if np.max(np.abs(x - n)) > 0.02:
            alt = [b for b in range(1, 4 * N + 1) if np.max(np.abs(q * b - np.round(q * b))) < 0.02]
            if alt:
                ctx.violation("minibatch-size-differs-from-batch-size", {**detail, "step": t, "rows": alt[0], "want": B})
                clean = False
                steps.append(None)
                continue
            ctx.inconc(f"visit channel of step {t} not integral in {detail}")
            return None
        n = n.astype(int)
        ctx.monitor("minibatch_steps_decoded")
        if n.max() > 1:
            ctx.violation("sample-twice-in-one-minibatch", {**detail, "step": t, "ids": ids_all[n > 1], "counts": n[n > 1]})
            clean = False
        if n.sum() != B:
            ctx.violation("minibatch-size-differs-from-batch-size", {**detail, "step": t, "rows": int(n.sum()), "want": B})
            clean = False
        once = n == 1
        # field integrity of rows visited exactly once
        mis = -G[t][:, H.CH_MIS0:] * B / ec
        ctx.monitor("rows_field_checked", int(once.sum()))
        bad = np.argwhere(np.abs(mis[once]) > 0.5)
        if len(bad):
            j = ids_all[once][bad[0][0]]
            ch = names[bad[0][1]]
            ctx.violation(f"train-row-{_FIELD_OF[ch.split('.')[0].split('[')[0]]}-from-other-sample",
                          {**detail, "step": t, "observation_id": j, "leaf": ch, "mismatch": mis[j, bad[0][1]]})
            clean = False
        ret = P[t] - G[t, :, H.CH_VALUE] * B / vc
        want_ret = H.f_return(ids_all)
        eb = np.abs(ret - want_ret) > 1e-3 * (np.abs(want_ret) + np.abs(P[t])) + 1e-3
        if np.any(eb & once):
            j = int(ids_all[eb & once][0])
            ctx.violation("train-row-return-from-other-sample", {**detail, "step": t, "observation_id": j,
                                                                 "got_return": ret[j], "want": want_ret[j]})
            clean = False
        # advantage * ratio channel
        adv = -G[t, :, H.CH_LOGP] * B
        A = H.f_adv(ids_all)
        if cfg["normalize"]:
            m = n.astype(np.float64)
            # normalisation over the rows of this minibatch (population std, float32 eps)
            mean = (m * A).sum() / m.sum()
            std = math.sqrt((m * (A - mean) ** 2).sum() / m.sum())
            want = (A - mean) / (std + float(np.finfo(np.float32).eps))
            if B == 1 or std < 1e-6:
                want = None
        else:
            want = A
        if want is not None and n.max() <= 1 and n.sum() == B:
            ea = np.abs(adv - want) > 1e-3 * np.abs(want) + 1e-4
            ctx.monitor("rows_advantage_checked", int(once.sum()))
            if np.any(ea & once):
                j = int(ids_all[ea & once][0])
                key = "train-row-normalised-advantage-channel-mismatch" if cfg["normalize"] else \
                    "train-row-advantage-or-logprob-from-other-sample"
                ctx.violation(key, {**detail, "step": t, "observation_id": j, "got_adv_times_ratio": adv[j],
                                    "want": want[j]})
                clean = False
        steps.append(n)
    if count != EP * nb or any(s is None for s in steps):
        return None
    # ---- per epoch: disjoint, exactly nb*B used
    epochs = []
    for e in range(EP):
        ns = np.array(steps[e * nb:(e + 1) * nb]).reshape(nb, N)
        vis = ns.sum(0)
        ctx.monitor("epochs_checked")
        if nb and vis.max() > 1:
            ctx.violation("sample-in-two-minibatches-of-one-epoch", {**detail, "epoch": e, "ids": ids_all[vis > 1],
                                                                      "counts": vis[vis > 1]})
            clean = False
        if vis.sum() != nb * B:
            ctx.violation("epoch-uses-wrong-number-of-samples", {**detail, "epoch": e, "used": int(vis.sum()),
                                                                 "want": nb * B})
            clean = False
        epochs.append(ns)
        if r > 0 and nb and vis.max() <= 1:
            dropped = ids_all[vis == 0]
            agg["drop_total"] += 1
            agg["drop_lg"] += _lg10_comb(N, r)
            if np.array_equal(dropped, np.arange(N - r, N)):
                agg["drop_tail"] += 1
                agg["drop_tail_lg"] += _lg10_comb(N, r)
    total = np.array(steps).reshape(-1, N).sum(0) if steps else np.zeros(N, int)
    # ---- across epochs: fresh shuffle
    if EP >= 2 and nb >= 1 and clean:
        lg_m = _lg10_partitions(N, B)
        if math.log10(EP * (EP - 1) / 2) - lg_m < -6:
            ctx.monitor("epoch_freshness_judged")
            for a, b in itertools.combinations(range(EP), 2):
                if np.array_equal(epochs[a], epochs[b]):
                    ctx.violation("epochs-reuse-the-same-shuffle", {**detail, "epochs": [a, b],
                                                                    "minibatch_ids": [ids_all[x > 0] for x in epochs[a]]})
                    break
        else:
            ctx.monitor("epoch_freshness_not_judgeable")
        if r > 0:
            if (EP - 1) * _lg10_comb(N, r) > 6:
                ctx.monitor("epoch_dropped_set_judged")
                ds = {tuple(ids_all[e.sum(0) == 0]) for e in epochs}
                if len(ds) == 1:
                    ctx.violation("same-samples-dropped-every-epoch", {**detail, "dropped": list(ds)[0], "epochs": EP})
            else:
                ctx.monitor("epoch_dropped_set_not_judgeable")
    # ---- second read-out: SGD contraction of the value column (gradient tagging of the design)
    tabv = np.asarray(new_pol.tab[:, H.CH_VALUE], np.float64)
    r0 = H.f_return(ids_all)
    resid = r0 - tabv
    with np.errstate(all="ignore"):
        visits = np.log2(r0 / resid)
    if not np.all(np.isfinite(visits)) or np.max(np.abs(visits - np.round(visits))) > 0.05:
        ctx.inconc(f"SGD tag decode not integral in {detail}: {visits}")
    else:
        v = np.round(visits).astype(int)
        ctx.monitor("sgd_tag_decodes")
        if not np.array_equal(v, total):
            ctx.inconc(f"the two read-outs disagree in {detail}: sgd {v} recorder {total}")
        if v.max(initial=0) > EP:
            ctx.violation("sample-visited-more-than-num-epochs-times", {**detail, "visits": v, "epochs": EP})
        if v.sum() != EP * nb * B:
            ctx.violation("update-uses-wrong-number-of-samples", {**detail, "total": int(v.sum()), "want": EP * nb * B})
    return epochs if clean else None


def _tail_verdict(ctx, agg):
    """Unit-level: the dropped remainder must not always be the tail of the flattened rollout (which is what
    trimming before shuffling does). Under a uniform shuffle each epoch drops the tail with chance 1/C(N,r)."""
    ctx.notes["dropped_sets"] = dict(agg)
    if agg["drop_total"] >= 3 and agg["drop_lg"] > 6:
        ctx.monitor("dropped_tail_statistic_judged")
        if agg["drop_tail"] == agg["drop_total"]:
            ctx.violation("dropped-samples-always-the-tail", {"epochs_observed": agg["drop_total"],
                                                              "log10_chance_under_uniform_shuffle": -agg["drop_lg"]})


def _tag_configs(ctx, shard, nshards):
    rng = np.random.default_rng([ctx.seed, 909])  # same list in every shard, then strided
    cfgs = []
    n = ctx.n(12, 64) * nshards
    fixed = [(3, 7, 4, 3), (1, 8, 3, 2), (2, 5, 3, 4), (4, 4, 5, 2), (1, 1, 1, 2), (2, 1, 1, 3), (3, 5, 2, 1),
             (2, 6, 12, 2), (4, 16, 9, 3), (1, 13, 4, 5), (2, 12, 5, 3), (3, 9, 7, 1),
             # remainders of >= 2 samples and several epochs: "same samples dropped every epoch" is judgeable
             (3, 9, 5, 4), (2, 13, 4, 4), (4, 11, 6, 4), (1, 15, 3, 5), (3, 15, 6, 3), (4, 7, 5, 3), (2, 9, 4, 5),
             (1, 16, 5, 1), (3, 11, 4, 4)]
    for i in range(n):
        if i < len(fixed):
            E, S, NB, EP = fixed[i]
        else:
            E = int(rng.integers(1, 5)) if (ctx.quick or i % 10) else int(rng.integers(5, 9))
            S = int(rng.integers(1, 17)) if (ctx.quick or i % 10) else int(rng.integers(17, 33))
            N = E * S
            mode = i % 4
            if mode == 0:
                NB = int(rng.integers(1, N + 1))
            elif mode == 1:  # want a remainder
                cand = [nbb for nbb in range(1, N + 1) if N % (N // nbb) != 0]
                NB = int(rng.choice(cand)) if cand else 1
            elif mode == 2:
                NB = int(rng.integers(1, min(N, 6) + 1))
            else:
                NB = max(1, N // int(rng.integers(1, 5)))
            EP = int(rng.choice([1, 1, 2, 3, 3, 4, 5]))
        sname = ["scalar", "rich", "plain", "tuple"][i % 4]
        if E * S > 512:
            continue
        normalize = (i % 5 == 3)
        ec, vc = [(1.0, 1.0), (0.5, 1.0), (1.0, 0.25), (2.0, 0.5)][i % 4]
        shape1d = (E == 1 and i % 2 == 0)
        cfgs.append((i, E, S, NB, EP, sname, normalize, ec, vc, shape1d))
    return [c for k, c in enumerate(cfgs) if k % nshards == shard]


def u_tag(ctx, shard, nshards):
    import equinox as eqx
    from jax import random as jr

    agg = {"drop_total": 0, "drop_tail": 0, "drop_lg": 0.0, "drop_tail_lg": 0.0}
    K = ctx.n(3, 3)
    doc_mismatch = 0
    for (i, E, S, NB, EP, sname, normalize, ec, vc, shape1d) in _tag_configs(ctx, shard, nshards):
        cfg = _tag_setup(E, S, NB, EP, sname, normalize, ec, vc, shape1d)
        if cfg is None:
            ctx.monitor("configs_excluded_batch_size_zero")
            continue
        N, B = cfg["N"], cfg["B"]
        nb, r = N // B, N % B
        if nb != NB:
            doc_mismatch += 1
        fn = eqx.filter_jit(cfg["algo"].train)
        firsts = []
        for k in range(K):
            legacy = (i % 7 == 5)
            key = jr.PRNGKey(int(ctx.rng.integers(0, 2**31 - 1))) if legacy else ctx.key(i * 8 + k)
            detail = {"num_envs": E, "num_steps": S, "num_batches": NB, "batch_size": B, "num_epochs": EP,
                      "spec": sname, "normalize": normalize, "buffer_shape": cfg["shape"], "key_index": k,
                      "key_type": "legacy-uint32" if legacy else "typed", "cfg": i}
            cls = (f"tag/{sname}/{'rem' if r else 'exact'}/{'1epoch' if EP == 1 else 'multi-epoch'}"
                   f"{'/norm' if normalize else ''}")
            ctx.case(detail, nontrivial=_nontrivial(N, B), cls=cls)
            try:
                new_pol, opt_state, _log = fn(cfg["pol"], cfg["opt"], cfg["buf"], key=key)
            except Exception as e:
                ctx.violation("ppo-train-raises", {**detail, "error": f"{type(e).__name__}: {str(e)[:300]}"})
                break
            epochs = judge_train(ctx, cfg, new_pol, opt_state, detail, agg)
            if epochs is not None:
                ctx.monitor("train_runs_fully_judged")
                if EP == 1:
                    ctx.monitor("single_epoch_runs_judged")
                if EP >= 2 and r > 0:
                    ctx.monitor("multi_epoch_runs_with_remainder_judged")
                    ds = {tuple(np.flatnonzero(e.sum(0) == 0)) for e in epochs}
                    if len(ds) >= 2:
                        ctx.monitor("runs_where_dropped_set_differs_between_epochs")
                if epochs:
                    firsts.append(epochs[0])
        # a different key for train gives a different first epoch
        if len(firsts) >= 2 and nb >= 1:
            if math.log10(len(firsts) * (len(firsts) - 1) / 2 + 1e-9) - _lg10_partitions(N, B) < -6:
                ctx.monitor("train_key_dependence_judged")
                for a, b in itertools.combinations(range(len(firsts)), 2):
                    if np.array_equal(firsts[a], firsts[b]):
                        ctx.violation("train-shuffle-ignores-key", {"cfg": i, "keys": [a, b], "N": N, "B": B})
                        break
    ctx.notes["configs_where_batches_per_epoch_differ_from_num_batches"] = doc_mismatch
    _tail_verdict(ctx, agg)
    ctx.require("train_runs_fully_judged", 5)
    ctx.require("minibatch_steps_decoded", 20)
    ctx.require("rows_field_checked", 50)
    ctx.require("sgd_tag_decodes", 5)
    ctx.require("epochs_checked", 10)
    ctx.require("multi_epoch_runs_with_remainder_judged", 2)
    ctx.require("runs_where_dropped_set_differs_between_epochs", 1)
    ctx.require("epoch_freshness_judged", 2)
    if not ctx.quick:
        ctx.require("epoch_freshness_judged", 5)
        ctx.require("epoch_dropped_set_judged", 2)
        ctx.require("single_epoch_runs_judged", 3)
        ctx.require("runs_where_dropped_set_differs_between_epochs", 2)


# ------------------------------------------------------------------ unit: eager (contracts)
def u_eager(ctx, shard, nshards):
    import equinox as eqx
    import icontract
    import jax
    from lerax.buffer.base_buffer import AbstractBuffer
    from vlib import c09_helpers as H
    from vlib.common import PostBroken

    ev = []
    cur = {"specs": None}

    def _concrete(x):
        try:
            return np.asarray(x)
        except Exception:
            return None

    def flatten_post(self, batch_axes, result):
        if _concrete(result.rewards) is None:
            ctx.monitor("contract_flatten_on_tracers")
            return True
        ctx.monitor("contract_flatten_concrete")
        ev.append(("flatten", tuple(self.shape), result))
        return True

    def batch_indices_post(self, batch_size, key, result):
        r = _concrete(result)
        if r is None:
            ctx.monitor("contract_batch_indices_on_tracers")
            return True
        ctx.monitor("contract_batch_indices_concrete")
        ev.append(("indices", int(self.shape[0]), int(batch_size), r, key is not None))
        return True

    def gather_post(self, indices, result):
        i = _concrete(indices)
        if i is None or _concrete(result.rewards) is None:
            ctx.monitor("contract_gather_on_tracers")
            return True
        ctx.monitor("contract_gather_concrete")
        ev.append(("gather", i, self, result))
        return True

    orig = (AbstractBuffer.flatten_axes, AbstractBuffer.batch_indices, AbstractBuffer.gather)
    AbstractBuffer.flatten_axes = icontract.ensure(flatten_post, error=PostBroken)(orig[0])
    AbstractBuffer.batch_indices = icontract.ensure(batch_indices_post, error=PostBroken)(orig[1])
    AbstractBuffer.gather = icontract.ensure(gather_post, error=PostBroken)(orig[2])

    def judge_events(cfg, detail, new_pol, opt_state, agg, expect_gather):
        """Contract conditions evaluated on the recorded concrete calls, plus agreement with the gradients."""
        N, B, EP, specs = cfg["N"], cfg["B"], cfg["EP"], cfg["specs"]
        nb = N // B
        flat_ref = None
        mats = []
        pending = []
        seq_known = True
        for e in ev:
            if e[0] == "flatten":
                ref = judge_buffer(ctx, "flatten", e[2], specs, 1, detail)
                if ref is not None:
                    if ref.shape != (N,) or not np.array_equal(np.sort(ref), np.arange(N)):
                        ctx.violation("flatten-loses-or-duplicates-sample", {**detail, "got_ids": ref})
                    else:
                        flat_ref = ref
                        ctx.monitor("flatten_bijection_checked")
            elif e[0] == "indices":
                if pending:
                    ctx.violation("train-epoch-skips-index-rows", {**detail, "rows_left": len(pending)})
                if e[1] != N or e[2] != B:
                    ctx.violation("train-epoch-calls-batch-indices-with-other-size", {**detail, "total": e[1], "B": e[2]})
                if not e[4]:
                    ctx.violation("train-epoch-does-not-shuffle", {**detail, "note": "batch_indices called without key"})
                if judge_indices(ctx, e[3], N, B, detail):
                    mats.append(e[3])
                    pending = list(e[3]) if expect_gather else []
                    seq_known = True
                else:
                    pending, seq_known = [], False
            elif e[0] == "gather":
                idx, src, res = e[1], e[2], e[3]
                got = judge_buffer(ctx, "gather", res, specs, 1, detail)
                src_ref = judge_buffer(ctx, "gather-source", src, specs, 1, detail)
                if got is not None and src_ref is not None:
                    ctx.monitor("gather_rows_checked")
                    try:
                        want = src_ref[idx]  # NumPy indexing: out-of-range raises
                    except IndexError:
                        ctx.violation("gather-index-out-of-range", {**detail, "indices": idx})
                        want = None
                    if want is not None and not np.array_equal(got, want):
                        ctx.violation("gather-returns-other-rows-than-asked", {**detail, "indices": idx, "got_ids": got})
                if not seq_known:
                    pass
                elif not pending or not np.array_equal(pending[0], idx):
                    ctx.violation("train-epoch-gathers-rows-not-from-its-index-matrix",
                                  {**detail, "gathered": idx, "next_row": pending[0] if pending else None})
                else:
                    pending.pop(0)
        if pending:
            ctx.violation("train-epoch-skips-index-rows", {**detail, "rows_left": len(pending)})
        epochs = judge_train(ctx, cfg, new_pol, opt_state, detail, agg)
        # the minibatches seen by the gradient are exactly the rows of the index matrices seen by the contract
        if epochs is not None and flat_ref is not None and len(mats) == len(epochs):
            for e_i, (m, ns) in enumerate(zip(mats, epochs)):
                for t in range(nb):
                    want = np.zeros(N, int)
                    want[flat_ref[m[t]]] = 1
                    ctx.monitor("gradient_vs_index_rows_compared")
                    if not np.array_equal(want, ns[t]):
                        ctx.violation("minibatch-trained-on-differs-from-index-row",
                                      {**detail, "epoch": e_i, "step": t, "index_row_ids": flat_ref[m[t]],
                                       "gradient_ids": np.flatnonzero(ns[t])})
        elif epochs is not None and len(mats) != len(epochs):
            ctx.violation("batch-indices-not-called-once-per-epoch", {**detail, "calls": len(mats), "epochs": len(epochs)})
        if len(mats) >= 2:
            _shuffle_judgement(ctx, mats, N, B, detail, "train-epochs")

    agg = {"drop_total": 0, "drop_tail": 0, "drop_lg": 0.0, "drop_tail_lg": 0.0}
    try:
        # (1) train_epoch outside jit: batch_indices concrete, gather inside the scan on tracers
        rng = np.random.default_rng([ctx.seed, 910])
        cases = []
        for i in range(ctx.n(5, 24) * nshards):
            E, S = int(rng.integers(1, 5)), int(rng.integers(2, 13))
            N = E * S
            NB = int(rng.integers(1, min(N, 7) + 1))
            cases.append((i, E, S, NB, ["scalar", "plain", "rich", "tuple"][i % 4]))
        for (i, E, S, NB, sname) in [c for k, c in enumerate(cases) if k % nshards == shard]:
            cfg = _tag_setup(E, S, NB, 1, sname, False, 1.0, 1.0, E == 1 and i % 2 == 0)
            if cfg is None:
                continue
            detail = {"mode": "train_epoch-outside-jit", "num_envs": E, "num_steps": S, "num_batches": NB,
                      "batch_size": cfg["B"], "spec": sname, "case": i}
            ctx.case(detail, nontrivial=_nontrivial(cfg["N"], cfg["B"]), cls=f"eager/train_epoch/{sname}")
            ev.clear()
            try:
                new_pol, opt_state, _ = cfg["algo"].train_epoch(cfg["pol"], cfg["opt"], cfg["buf"], key=ctx.key(i))
            except Exception as e:
                ctx.violation("ppo-train-raises", {**detail, "error": f"{type(e).__name__}: {str(e)[:300]}"})
                continue
            judge_events(cfg, detail, new_pol, opt_state, agg, expect_gather=False)
            ctx.monitor("train_epoch_outside_jit_cases")
        # (2) the whole train under disable_jit: every call concrete
        cases = []
        for i in range(ctx.n(2, 5) * nshards):
            # N >= 10 so that "two epochs with the identical index matrix" is judgeable (N!/r! >> 1e6)
            E, S = int(rng.integers(2, 4)), int(rng.integers(5, 7))
            N = E * S
            NB = int(rng.integers(2, 4))
            EP = int(rng.integers(2, 4))
            cases.append((i, E, S, NB, EP, ["scalar", "plain"][i % 2] if i % 5 else "rich"))
        for (i, E, S, NB, EP, sname) in [c for k, c in enumerate(cases) if k % nshards == shard]:
            cfg = _tag_setup(E, S, NB, EP, sname, False, 1.0, 1.0, E == 1 and i % 2 == 1)
            if cfg is None:
                continue
            detail = {"mode": "train-disable-jit", "num_envs": E, "num_steps": S, "num_batches": NB,
                      "batch_size": cfg["B"], "num_epochs": EP, "spec": sname, "case": i}
            ctx.case(detail, nontrivial=_nontrivial(cfg["N"], cfg["B"]), cls=f"eager/train-disable-jit/{sname}")
            ev.clear()
            try:
                with jax.disable_jit():
                    new_pol, opt_state, _ = cfg["algo"].train(cfg["pol"], cfg["opt"], cfg["buf"], key=ctx.key(500 + i))
            except Exception as e:
                ctx.violation("ppo-train-raises", {**detail, "error": f"{type(e).__name__}: {str(e)[:300]}"})
                continue
            judge_events(cfg, detail, new_pol, opt_state, agg, expect_gather=True)
            ctx.monitor("train_disable_jit_cases")
    finally:
        AbstractBuffer.flatten_axes, AbstractBuffer.batch_indices, AbstractBuffer.gather = orig
    _tail_verdict(ctx, agg)
    ctx.require("contract_batch_indices_concrete", 3)
    ctx.require("contract_gather_concrete", 2)
    ctx.require("contract_flatten_concrete", 3)
    ctx.require("gradient_vs_index_rows_compared", 5)
    ctx.require("train_disable_jit_cases", 1)


def run_unit(name, ctx):
    for prefix, fn, table in (("api", u_api, N_API), ("tag", u_tag, N_TAG), ("eager", u_eager, N_EAGER),
                              ("axes", u_axes, N_AXES)):
        if name.startswith(prefix) and name[len(prefix):].isdigit():
            return fn(ctx, int(name[len(prefix):]), table[ctx.tier])
    raise ValueError(name)
