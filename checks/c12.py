"""C12 JAX transformations are transparent; parallel environments never mix.

Two halves.

(1) Environment functions.  For every built-in environment and a set of wrapper stacks a pool of
(state, action, successor, key) inputs is generated (reset states, states a few random steps in,
"hostile" states far from the reset distribution, in- and out-of-bounds actions).  Each functional
component (initial, transition, observation, reward, terminal, truncate, action_mask, infos, and the Gym
style step / reset) is evaluated on the pool items
    * one item per call under eqx.filter_jit, in shuffled order, a subset twice in another order
      (bit-identical answers demanded: the function may depend on nothing but its arguments),
    * eagerly (a, b, a, ...; each compared with the jit answer, repeats bit-identical),
    * under jax.vmap / eqx.filter_vmap over batches of size 1, 2, 7 drawn from the pool with repetition
      (every batch member compared with the jit answer for that member; the same members in another
      batch order must give the same answers),
    * interleaved with calls on a second instance of the environment with another `dt`.
(2) Collection.  N-environment collection must equal N independent single-environment collections from
the same per-environment keys and start states (on-policy PPO/A2C/REINFORCE, off-policy DQN/SAC with
per-environment replay buffers); per-environment advantages must equal the float64 GAE reference on that
environment's own stream; on deterministic finite MDPs with a key-independent table policy and distinct
start states the N rollouts captured at the `train` boundary of the real `iteration` must equal N
pure-Python interpreter rollouts; stateful policies must keep one private call counter per environment.
"""

from __future__ import annotations

import numpy as np

RULE = ("env half: case = one execution (a jit call on one pool item, an eager call, or one vmapped batch of size "
        "1/2/7) of one environment function of one built-in environment / wrapper stack, judged against the "
        "per-item jit answers (floats allclose, integers/bools exact, repeats bit-identical); non-trivial = the "
        "function's answers differ between at least two pool items (so a stale, cached or foreign answer is "
        "visible); distinct by (env, function, mode, member indices, digest of the inputs). collection half: case "
        "= one environment's stream of an N-environment collection judged against its single-environment twin, "
        "the float64 GAE reference, or the pure-Python interpreter / call-counter model; non-trivial = N >= 2 and "
        "the stream contains >= 1 episode end (interpreter / counter cases) or differs from another "
        "environment's stream (twin cases)")
FLOOR = {"quick": 300, "thorough": 1500}
ASSUMPTIONS = [
    "per-item eqx.filter_jit evaluation is the reference the other modes are compared with (mode equivalence is "
    "the property itself); eager = plain Python call of the method (diffrax / lax.scan still compile their bodies)",
    "float tolerance |a-b| <= rtol*|b| + atol*max(1, max|b| over the leaf): classic control / finite MDP / "
    "wrappers rtol 1e-5 atol 1e-6; MuJoCo and G1 positions, velocities, kinematics and the outputs of "
    "observation/reward rtol 1e-4 atol 1e-4; MuJoCo solver by-products (qacc*, qfrc_*, efc_*, contact, actuator_*, "
    "sensordata ...) rtol 1e-3 atol 1e-3 because the constraint solver amplifies float32 reassociation (measured "
    "jit-vs-vmap on HalfCheetah: 4e-5 of the leaf scale); solver iteration counters are not compared",
    "an integer/bool mismatch between modes is excused as a float32 threshold tie (counted, not judged) only if "
    "perturbing the float inputs of the reference call by 3e-6 relative also flips it",
    "twin comparison of collections: a divergence is excused as chaotic amplification only if re-running the "
    "single-environment collection with policy parameters and start-state floats perturbed by 1e-6 relative "
    "diverges in its discrete stream no later than the observed divergence",
    "RefMDP interpreter and float64 gae_ref are the semantics of the harness-defined FiniteMDP / of GAE",
    "true op-by-op evaluation (jax.disable_jit) is exercised for classic control only (MuJoCo: > 30 s per call)",
]

CLASSIC = ("CartPole", "MountainCar", "ContinuousMountainCar", "Acrobot", "Pendulum")
MUJOCO = ("InvertedPendulum", "HalfCheetah", "Hopper", "Reacher", "Swimmer", "Walker2d", "InvertedDoublePendulum",
          "Pusher", "Ant", "Humanoid", "HumanoidStandup")
MJ_QUICK = ("InvertedPendulum", "HalfCheetah")
WRAP_UNITS = ("wrap-a", "wrap-b", "wrap-c")
COLL_UNITS = ("coll-onpolicy", "coll-offpolicy", "coll-table", "coll-stateful", "coll-realenv")

TOL_CLASSIC = (1e-5, 1e-6)
_MJ_PRIMARY = ("qpos", "qvel", "time", "ctrl", "act", "xpos", "xquat", "xmat", "xipos", "ximat", "xanchor", "xaxis",
               "geom_xpos", "geom_xmat", "site_xpos", "site_xmat", "subtree_com", "cdof", "cinert", "cvel", "mocap_pos",
               "mocap_quat")


def units(tier):
    us = [{"name": f"cc-{n}", "timeout": 1500} for n in CLASSIC]
    us += [{"name": n, "timeout": 1800} for n in WRAP_UNITS]
    mj = MJ_QUICK if tier == "quick" else MUJOCO
    us += [{"name": f"mj-{n}", "timeout": 1800 if tier == "quick" else 3000} for n in mj]
    if tier != "quick":
        us.append({"name": "g1-Standing", "timeout": 3300})
    us += [{"name": n, "timeout": 2400} for n in COLL_UNITS]
    return us


# ------------------------------------------------------------------------------------------ tree comparison
def _flat(tree):
    """[(path, ndarray)] over array-like leaves; PRNG keys become their raw data."""
    import jax

    out = []
    for p, x in jax.tree_util.tree_leaves_with_path(tree):
        if isinstance(x, jax.Array):
            if jax.dtypes.issubdtype(x.dtype, jax.dtypes.prng_key):
                x = jax.random.key_data(x)
            out.append((jax.tree_util.keystr(p), np.asarray(x)))
        elif isinstance(x, (np.ndarray, np.generic, bool, int, float)):
            out.append((jax.tree_util.keystr(p), np.asarray(x)))
    return out


def _tol_classic(path, fn):
    return TOL_CLASSIC


def _tol_mujoco(path, fn):
    """(rtol, atol) for a leaf, or None = not compared."""
    if "niter" in path:
        return None
    if "sim_state" in path:
        name = path.split(".")[-1].split("[")[0]
        if name in _MJ_PRIMARY and "_impl" not in path:
            return (1e-4, 1e-4)
        return (1e-3, 1e-3)
    return (1e-4, 1e-4)


def _cmp(want, got, tol, fn="", exact_only=False, skip_exact=False):
    """None if `got` agrees with `want`; else a dict describing the worst leaf.  kind in
    structure|exact|float."""
    fw, fg = _flat(want), _flat(got)
    if [p for p, _ in fw] != [p for p, _ in fg]:
        return {"kind": "structure", "want_paths": [p for p, _ in fw][:8], "got_paths": [p for p, _ in fg][:8]}
    worst = None
    for (p, a), (_, b) in zip(fw, fg):
        if a.shape != b.shape or a.dtype != b.dtype:
            return {"kind": "structure", "leaf": p, "want": f"{a.dtype}{a.shape}", "got": f"{b.dtype}{b.shape}"}
        if a.size == 0:
            continue
        if np.issubdtype(a.dtype, np.inexact):
            if exact_only:
                continue
            t = tol(p, fn)
            if t is None:
                continue
            rtol, atol = t
            a64, b64 = a.astype(np.float64), b.astype(np.float64)
            fin = np.isfinite(a64)
            if not np.array_equal(fin, np.isfinite(b64)) or not np.array_equal(a64[~fin], b64[~fin], equal_nan=True):
                return {"kind": "float", "leaf": p, "why": "non-finite pattern differs", "want": a, "got": b}
            if not fin.any():
                continue
            scale = max(1.0, float(np.max(np.abs(a64[fin]))))
            excess = np.where(fin, np.abs(a64 - b64) - (rtol * np.abs(a64) + atol * scale), -1.0)
            m = float(np.max(excess))
            if m > 0 and (worst is None or m > worst["excess"]):
                j = int(np.argmax(excess))
                worst = {"kind": "float", "leaf": p, "excess": m, "index": j, "want": float(a64.ravel()[j]),
                         "got": float(b64.ravel()[j]), "absdiff": float(np.abs(a64 - b64).ravel()[j]),
                         "leaf_scale": scale, "rtol": rtol, "atol": atol}
        else:
            if skip_exact:
                continue
            t = tol(p, fn)
            if t is None:
                continue
            if not np.array_equal(a, b):
                return {"kind": "exact", "leaf": p, "want": a, "got": b}
    return worst


def _bits_equal(a, b):
    fa, fb = _flat(a), _flat(b)
    if len(fa) != len(fb):
        return False
    return all(pa == pb and x.shape == y.shape and x.dtype == y.dtype and np.array_equal(x, y, equal_nan=True)
               for (pa, x), (pb, y) in zip(fa, fb))


def _tidx(tree, i):
    import jax

    return jax.tree.map(lambda x: x[i] if isinstance(x, (jax.Array, np.ndarray)) else x, tree)


def _tstack(items):
    import jax
    from jax import numpy as jnp

    return jax.tree.map(lambda *xs: jnp.stack(xs) if isinstance(xs[0], (jax.Array, np.ndarray)) else xs[0], *items)


def _digest(*trees):
    import hashlib

    h = hashlib.sha1()
    for t in trees:
        for _, a in _flat(t):
            h.update(np.ascontiguousarray(a).tobytes())
    return h.hexdigest()[:12]


# ------------------------------------------------------------------------------------------ env half
def _env_fns():
    """name -> f(env, s, a, ns, k).  Heavy ones contain the dynamics."""
    return {
        "initial": lambda env, s, a, ns, k: env.initial(key=k),
        "transition": lambda env, s, a, ns, k: env.transition(s, a, key=k),
        "observation": lambda env, s, a, ns, k: env.observation(s, key=k),
        "reward": lambda env, s, a, ns, k: env.reward(s, a, ns, key=k),
        "terminal": lambda env, s, a, ns, k: env.terminal(s, key=k),
        "truncate": lambda env, s, a, ns, k: env.truncate(s),
        "action_mask": lambda env, s, a, ns, k: env.action_mask(s, key=k),
        "infos": lambda env, s, a, ns, k: (env.state_info(s), env.transition_info(s, a, ns)),
        "step": lambda env, s, a, ns, k: env.step(s, a, key=k),
        "reset": lambda env, s, a, ns, k: env.reset(key=k),
    }


HEAVY = ("transition", "step")


def _sample_actions(rng, space, n):
    from lerax.space import Box, Discrete, MultiBinary, MultiDiscrete

    if isinstance(space, Discrete):
        return np.asarray(rng.integers(0, int(space.n), size=n))
    if isinstance(space, MultiDiscrete):
        nvec = np.asarray(space.nvec)
        return np.stack([rng.integers(0, nvec) for _ in range(n)])
    if isinstance(space, MultiBinary):
        return rng.integers(0, 2, size=(n,) + tuple(space.shape)).astype(bool)
    assert isinstance(space, Box), space
    lo, hi = np.asarray(space.low, np.float64), np.asarray(space.high, np.float64)
    lo, hi = np.broadcast_to(lo, space.shape), np.broadcast_to(hi, space.shape)
    out = np.zeros((n,) + tuple(space.shape), np.float32)
    for i in range(n):
        if np.all(np.isfinite(lo)) and np.all(np.isfinite(hi)):
            w = hi - lo
            # a third of the actions reach outside the box
            pad = 0.4 if i % 3 == 0 else 0.0
            out[i] = rng.uniform(lo - pad * w, hi + pad * w)
        else:
            out[i] = rng.normal(0, 2.0, size=space.shape)
    return out


def _hostile(ctx, label, states, frac_idx):
    """Replace the physical part of some pool states by values far from the reset distribution."""
    import equinox as eqx
    from jax import numpy as jnp

    rng = ctx.rng
    u = states.unwrapped
    n = len(frac_idx)
    if n == 0:
        return states
    idx = np.asarray(frac_idx)
    if hasattr(u, "y"):  # classic control
        y = np.array(u.y)
        d = y.shape[-1]
        base = {"CartPole": lambda: rng.normal(0, [2.0, 2.0, 0.3, 2.0]),
                "MountainCar": lambda: np.array([rng.uniform(-1.2, 0.6), rng.uniform(-0.07, 0.07)]),
                "ContinuousMountainCar": lambda: np.array([rng.uniform(-1.2, 0.6), rng.uniform(-0.07, 0.07)]),
                "Acrobot": lambda: np.concatenate([rng.uniform(-np.pi, np.pi, 2), rng.uniform(-4, 4, 2)]),
                "Pendulum": lambda: np.array([rng.uniform(-np.pi, np.pi), rng.uniform(-12, 12)])}
        gen = None
        for k, g in base.items():
            if label.endswith(k) or f"({k}" in label or label == k:
                gen = g
        if gen is None:
            gen = lambda: rng.normal(0, 1.0, size=d)  # noqa: E731
        for i in idx:
            y[i] = gen()
        return eqx.tree_at(lambda s: s.unwrapped.y, states, jnp.asarray(y, u.y.dtype))
    if hasattr(u, "sim_state"):
        qpos, qvel = np.array(u.sim_state.qpos), np.array(u.sim_state.qvel)
        for i in idx:
            qpos[i] = qpos[i] + rng.normal(0, 0.3, size=qpos[i].shape)
            qvel[i] = qvel[i] + rng.normal(0, 1.0, size=qvel[i].shape)
        return eqx.tree_at(lambda s: (s.unwrapped.sim_state.qpos, s.unwrapped.sim_state.qvel), states,
                           (jnp.asarray(qpos, u.sim_state.qpos.dtype), jnp.asarray(qvel, u.sim_state.qvel.dtype)))
    return states


def _build_pool(ctx, label, env, N, depth, kseed):
    import equinox as eqx
    import jax
    from jax import numpy as jnp
    from jax import random as jr

    K = jr.split(ctx.key(kseed), N)
    vinit = eqx.filter_jit(jax.vmap(lambda k: env.initial(key=k)))
    vtrans = eqx.filter_jit(jax.vmap(lambda s, a, k: env.transition(s, a, key=k)))
    hist = [vinit(K)]
    for r in range(depth):
        A = jnp.asarray(_sample_actions(ctx.rng, env.action_space, N))
        hist.append(vtrans(hist[-1], A, jr.split(ctx.key(kseed + 1 + r), N)))
    d = ctx.rng.integers(0, depth + 1, size=N)
    d[0] = 0
    S = _tstack([_tidx(hist[int(d[i])], i) for i in range(N)])
    host = [i for i in range(N) if i % 3 == 2]
    S = _hostile(ctx, label, S, host)
    A = jnp.asarray(_sample_actions(ctx.rng, env.action_space, N))
    K2 = jr.split(ctx.key(kseed + 50), N)
    NS = vtrans(S, A, K2)
    return S, A, NS, K2


def _varies(outs):
    """True if the reference answers differ between at least two pool items."""
    f0 = _flat(outs[0])
    for o in outs[1:]:
        for (_, a), (_, b) in zip(f0, _flat(o)):
            if a.shape != b.shape or not np.array_equal(a, b, equal_nan=True):
                return True
    return False


def _perturb_inputs(rng, s, a, ns, scale=3e-6):
    import jax
    from jax import numpy as jnp

    def p(x):
        if isinstance(x, jax.Array) and jnp.issubdtype(x.dtype, jnp.floating):
            u = rng.uniform(-1, 1, size=x.shape)
            return (x * (1 + scale * u) + 1e-7 * rng.uniform(-1, 1, size=x.shape)).astype(x.dtype)
        return x

    return jax.tree.map(p, s), jax.tree.map(p, a), jax.tree.map(p, ns)


class _EnvJudge:
    """Runs the mode comparison for one environment (stack)."""

    def __init__(self, ctx, label, env, tol, plan):
        self.ctx, self.label, self.env, self.tol, self.plan = ctx, label, env, tol, plan
        self.fns = _env_fns()

    def viol(self, key, detail):
        self.ctx.violation(f"{key}-{self.label}", {"env": self.label, **detail})

    def run(self):
        import time

        import equinox as eqx
        import jax
        from jax import random as jr

        ctx, env, plan = self.ctx, self.env, self.plan
        t0 = time.time()
        N = plan["N"]
        try:
            S, A, NS, K = _build_pool(ctx, self.label, env, N, plan["depth"], plan.get("kseed", 100))
        except Exception as ex:
            self.viol("pool-construction-raises-under-jit-vmap", {"error": repr(ex)[:500]})
            return
        self.pool = (S, A, NS, K)
        item = lambda i: (_tidx(S, i), A[i], _tidx(NS, i), K[i])  # noqa: E731
        ctx.notes.setdefault("pool", {})[self.label] = {"N": N, "t_build_s": round(time.time() - t0, 1)}
        for fn in plan["fns"]:
            t1 = time.time()
            try:
                self._one_fn(fn, item, N)
            except Exception as ex:  # harness-side surprise for this function: keep going with the others
                import traceback

                ctx.inconc(f"{self.label}/{fn}: harness exception {type(ex).__name__}: {str(ex)[:300]} "
                           f"{traceback.format_exc()[-600:]}")
            ctx.notes.setdefault("fn_wall_s", {})[f"{self.label}/{fn}"] = round(time.time() - t1, 1)
        if plan.get("second_instance"):
            try:
                self._second_instance(item, N)
            except Exception as ex:
                ctx.inconc(f"{self.label}/second-instance: harness exception {type(ex).__name__}: {str(ex)[:300]}")

    # -- helpers
    def _call(self, mode, fn, f, *args):
        """Run one call; a raise in a non-eager mode (or eager) is the refutation for that mode."""
        import jax

        try:
            out = f(*args)
            jax.block_until_ready(out)
            return out
        except Exception as ex:
            self.viol(f"{fn}-raises-under-{mode}", {"fn": fn, "mode": mode, "error": f"{type(ex).__name__}: {str(ex)[:400]}"})
            return _RAISED

    def _judge(self, fn, mode, want, got, inputs, detail, varies):
        """Compare one item's answer with the reference answer.  Returns True if it agreed."""
        ctx = self.ctx
        bad = _cmp(want, got, self.tol, fn, exact_only=True)
        if bad is not None and bad["kind"] == "exact":
            if self._threshold_tie(fn, inputs, want):
                ctx.monitor("threshold_ties_excused")
                return True
            self.viol(f"{fn}-{mode}-differs-from-jit", {"fn": fn, "mode": mode, **detail, **bad})
            return False
        if bad is None:
            bad = _cmp(want, got, self.tol, fn, skip_exact=True)
        if bad is not None:
            self.viol(f"{fn}-{mode}-differs-from-jit", {"fn": fn, "mode": mode, **detail, **bad})
            return False
        return True

    def _threshold_tie(self, fn, inputs, want):
        s, a, ns, k = inputs
        f = self.jf[fn]
        for _ in range(6):
            ps, pa, pns = _perturb_inputs(self.ctx.rng, s, a, ns)
            try:
                o = f(self.env, ps, pa, pns, k)
            except Exception:
                return False
            bad = _cmp(want, o, self.tol, fn, exact_only=True)
            if bad is not None and bad["kind"] == "exact":
                return True
        return False

    def _one_fn(self, fn, item, N):
        import equinox as eqx
        import jax
        from jax import numpy as jnp

        ctx, env, plan, label = self.ctx, self.env, self.plan, self.label
        rng = ctx.rng
        f = self.fns[fn]
        if not hasattr(self, "jf"):
            self.jf, self.ref = {}, {}
        jf = self.jf[fn] = eqx.filter_jit(f)
        S, A, NS, K = self.pool
        # ---- jit, one item per call, shuffled; reference answers
        order = rng.permutation(N)
        ref = [None] * N
        for i in order:
            o = self._call("jit", fn, jf, env, *item(int(i)))
            if o is _RAISED:
                return
            ref[int(i)] = o
        self.ref[fn] = ref
        varies = _varies(ref)
        ctx.monitor(f"functions_with_input_dependent_answers" if varies else "functions_with_constant_answers")
        dg = [_digest(*item(i)[:2], item(i)[3]) for i in range(N)]
        for i in range(N):
            ctx.case({"env": label, "fn": fn, "mode": "jit", "i": i, "h": dg[i]}, nontrivial=varies, cls=f"{self.kind}/{fn}/jit")
        ctx.monitor("jit_calls", N)
        # repeat a subset in another order: bit-identical
        sub = rng.permutation(N)[: min(N, plan["repeat"])]
        for i in sub:
            o = self._call("jit", fn, jf, env, *item(int(i)))
            if o is _RAISED:
                return
            ctx.monitor("repeat_calls_bit_compared")
            ctx.case({"env": label, "fn": fn, "mode": "jit-repeat", "i": int(i), "h": dg[int(i)]}, nontrivial=varies,
                     cls=f"{self.kind}/{fn}/jit-repeat")
            if not _bits_equal(ref[int(i)], o):
                self.viol(f"{fn}-jit-answer-depends-on-call-history",
                          {"fn": fn, "i": int(i), "diff": _cmp(ref[int(i)], o, lambda p, f: (0.0, 0.0), fn)})
        # ---- eager: a, b, a, (c, b) ...
        ne = plan["eager_heavy"] if fn in HEAVY else plan["eager"]
        if ne > 0:
            pattern = [0]
            for m in range(1, ne):
                pattern += [m, m - 1]  # a, b, a, c, b, d, c ...
            d = [int(x) for x in rng.permutation(N)]
            seq = [d[p % N] for p in pattern[:ne]]
            first = {}
            for i in seq:
                o = self._call("eager", fn, f, env, *item(i))
                if o is _RAISED:
                    break
                ctx.monitor("eager_calls")
                ctx.case({"env": label, "fn": fn, "mode": "eager", "i": i, "h": dg[i], "rep": i in first},
                         nontrivial=varies, cls=f"{self.kind}/{fn}/eager")
                self._judge(fn, "eager", ref[i], o, item(i), {"i": i}, varies)
                if i in first:
                    ctx.monitor("repeat_calls_bit_compared")
                    if not _bits_equal(first[i], o):
                        self.viol(f"{fn}-eager-answer-depends-on-call-history", {"fn": fn, "i": i})
                else:
                    first[i] = o
        # ---- op-by-op (disable_jit), classic control only
        nd = plan.get("disable_jit", 0) if fn != "reset" else min(1, plan.get("disable_jit", 0))
        for i in [int(x) for x in rng.permutation(N)[:nd]]:
            with jax.disable_jit():
                o = self._call("disable_jit", fn, f, env, *item(i))
            if o is _RAISED:
                break
            ctx.monitor("disable_jit_calls")
            ctx.case({"env": label, "fn": fn, "mode": "disable_jit", "i": i, "h": dg[i]}, nontrivial=varies,
                     cls=f"{self.kind}/{fn}/disable_jit")
            self._judge(fn, "disable_jit", ref[i], o, item(i), {"i": i}, varies)
        # ---- vmap over batches
        sizes = plan["sizes_heavy"] if fn in HEAVY else plan["sizes"]
        vf = eqx.filter_jit(jax.vmap(lambda s, a, ns, k: f(env, s, a, ns, k)))
        for B in sizes:
            for rep in range(plan["batches"]):
                if B >= N:
                    idx = rng.permutation(N)[:B]
                else:
                    idx = rng.integers(0, N, size=B)
                    if B >= 4:
                        idx[-1] = idx[0]  # the same item in two batch positions
                idx = np.asarray(idx)
                out = self._vcall(f"vmap{B}", fn, vf, idx)
                if out is _RAISED:
                    break
                perm = rng.permutation(len(idx)) if (B > 1 and rep == 0) else None
                if perm is not None:
                    out_p = self._vcall(f"vmap{B}", fn, vf, idx[perm])
                    if out_p is not _RAISED:
                        ctx.monitor("permuted_batches")
                        nb = 0
                        for j, pj in enumerate(perm):
                            bad = _cmp(_tidx(out, int(pj)), _tidx(out_p, j), self.tol, fn)
                            nb += not _bits_equal(_tidx(out, int(pj)), _tidx(out_p, j))
                            if bad is not None:
                                self.viol(f"{fn}-vmap-answer-depends-on-batch-position",
                                          {"fn": fn, "B": B, "member": int(idx[pj]), **bad})
                        if nb:
                            ctx.monitor("permuted_members_not_bit_identical", nb)
        # ---- un-jitted filter_vmap (classic / finite MDP: cheap) or jitted (MuJoCo)
        B = plan.get("filter_vmap", 0)
        if B and not (fn in HEAVY and not plan.get("filter_vmap_heavy", True)):
            fv = eqx.filter_vmap(lambda s, a, ns, k: f(env, s, a, ns, k))
            if plan.get("filter_vmap_jit"):
                fv = eqx.filter_jit(fv)
            idx = np.asarray(rng.permutation(N)[:B] if B <= N else rng.integers(0, N, size=B))
            self._vcall("filter_vmap", fn, fv, idx)

    def _vcall(self, mode, fn, vf, idx):
        import jax

        ctx = self.ctx
        S, A, NS, K = self.pool
        g = lambda t: jax.tree.map(lambda x: x[idx] if isinstance(x, (jax.Array, np.ndarray)) else x, t)  # noqa: E731
        out = self._call(mode, fn, vf, g(S), A[idx], g(NS), K[idx])
        if out is _RAISED:
            return out
        ref = self.ref[fn]
        varies = _varies(ref)
        ctx.monitor("vmapped_batches")
        ctx.monitor("vmapped_members_compared", len(idx))
        ctx.case({"env": self.label, "fn": fn, "mode": mode, "idx": [int(i) for i in idx],
                  "h": _digest(A[idx], K[idx])}, nontrivial=varies and (len(idx) > 0), cls=f"{self.kind}/{fn}/{mode}")
        for j, i in enumerate(idx):
            i = int(i)
            self._judge(fn, mode, ref[i], _tidx(out, j), (_tidx(S, i), A[i], _tidx(NS, i), K[i]),
                        {"B": len(idx), "position": j, "member": i}, varies)
        return out

    def _second_instance(self, item, N):
        """Calls on another instance (different dt) in between must not change this instance's answers, and the
        other instance must use its own dt."""
        import equinox as eqx
        from jax import numpy as jnp

        ctx, env = self.ctx, self.env
        base = env.unwrapped
        if not hasattr(base, "dt") or "transition" not in self.jf:
            return
        env2 = eqx.tree_at(lambda e: e.unwrapped.dt, env, jnp.asarray(base.dt) * 0.5)
        jf = self.jf["transition"]
        for i in [int(x) for x in ctx.rng.permutation(N)[:3]]:
            o2 = self._call("jit", "transition", jf, env2, *item(i))
            o1 = self._call("jit", "transition", jf, env, *item(i))
            if o1 is _RAISED or o2 is _RAISED:
                return
            ctx.monitor("second_instance_interleavings")
            ctx.case({"env": self.label, "fn": "transition", "mode": "second-instance", "i": i}, nontrivial=True,
                     cls=f"{self.kind}/transition/second-instance")
            if not _bits_equal(self.ref["transition"][i], o1):
                self.viol("transition-jit-answer-depends-on-call-history", {"i": i, "after": "call on another instance"})
            t_in = np.float32(np.asarray(item(i)[0].unwrapped.t))
            want = np.float32(t_in + np.float32(np.asarray(base.dt, np.float32) * np.float32(0.5)))
            got = np.float32(np.asarray(o2.unwrapped.t))
            if abs(float(got) - float(want)) > 1e-6 * max(1.0, abs(float(want))):
                self.viol("transition-ignores-instance-fields", {"i": i, "got_t": float(got), "want_t": float(want)})


_RAISED = object()


def _plan(ctx, kind):
    q = ctx.quick
    fns = ["initial", "transition", "observation", "reward", "terminal", "truncate", "action_mask", "infos", "step", "reset"]
    if kind in ("classic", "wrapper"):
        return dict(N=ctx.n(9, 20), depth=ctx.n(4, 8), fns=fns, repeat=ctx.n(4, 8), eager=ctx.n(3, 5), eager_heavy=ctx.n(3, 5),
                    disable_jit=(ctx.n(1, 2) if kind == "classic" else 0), sizes=(1, 2, 7), sizes_heavy=(1, 2, 7),
                    batches=ctx.n(1, 3), filter_vmap=7, second_instance=(kind == "classic"))
    if kind == "mujoco":
        return dict(N=ctx.n(8, 14), depth=ctx.n(4, 8), fns=fns, repeat=ctx.n(3, 6), eager=ctx.n(2, 3), eager_heavy=ctx.n(2, 3),
                    sizes=(1, 2, 7), sizes_heavy=((2, 7) if q else (1, 2, 7)), batches=ctx.n(1, 2),
                    filter_vmap=7, filter_vmap_jit=True, filter_vmap_heavy=not q, second_instance=True)
    if kind == "g1":
        return dict(N=6, depth=2, fns=["initial", "transition", "observation", "reward", "terminal", "truncate"],
                    repeat=3, eager=2, eager_heavy=0, sizes=(1, 2), sizes_heavy=(2,), batches=1, filter_vmap=0,
                    second_instance=False)
    raise ValueError(kind)


def _run_env(ctx, label, env, kind, tol, plan=None):
    j = _EnvJudge(ctx, label, env, tol, plan or _plan(ctx, "wrapper" if kind == "wrapper" else kind))
    j.kind = kind
    j.run()
    ctx.monitor("environments_judged")


def u_classic(ctx, name):
    import lerax.env.classic_control as cc

    env = getattr(cc, name)()
    _run_env(ctx, name, env, "classic", _tol_classic)
    if not ctx.quick:
        import diffrax

        # the documented Gymnasium-identical configuration
        env2 = getattr(cc, name)(solver=diffrax.Euler())
        p = _plan(ctx, "classic")
        p.update(N=8, fns=["transition", "step", "reward", "terminal"], disable_jit=0, batches=1, kseed=300)
        _run_env(ctx, f"{name}-Euler", env2, "classic", _tol_classic, p)
    ctx.require("jit_calls", 30)
    ctx.require("eager_calls", 10)
    ctx.require("vmapped_members_compared", 50)
    ctx.require("repeat_calls_bit_compared", 10)
    ctx.require("functions_with_input_dependent_answers", 4)


def u_mujoco(ctx, name):
    import lerax.env.mujoco as mj

    env = getattr(mj, name)()
    _run_env(ctx, name, env, "mujoco", _tol_mujoco)
    ctx.require("jit_calls", 30)
    ctx.require("eager_calls", 6)
    ctx.require("vmapped_members_compared", 50)
    ctx.require("functions_with_input_dependent_answers", 4)


def u_g1(ctx):
    from lerax.env.unitree.g1 import G1Standing

    env = G1Standing()
    _run_env(ctx, "G1Standing", env, "g1", _tol_mujoco)
    ctx.require("jit_calls", 12)
    ctx.require("vmapped_members_compared", 10)


# ------------------------------------------------------------------------------------------ wrapper stacks
def _mdp(ctx, kind="discrete", obs_kind="onehot", masks=False, nS=None, nA=None, n_starts=2, p_term=0.25, p_trunc=0.1):
    from vlib.mdp import FiniteMDP, RefMDP, random_tables

    rng = ctx.rng
    nS = nS or int(rng.integers(4, 8))
    if kind == "multibinary":
        nvec, nA = (2, 2), 4
    elif kind == "multidiscrete":
        nvec, nA = (2, 3), 6
    else:
        nvec, nA = (), nA or int(rng.integers(2, 5))
    tabs = random_tables(rng, nS, nA, p_term=p_term, p_trunc=p_trunc, with_masks=masks, n_starts=n_starts)
    kw = dict(trunc=tabs["trunc"], masks=tabs["masks"], kind=kind, nvec=nvec)
    env = FiniteMDP(tabs["P"], tabs["R"], tabs["term"], tabs["starts"], obs_kind=obs_kind, **kw)
    return env, tabs, kw


def _stacks(ctx, which):
    """label -> thunk building the stack.  Labels are stable (they are part of violation keys)."""
    import lerax.env.classic_control as cc
    from jax import numpy as jnp
    from lerax import wrapper as W
    from lerax.space import Box, Discrete

    def flat_dict():
        env, _, _ = _mdp(ctx, obs_kind="dict")
        return W.FlattenObservation(env)

    def deep_mdp():
        env, _, _ = _mdp(ctx, obs_kind="dict", masks=True)
        e = W.FlattenObservation(env)
        n = e.observation_space.flat_size
        e = W.TransformObservation(e, lambda o: 2.0 * o + 1.0, Box(-1.0, 2.0 * 8 + 1.0, shape=(n,)))
        return W.TimeLimit(W.Identity(W.ClipReward(e, -0.5, 0.5)), 3)

    def box_mdp():
        env, _, _ = _mdp(ctx, kind="box")
        return W.TimeLimit(W.RescaleAction(W.ClipAction(env), jnp.array(-3.0), jnp.array(5.0)), 4)

    all_ = {
        "wrap-a": {
            "TimeLimit(CartPole)": lambda: W.TimeLimit(cc.CartPole(), 3),
            "Identity(FiniteMDP-masked)": lambda: W.Identity(_mdp(ctx, masks=True)[0]),
            "FlattenObservation(FiniteMDP-dict)": flat_dict,
            "TransformAction(MountainCar)": lambda: W.TransformAction(cc.MountainCar(), lambda a: 2 - a, Discrete(3)),
            "TimeLimit(FiniteMDP-multidiscrete)": lambda: W.TimeLimit(_mdp(ctx, kind="multidiscrete")[0], 2),
        },
        "wrap-b": {
            "TimeLimit(ClipReward(RescaleAction(ClipObservation(Pendulum))))": lambda: W.TimeLimit(
                W.ClipReward(W.RescaleAction(W.ClipObservation(cc.Pendulum()), jnp.array(-1.0), jnp.array(3.0)), -4.0, -0.5), 4),
            "TimeLimit(Identity(ClipReward(TransformObservation(FlattenObservation(FiniteMDP-dict-masked)))))": deep_mdp,
            "ClipAction(Pendulum)": lambda: W.ClipAction(cc.Pendulum()),
            "TransformReward(Acrobot)": lambda: W.TransformReward(cc.Acrobot(), lambda r: 2.0 * r + 1.0),
        },
        "wrap-c": {
            "RescaleObservation(MountainCar)": lambda: W.RescaleObservation(cc.MountainCar()),
            "TimeLimit(RescaleAction(ClipAction(FiniteMDP-box)))": box_mdp,
            "RescaleAction(ContinuousMountainCar)": lambda: W.RescaleAction(cc.ContinuousMountainCar(), jnp.array(0.0), jnp.array(10.0)),
            "TransformObservation(CartPole)": lambda: W.TransformObservation(
                cc.CartPole(), lambda o: jnp.tanh(o), Box(-1.0, 1.0, shape=(4,))),
            "ClipObservation(TimeLimit(Acrobot))": lambda: W.ClipObservation(W.TimeLimit(cc.Acrobot(), 5)),
        },
    }
    stacks = all_[which]
    if ctx.quick:  # the first three of each unit (one over a diffrax environment at least)
        stacks = dict(list(stacks.items())[:3])
    return stacks


def u_wrappers(ctx, which):
    for label, thunk in _stacks(ctx, which).items():
        try:
            env = thunk()
        except Exception as ex:
            # whether a documented wrapper can be built is C13's question; here it only removes an observation
            ctx.monitor("stacks_not_constructible")
            ctx.notes.setdefault("not_constructible", {})[label] = f"{type(ex).__name__}: {str(ex)[:300]}"
            continue
        p = _plan(ctx, "wrapper")
        if ctx.quick:
            p.update(N=8, repeat=3, eager=3, eager_heavy=2)
        _run_env(ctx, label, env, "wrapper", _tol_classic, p)
    ctx.require("environments_judged", 2)
    ctx.require("jit_calls", 60)
    ctx.require("eager_calls", 10)
    ctx.require("vmapped_members_compared", 100)


def run_unit(name, ctx):
    import warnings

    warnings.filterwarnings("ignore")
    if name.startswith("cc-"):
        return u_classic(ctx, name[3:])
    if name.startswith("mj-"):
        return u_mujoco(ctx, name[3:])
    if name == "g1-Standing":
        return u_g1(ctx)
    if name in WRAP_UNITS:
        return u_wrappers(ctx, name)
    raise ValueError(name)
