"""C12 JAX transformations are transparent; parallel environments never mix.

Two halves.

(1) Environment functions.  For every built-in environment and a set of wrapper stacks a pool of
(state, action, successor, key) inputs is generated (reset states, states a few random steps in,
"hostile" states far from the reset distribution, in- and out-of-bounds actions).  Each functional
component (initial, transition, observation, reward, terminal, truncate, action_mask, infos, and the Gym
style step / reset) is evaluated on the pool items
    * one item per call under eqx.filter_jit, in shuffled order, a subset twice in another order
      (bit-identical answers demanded: the function may depend on nothing but its arguments),
    * eagerly (a, b, a, ...; each compared with the jit answer, repeats bit-identical),
    * under jax.vmap / eqx.filter_vmap over batches of size 1, 2, 7 drawn from the pool with repetition
      (every batch member compared with the jit answer for that member; the same members in another
      batch order must give the same answers),
    * interleaved with calls on a second instance of the environment with another `dt`.
(2) Collection.  N-environment collection must equal N independent single-environment collections from
the same per-environment keys and start states (on-policy PPO/A2C/REINFORCE, off-policy DQN/SAC with
per-environment replay buffers); per-environment advantages must equal the float64 GAE reference on that
environment's own stream; on deterministic finite MDPs with a key-independent table policy and distinct
start states the N rollouts captured at the `train` boundary of the real `iteration` must equal N
pure-Python interpreter rollouts; stateful policies must keep one private call counter per environment;
reset()/iteration() of every algorithm must hand each environment its own key.

Violation keys: <function>-<mode>-differs-from-jit-<Env>, <function>-raises-under-<mode>-<Env>,
<function>-{jit,eager}-answer-depends-on-call-history-<Env>, <function>-vmap-answer-depends-on-batch-position-<Env>,
{onpolicy,offpolicy,...}-vectorised-<field>-differs-from-single-env-collection, advantages-not-gae-of-own-stream,
parallel-rollout-<field>-differs-from-interpreter, policy-state-of-one-env-not-its-own-counter,
{reset,iteration}-gives-parallel-envs-the-same-key, ...
"""

from __future__ import annotations

import numpy as np

RULE = ("env half: case = one execution (a jit call on one pool item, an eager call, or one vmapped batch of size "
        "1/2/7) of one environment function of one built-in environment / wrapper stack, judged against the "
        "per-item jit answers (floats allclose, integers/bools exact, repeats bit-identical); non-trivial = the "
        "function's answers differ between at least two pool items (so a stale, cached or foreign answer is "
        "visible); distinct by (env, function, mode, member indices, digest of the inputs). collection half: case "
        "= one environment's stream of an N-environment collection judged against its single-environment twin, "
        "the float64 GAE reference, or the pure-Python interpreter / call-counter model; non-trivial = N >= 2 and "
        "the stream contains >= 1 episode end (interpreter / counter cases) or differs from another "
        "environment's stream (twin cases)")
FLOOR = {"quick": 1500, "thorough": 6000}
ASSUMPTIONS = [
    "per-item eqx.filter_jit evaluation is the reference the other modes are compared with (mode equivalence is "
    "the property itself); eager = plain Python call of the method (diffrax / lax.scan still compile their bodies)",
    "float tolerance |a-b| <= rtol*|b| + atol*max(1, max|b| over the leaf): classic control / finite MDP / "
    "wrappers rtol 1e-5 atol 1e-6; MuJoCo and G1 positions, velocities, kinematics and the outputs of "
    "observation/reward rtol 1e-4 atol 1e-4; MuJoCo solver by-products (qacc*, qfrc_*, efc_*, contact, actuator_*, "
    "sensordata ...) rtol 1e-3 atol 1e-3 because the constraint solver amplifies float32 reassociation (measured "
    "jit-vs-vmap on HalfCheetah: 4e-5 of the leaf scale); solver iteration counters are not compared",
    "MJX-private collision workspace: rows of `sim_state._impl.contact.*` that belong to candidate pairs separated by more "
    "than 1e-3 in both answers are not compared (measured on Pusher, geoms 15/18 at distance 0.53: eager and jit return "
    "closest points 1.2 cm apart -- a tie in MJX's closest-point search resolved by rounding -- while qpos, qvel and every "
    "force agree bit for bit); the distance itself, touching contacts, constraint forces, accelerations and the next state "
    "are compared",
    "an integer/bool mismatch between modes is excused as a float32 threshold tie (counted, not judged) only if "
    "perturbing the float inputs of the reference call by 3e-6 relative also flips it",
    "conditioning triage (only reached when a float leaf exceeds the tolerance above): the reference call is repeated "
    "sixteen times with every float argument -- environment parameters included -- perturbed by 2e-7, 8e-7, 3e-6 or 1e-5 "
    "relative (two to a hundred float32 ulps: batched and unbatched programs round differently *inside* the solver, "
    "which a two-ulp perturbation of the inputs only partly imitates); a cross-mode difference of at most 30x the largest change these probes cause on that leaf is float32 "
    "rounding amplified by the function's own conditioning (MuJoCo contact solver right after a reset, chaotic "
    "dynamics), counted in ill_conditioned_differences_excused with the worst ratio in the unit notes, not judged",
    "twin comparison of collections: the same triage on the single-environment collection (policy parameters, "
    "environment parameters and start-state floats probed at 2e-7; a float divergence within 30x the probe's effect "
    "is excused); an integer/bool divergence (sampled action, done flag) is excused only if a 1e-6 probe flips the "
    "single-environment run's own integer/bool outputs",
    "RefMDP interpreter and float64 gae_ref are the semantics of the harness-defined FiniteMDP / of GAE",
    "true op-by-op evaluation (jax.disable_jit) is exercised for classic control only (MuJoCo: > 30 s per call)",
]

CLASSIC = ("CartPole", "MountainCar", "ContinuousMountainCar", "Acrobot", "Pendulum")
MUJOCO = ("InvertedPendulum", "HalfCheetah", "Hopper", "Reacher", "Swimmer", "Walker2d", "InvertedDoublePendulum",
          "Pusher", "Ant", "Humanoid", "HumanoidStandup")
MJ_QUICK = ["InvertedPendulum"]  # HalfCheetah (200 s of eager/compile work) moved to the thorough tier
WRAP_UNITS = ("wrap-a", "wrap-b", "wrap-c")
COLL_UNITS = ("coll-onpolicy", "coll-offpolicy", "coll-table", "coll-stateful", "coll-realenv")

TOL_CLASSIC = (1e-5, 1e-6)
_MJ_PRIMARY = ("qpos", "qvel", "time", "ctrl", "act", "xpos", "xquat", "xmat", "xipos", "ximat", "xanchor", "xaxis",
               "geom_xpos", "geom_xmat", "site_xpos", "site_xmat", "subtree_com", "cdof", "cinert", "cvel", "mocap_pos",
               "mocap_quat")


def units(tier):
    us = [{"name": f"cc-{n}", "timeout": 1500} for n in CLASSIC]
    us += [{"name": n, "timeout": 1800} for n in WRAP_UNITS]
    mj = MJ_QUICK if tier == "quick" else MUJOCO
    us += [{"name": f"mj-{n}", "timeout": 1800 if tier == "quick" else 3000} for n in mj]
    if tier != "quick":
        us.append({"name": "g1-Standing", "timeout": 3300})
    us += [{"name": n, "timeout": 2400} for n in COLL_UNITS]
    return us


# ------------------------------------------------------------------------------------------ tree comparison
def _flat(tree):
    """[(path, ndarray)] over array-like leaves; PRNG keys become their raw data."""
    import jax

    out = []
    for p, x in jax.tree_util.tree_leaves_with_path(tree):
        if isinstance(x, jax.Array):
            if jax.dtypes.issubdtype(x.dtype, jax.dtypes.prng_key):
                x = jax.random.key_data(x)
            out.append((jax.tree_util.keystr(p), np.asarray(x)))
        elif isinstance(x, (np.ndarray, np.generic, bool, int, float)):
            out.append((jax.tree_util.keystr(p), np.asarray(x)))
    return out


def _tol_classic(path, fn):
    return TOL_CLASSIC


def _tol_mujoco(path, fn):
    """(rtol, atol) for a leaf, or None = not compared."""
    if "niter" in path:
        return None
    if "sim_state" in path:
        name = path.split(".")[-1].split("[")[0]
        if name in _MJ_PRIMARY and "_impl" not in path:
            return (1e-4, 1e-4)
        return (1e-3, 1e-3)
    return (1e-4, 1e-4)


def _cmp(want, got, tol, fn="", exact_only=False, skip_exact=False, slack=None):
    """None if `got` agrees with `want`; else a dict describing the worst leaf.  kind in
    structure|exact|float.  `slack`: {leaf path: extra absolute tolerance} (conditioning triage)."""
    fw, fg = _flat(want), _flat(got)
    if [p for p, _ in fw] != [p for p, _ in fg]:
        return {"kind": "structure", "want_paths": [p for p, _ in fw][:8], "got_paths": [p for p, _ in fg][:8]}
    worst = None
    # MJX candidate contacts that are clearly separated in both answers (dist > 1e-3) carry no force; their closest-point
    # geometry is not compared (see ASSUMPTIONS)
    sep = {}
    for (p, a), (_, b) in zip(fw, fg):
        if p.endswith("._impl.contact.dist") and a.ndim == 1 and a.shape == b.shape:
            sep[p[: -len("dist")]] = (a > 1e-3) & (b > 1e-3)
    for (p, a), (_, b) in zip(fw, fg):
        if a.shape != b.shape or a.dtype != b.dtype:
            return {"kind": "structure", "leaf": p, "want": f"{a.dtype}{a.shape}", "got": f"{b.dtype}{b.shape}"}
        if sep and "._impl.contact." in p:
            m = sep.get(p[: p.index("._impl.contact.") + len("._impl.contact.")])
            if m is not None and a.ndim >= 1 and a.shape[0] == m.shape[0] and not p.endswith(".dist"):
                a, b = a[~m], b[~m]
        if a.size == 0:
            continue
        if np.issubdtype(a.dtype, np.inexact):
            if exact_only:
                continue
            t = tol(p, fn)
            if t is None:
                continue
            rtol, atol = t
            a64, b64 = a.astype(np.float64), b.astype(np.float64)
            fin = np.isfinite(a64)
            if not np.array_equal(fin, np.isfinite(b64)) or not np.array_equal(a64[~fin], b64[~fin], equal_nan=True):
                return {"kind": "float", "leaf": p, "why": "non-finite pattern differs", "want": a, "got": b}
            if not fin.any():
                continue
            scale = max(1.0, float(np.max(np.abs(a64[fin]))))
            extra = 0.0 if slack is None else float(slack.get(p, 0.0))
            excess = np.where(fin, np.abs(a64 - b64) - (rtol * np.abs(a64) + atol * scale + extra), -1.0)
            m = float(np.max(excess))
            if m > 0 and (worst is None or m > worst["excess"]):
                j = int(np.argmax(excess))
                worst = {"kind": "float", "leaf": p, "excess": m, "index": j, "want": float(a64.ravel()[j]),
                         "got": float(b64.ravel()[j]), "absdiff": float(np.abs(a64 - b64).ravel()[j]),
                         "leaf_scale": scale, "rtol": rtol, "atol": atol}
        else:
            if skip_exact:
                continue
            t = tol(p, fn)
            if t is None:
                continue
            if not np.array_equal(a, b):
                return {"kind": "exact", "leaf": p, "want": a, "got": b}
    return worst


def _deviation(want, other, dev):
    """dev[path] = max over calls of max|other - want| per float leaf (same structure assumed)."""
    for (p, a), (_, b) in zip(_flat(want), _flat(other)):
        if a.size and a.shape == b.shape and np.issubdtype(a.dtype, np.inexact):
            d = np.abs(a.astype(np.float64) - b.astype(np.float64))
            d = d[np.isfinite(d)]
            if d.size:
                dev[p] = max(dev.get(p, 0.0), float(d.max()))
    return dev


ULP_SCALE = 2e-7   # relative size of the probe perturbation (about two float32 ulps)
AMPLIFY = 30.0     # a cross-mode difference within 30x the probe's effect is amplified rounding


def _bits_equal(a, b):
    fa, fb = _flat(a), _flat(b)
    if len(fa) != len(fb):
        return False
    return all(pa == pb and x.shape == y.shape and x.dtype == y.dtype and np.array_equal(x, y, equal_nan=True)
               for (pa, x), (pb, y) in zip(fa, fb))


def _tidx(tree, i):
    import jax

    return jax.tree.map(lambda x: x[i] if isinstance(x, (jax.Array, np.ndarray)) else x, tree)


def _tstack(items):
    import jax
    from jax import numpy as jnp

    return jax.tree.map(lambda *xs: jnp.stack(xs) if isinstance(xs[0], (jax.Array, np.ndarray)) else xs[0], *items)


def _digest(*trees):
    import hashlib

    h = hashlib.sha1()
    for t in trees:
        for _, a in _flat(t):
            h.update(np.ascontiguousarray(a).tobytes())
    return h.hexdigest()[:12]


# ------------------------------------------------------------------------------------------ env half
def _env_fns():
    """name -> f(env, s, a, ns, k).  Heavy ones contain the dynamics."""
    return {
        "initial": lambda env, s, a, ns, k: env.initial(key=k),
        "transition": lambda env, s, a, ns, k: env.transition(s, a, key=k),
        "observation": lambda env, s, a, ns, k: env.observation(s, key=k),
        "reward": lambda env, s, a, ns, k: env.reward(s, a, ns, key=k),
        "terminal": lambda env, s, a, ns, k: env.terminal(s, key=k),
        "truncate": lambda env, s, a, ns, k: env.truncate(s),
        "action_mask": lambda env, s, a, ns, k: env.action_mask(s, key=k),
        "infos": lambda env, s, a, ns, k: (env.state_info(s), env.transition_info(s, a, ns)),
        "step": lambda env, s, a, ns, k: env.step(s, a, key=k),
        "reset": lambda env, s, a, ns, k: env.reset(key=k),
    }


HEAVY = ("transition", "step")


def _sample_actions(rng, space, n):
    from lerax.space import Box, Discrete, MultiBinary, MultiDiscrete

    if isinstance(space, Discrete):
        return np.asarray(rng.integers(0, int(space.n), size=n))
    if isinstance(space, MultiDiscrete):
        nvec = np.asarray(space.nvec)
        return np.stack([rng.integers(0, nvec) for _ in range(n)])
    if isinstance(space, MultiBinary):
        return rng.integers(0, 2, size=(n,) + tuple(space.shape)).astype(bool)
    assert isinstance(space, Box), space
    lo, hi = np.asarray(space.low, np.float64), np.asarray(space.high, np.float64)
    lo, hi = np.broadcast_to(lo, space.shape), np.broadcast_to(hi, space.shape)
    out = np.zeros((n,) + tuple(space.shape), np.float32)
    for i in range(n):
        if np.all(np.isfinite(lo)) and np.all(np.isfinite(hi)):
            w = hi - lo
            # a third of the actions reach outside the box
            pad = 0.4 if i % 3 == 0 else 0.0
            out[i] = rng.uniform(lo - pad * w, hi + pad * w)
        else:
            out[i] = rng.normal(0, 2.0, size=space.shape)
    return out


def _hostile(ctx, env, states, frac_idx):
    """Replace the physical part of some pool states by values far from the reset distribution (so that
    terminal / clipping / wall branches are taken by some pool items)."""
    import equinox as eqx
    from jax import numpy as jnp

    rng = ctx.rng
    u = states.unwrapped
    if len(frac_idx) == 0:
        return states
    idx = np.asarray(frac_idx)
    if hasattr(u, "y"):  # classic control
        y = np.array(u.y)
        d = y.shape[-1]

        def car():  # half of them at the goal side of the hill
            if rng.random() < 0.5:
                return np.array([rng.uniform(0.4, 0.6), rng.uniform(-0.02, 0.07)])
            return np.array([rng.uniform(-1.2, 0.6), rng.uniform(-0.07, 0.07)])

        def acro():  # half of them swung up
            if rng.random() < 0.5:
                return np.concatenate([[rng.uniform(2.5, 3.7), rng.uniform(-0.5, 0.5)], rng.uniform(-4, 4, 2)])
            return np.concatenate([rng.uniform(-np.pi, np.pi, 2), rng.uniform(-4, 4, 2)])

        gen = {"CartPole": lambda: rng.normal(0, [2.0, 2.0, 0.3, 2.0]), "MountainCar": car, "ContinuousMountainCar": car,
               "Acrobot": acro, "Pendulum": lambda: np.array([rng.uniform(-np.pi, np.pi), rng.uniform(-12, 12)])
               }.get(type(env.unwrapped).__name__, lambda: rng.normal(0, 1.0, size=d))
        for i in idx:
            y[i] = gen()
        return eqx.tree_at(lambda s: s.unwrapped.y, states, jnp.asarray(y, u.y.dtype))
    if hasattr(u, "sim_state"):
        qpos, qvel = np.array(u.sim_state.qpos), np.array(u.sim_state.qvel)
        for i in idx:
            qpos[i] = qpos[i] + rng.normal(0, 0.3, size=qpos[i].shape)
            qvel[i] = qvel[i] + rng.normal(0, 1.0, size=qvel[i].shape)
        return eqx.tree_at(lambda s: (s.unwrapped.sim_state.qpos, s.unwrapped.sim_state.qvel), states,
                           (jnp.asarray(qpos, u.sim_state.qpos.dtype), jnp.asarray(qvel, u.sim_state.qvel.dtype)))
    return states


def _build_pool(ctx, label, env, N, depth, kseed):
    import equinox as eqx
    import jax
    from jax import numpy as jnp
    from jax import random as jr

    K = jr.split(ctx.key(kseed), N)
    vinit = eqx.filter_jit(jax.vmap(lambda k: env.initial(key=k)))
    vtrans = eqx.filter_jit(jax.vmap(lambda s, a, k: env.transition(s, a, key=k)))
    hist = [vinit(K)]
    for r in range(depth):
        A = jnp.asarray(_sample_actions(ctx.rng, env.action_space, N))
        hist.append(vtrans(hist[-1], A, jr.split(ctx.key(kseed + 1 + r), N)))
    d = ctx.rng.integers(0, depth + 1, size=N)
    d[0] = 0
    S = _tstack([_tidx(hist[int(d[i])], i) for i in range(N)])
    host = [i for i in range(N) if i % 3 == 2]
    S = _hostile(ctx, env, S, host)
    A = jnp.asarray(_sample_actions(ctx.rng, env.action_space, N))
    K2 = jr.split(ctx.key(kseed + 50), N)
    NS = vtrans(S, A, K2)
    return S, A, NS, K2


def _varies(outs):
    """True if the reference answers differ between at least two pool items."""
    f0 = _flat(outs[0])
    for o in outs[1:]:
        for (_, a), (_, b) in zip(f0, _flat(o)):
            if a.shape != b.shape or not np.array_equal(a, b, equal_nan=True):
                return True
    return False


def _perturbed(rng, x, scale, abs_scale=0.0):
    """x * (1 + scale*u) + abs_scale*u' with the same shape, dtype and weak-typedness (so that a jitted function is
    not re-traced by the probe)."""
    import jax
    from jax import numpy as jnp

    if not (isinstance(x, jax.Array) and jnp.issubdtype(x.dtype, jnp.floating)):
        return x
    v = np.asarray(x, np.float64)
    v = v * (1 + scale * rng.uniform(-1, 1, size=v.shape)) + abs_scale * rng.uniform(-1, 1, size=v.shape)
    if x.weak_type and x.shape == ():
        return jnp.asarray(float(np.asarray(v, x.dtype)))
    return jnp.asarray(v, dtype=x.dtype)


def _perturb_inputs(rng, s, a, ns, scale=3e-6, abs_scale=1e-7):
    import jax

    p = lambda x: _perturbed(rng, x, scale, abs_scale)  # noqa: E731
    return jax.tree.map(p, s), jax.tree.map(p, a), jax.tree.map(p, ns)


class _EnvJudge:
    """Runs the mode comparison for one environment (stack)."""

    def __init__(self, ctx, label, env, tol, plan):
        self.ctx, self.label, self.env, self.tol, self.plan = ctx, label, env, tol, plan
        self.fns = _env_fns()

    def viol(self, key, detail):
        self.ctx.violation(f"{key}-{self.label}", {"env": self.label, **detail})

    def run(self):
        import time

        import jax

        ctx, env, plan = self.ctx, self.env, self.plan
        t0 = time.time()
        N = plan["N"]
        try:
            S, A, NS, K = _build_pool(ctx, self.label, env, N, plan["depth"], plan.get("kseed", 100))
        except Exception as ex:
            self.viol("pool-construction-raises-under-jit-vmap", {"error": repr(ex)[:500]})
            return
        self.pool = (S, A, NS, K)
        item = lambda i: (_tidx(S, i), A[i], _tidx(NS, i), K[i])  # noqa: E731
        ctx.notes.setdefault("pool", {})[self.label] = {"N": N, "t_build_s": round(time.time() - t0, 1)}
        for fn in plan["fns"]:
            t1 = time.time()
            try:
                self._one_fn(fn, item, N)
            except Exception as ex:  # harness-side surprise for this function: keep going with the others
                import traceback

                ctx.inconc(f"{self.label}/{fn}: harness exception {type(ex).__name__}: {str(ex)[:300]} "
                           f"{traceback.format_exc()[-600:]}")
            ctx.notes.setdefault("fn_wall_s", {})[f"{self.label}/{fn}"] = round(time.time() - t1, 1)
            if plan.get("clear_caches"):  # MuJoCo executables are large; the machine is shared
                jax.clear_caches()
        if plan.get("second_instance"):
            try:
                self._second_instance(item, N)
            except Exception as ex:
                ctx.inconc(f"{self.label}/second-instance: harness exception {type(ex).__name__}: {str(ex)[:300]}")

    # -- helpers
    def _call(self, mode, fn, f, *args):
        """Run one call; a raise in a non-eager mode (or eager) is the refutation for that mode."""
        import jax

        try:
            out = f(*args)
            jax.block_until_ready(out)
            return out
        except Exception as ex:
            self.viol(f"{fn}-raises-under-{_kmode(mode)}", {"fn": fn, "mode": mode, "error": f"{type(ex).__name__}: {str(ex)[:400]}"})
            return _RAISED

    def _judge(self, fn, mode, want, got, inputs, detail, varies):
        """Compare one item's answer with the reference answer.  Returns True if it agreed."""
        ctx = self.ctx
        bad = _cmp(want, got, self.tol, fn, exact_only=True)
        if bad is not None and bad["kind"] == "exact":
            if self._threshold_tie(fn, inputs, want):
                ctx.monitor("threshold_ties_excused")
                return True
            self.viol(f"{fn}-{_kmode(mode)}-differs-from-jit", {"fn": fn, "mode": mode, **detail, **bad})
            return False
        if bad is None:
            bad = _cmp(want, got, self.tol, fn, skip_exact=True)
        if bad is not None and bad["kind"] == "float" and "excess" in bad:
            dev = self._sensitivity(fn, inputs, want)
            bad2 = _cmp(want, got, self.tol, fn, skip_exact=True, slack={p: AMPLIFY * d for p, d in dev.items()})
            if bad2 is None:
                ctx.monitor("ill_conditioned_differences_excused")
                ex = ctx.notes.setdefault("ill_conditioned", {}).setdefault(f"{self.label}/{fn}", {})
                leaf = bad["leaf"]
                ratio = bad["absdiff"] / max(dev.get(leaf, 0.0), 1e-300)
                if ratio > ex.get("worst_ratio_to_probe", 0.0):
                    ex.update(worst_ratio_to_probe=ratio, leaf=leaf, absdiff=bad["absdiff"], probe_effect=dev.get(leaf, 0.0),
                              mode=mode)
                return True
            bad = {**bad2, "probe_effect_on_leaf": dev.get(bad2.get("leaf"), 0.0)}
        if bad is not None:
            self.viol(f"{fn}-{_kmode(mode)}-differs-from-jit", {"fn": fn, "mode": mode, **detail, **bad})
            return False
        return True

    def _sensitivity(self, fn, inputs, want):
        """How much does the reference (jit) answer move when every float argument -- the environment's own
        parameters included -- is perturbed by about two ulps?  {leaf path: max abs change}."""
        s, a, ns, k = inputs
        dev = {}
        # the probe is only meaningful if the reference is a function of its arguments: identical values, rebuilt
        # arrays, must reproduce the reference answer bit for bit
        zs, za, zns = _perturb_inputs(self.ctx.rng, s, a, ns, scale=0.0, abs_scale=0.0)
        try:
            o0 = self.jf[fn](_perturb_floats(self.ctx.rng, self.env, 0.0), zs, za, zns, k)
        except Exception:
            return {}
        self.ctx.monitor("repeat_calls_bit_compared")
        if not _bits_equal(want, o0):
            self.viol(f"{fn}-jit-answer-depends-on-call-history", {"fn": fn, "after": "same argument values in rebuilt arrays",
                                                                   "diff": _cmp(want, o0, lambda p, f: (0.0, 0.0), fn)})
            return {}
        # sixteen probes at 2e-7, 8e-7, 3e-6 and 1e-5 relative: an iterative solver right after a reset answers a
        # rounding-sized perturbation with a *jump* between two branches; three probes were seen to land on the
        # reference's side of such a jump all three times (G1Standing.initial, 1 case in 80)
        for j in range(16):
            sc_j = (ULP_SCALE, 4 * ULP_SCALE, 15 * ULP_SCALE, 50 * ULP_SCALE)[j % 4]  # 2e-7 ... 1e-5 relative
            ps, pa, pns = _perturb_inputs(self.ctx.rng, s, a, ns, scale=sc_j, abs_scale=0.0)
            env_p = _perturb_floats(self.ctx.rng, self.env, sc_j)
            try:
                o = self.jf[fn](env_p, ps, pa, pns, k)
            except Exception:
                continue
            self.ctx.monitor("conditioning_probes")
            _deviation(want, o, dev)
        return dev

    def _threshold_tie(self, fn, inputs, want):
        s, a, ns, k = inputs
        f = self.jf[fn]
        for _ in range(6):
            ps, pa, pns = _perturb_inputs(self.ctx.rng, s, a, ns)
            try:
                o = f(self.env, ps, pa, pns, k)
            except Exception:
                return False
            bad = _cmp(want, o, self.tol, fn, exact_only=True)
            if bad is not None and bad["kind"] == "exact":
                return True
        return False

    def _one_fn(self, fn, item, N):
        import equinox as eqx
        import jax

        ctx, env, plan, label = self.ctx, self.env, self.plan, self.label
        rng = ctx.rng
        f = self.fns[fn]
        if not hasattr(self, "jf"):
            self.jf, self.ref = {}, {}
        jf = self.jf[fn] = eqx.filter_jit(f)
        S, A, NS, K = self.pool
        # ---- jit, one item per call, shuffled; reference answers
        order = rng.permutation(N)
        ref = [None] * N
        for i in order:
            o = self._call("jit", fn, jf, env, *item(int(i)))
            if o is _RAISED:
                return
            ref[int(i)] = o
        self.ref[fn] = ref
        varies = _varies(ref)
        ctx.monitor("functions_with_input_dependent_answers" if varies else "functions_with_constant_answers")
        dg = [_digest(*item(i)[:2], item(i)[3]) for i in range(N)]
        for i in range(N):
            ctx.case({"env": label, "fn": fn, "mode": "jit", "i": i, "h": dg[i]}, nontrivial=varies, cls=f"{self.kind}/{fn}/jit")
        ctx.monitor("jit_calls", N)
        # repeat a subset in another order: bit-identical
        sub = rng.permutation(N)[: min(N, plan["repeat"])]
        for i in sub:
            o = self._call("jit", fn, jf, env, *item(int(i)))
            if o is _RAISED:
                return
            ctx.monitor("repeat_calls_bit_compared")
            ctx.case({"env": label, "fn": fn, "mode": "jit-repeat", "i": int(i), "h": dg[int(i)]}, nontrivial=varies,
                     cls=f"{self.kind}/{fn}/jit-repeat")
            if not _bits_equal(ref[int(i)], o):
                self.viol(f"{fn}-jit-answer-depends-on-call-history",
                          {"fn": fn, "i": int(i), "diff": _cmp(ref[int(i)], o, lambda p, f: (0.0, 0.0), fn)})
        # ---- eager: a, b, a, (c, b) ...
        ne = plan["eager_heavy"] if fn in plan.get("heavy", HEAVY) else plan["eager"]
        if ne > 0:
            pattern = [0]
            for m in range(1, ne):
                pattern += [m, m - 1]  # a, b, a, c, b, d, c ...
            d = [int(x) for x in rng.permutation(N)]
            seq = [d[p % N] for p in pattern[:ne]]
            first = {}
            for i in seq:
                o = self._call("eager", fn, f, env, *item(i))
                if o is _RAISED:
                    break
                ctx.monitor("eager_calls")
                ctx.case({"env": label, "fn": fn, "mode": "eager", "i": i, "h": dg[i], "rep": i in first},
                         nontrivial=varies, cls=f"{self.kind}/{fn}/eager")
                self._judge(fn, "eager", ref[i], o, item(i), {"i": i}, varies)
                if i in first:
                    ctx.monitor("repeat_calls_bit_compared")
                    if not _bits_equal(first[i], o):
                        self.viol(f"{fn}-eager-answer-depends-on-call-history", {"fn": fn, "i": i})
                else:
                    first[i] = o
        # ---- plain jax.jit with the environment closed over (its arrays become compile-time constants)
        nc = plan.get("closure_jit", 0) if (fn not in plan.get("heavy", HEAVY) or plan.get("closure_jit_heavy", True)) else 0
        if nc:
            cj = jax.jit(lambda s, a, ns, k: f(env, s, a, ns, k))
            for i in [int(x) for x in rng.permutation(N)[:nc]]:
                o = self._call("closure-jit", fn, cj, *item(i))
                if o is _RAISED:
                    break
                ctx.monitor("closure_jit_calls")
                ctx.case({"env": label, "fn": fn, "mode": "closure-jit", "i": i, "h": dg[i]}, nontrivial=varies,
                         cls=f"{self.kind}/{fn}/closure-jit")
                self._judge(fn, "closure-jit", ref[i], o, item(i), {"i": i}, varies)
        # ---- op-by-op (disable_jit), classic control only
        nd = plan.get("disable_jit", 0) if fn != "reset" else min(1, plan.get("disable_jit", 0))
        for i in [int(x) for x in rng.permutation(N)[:nd]]:
            with jax.disable_jit():
                o = self._call("disable_jit", fn, f, env, *item(i))
            if o is _RAISED:
                break
            ctx.monitor("disable_jit_calls")
            ctx.case({"env": label, "fn": fn, "mode": "disable_jit", "i": i, "h": dg[i]}, nontrivial=varies,
                     cls=f"{self.kind}/{fn}/disable_jit")
            self._judge(fn, "disable_jit", ref[i], o, item(i), {"i": i}, varies)
        # ---- vmap over batches
        sizes = plan["sizes_heavy"] if fn in plan.get("heavy", HEAVY) else plan["sizes"]
        vf = eqx.filter_jit(jax.vmap(lambda s, a, ns, k: f(env, s, a, ns, k)))
        for B in sizes:
            for rep in range(plan["batches"]):
                if B >= N:
                    idx = rng.permutation(N)[:B]
                else:
                    idx = rng.integers(0, N, size=B)
                    if B >= 4:
                        idx[-1] = idx[0]  # the same item in two batch positions
                idx = np.asarray(idx)
                out = self._vcall(f"vmap{B}", fn, vf, idx)
                if out is _RAISED:
                    break
                perm = rng.permutation(len(idx)) if (B > 1 and rep == 0) else None
                if perm is not None:
                    out_p = self._vcall(f"vmap{B}", fn, vf, idx[perm])
                    if out_p is not _RAISED:
                        ctx.monitor("permuted_batches")
                        nb = 0
                        for j, pj in enumerate(perm):
                            bad = _cmp(_tidx(out, int(pj)), _tidx(out_p, j), self.tol, fn)
                            nb += not _bits_equal(_tidx(out, int(pj)), _tidx(out_p, j))
                            if bad is not None:
                                self.viol(f"{fn}-vmap-answer-depends-on-batch-position",
                                          {"fn": fn, "B": B, "member": int(idx[pj]), **bad})
                        if nb:
                            ctx.monitor("permuted_members_not_bit_identical", nb)
        # ---- un-jitted filter_vmap (classic / finite MDP: cheap) or jitted (MuJoCo)
        B = plan.get("filter_vmap", 0)
        if B and not (fn in plan.get("heavy", HEAVY) and not plan.get("filter_vmap_heavy", True)):
            fv = eqx.filter_vmap(lambda s, a, ns, k: f(env, s, a, ns, k))
            if plan.get("filter_vmap_jit"):
                fv = eqx.filter_jit(fv)
            idx = np.asarray(rng.permutation(N)[:B] if B <= N else rng.integers(0, N, size=B))
            self._vcall("filter_vmap", fn, fv, idx)

    def _vcall(self, mode, fn, vf, idx):
        import jax

        ctx = self.ctx
        S, A, NS, K = self.pool
        g = lambda t: jax.tree.map(lambda x: x[idx] if isinstance(x, (jax.Array, np.ndarray)) else x, t)  # noqa: E731
        out = self._call(mode, fn, vf, g(S), A[idx], g(NS), K[idx])
        if out is _RAISED:
            return out
        ref = self.ref[fn]
        varies = _varies(ref)
        ctx.monitor("vmapped_batches")
        ctx.monitor("vmapped_members_compared", len(idx))
        ctx.case({"env": self.label, "fn": fn, "mode": mode, "idx": [int(i) for i in idx],
                  "h": _digest(A[idx], K[idx])}, nontrivial=varies and (len(idx) > 0), cls=f"{self.kind}/{fn}/{mode}")
        for j, i in enumerate(idx):
            i = int(i)
            self._judge(fn, mode, ref[i], _tidx(out, j), (_tidx(S, i), A[i], _tidx(NS, i), K[i]),
                        {"B": len(idx), "position": j, "member": i}, varies)
        return out

    def _second_instance(self, item, N):
        """Calls on another instance (different dt) in between must not change this instance's answers, and the
        other instance must use its own dt."""
        import equinox as eqx
        from jax import numpy as jnp

        ctx, env = self.ctx, self.env
        base = env.unwrapped
        import jax

        if not isinstance(getattr(base, "dt", None), jax.Array) or "transition" not in self.jf:
            return  # (a Python-float dt is a static field: changing it would only recompile)
        env2 = eqx.tree_at(lambda e: e.unwrapped.dt, env, jnp.asarray(base.dt) * 0.5)
        jf = self.jf["transition"]
        for i in [int(x) for x in ctx.rng.permutation(N)[:3]]:
            o2 = self._call("jit", "transition", jf, env2, *item(i))
            o1 = self._call("jit", "transition", jf, env, *item(i))
            if o1 is _RAISED or o2 is _RAISED:
                return
            ctx.monitor("second_instance_interleavings")
            ctx.case({"env": self.label, "fn": "transition", "mode": "second-instance", "i": i}, nontrivial=True,
                     cls=f"{self.kind}/transition/second-instance")
            if not _bits_equal(self.ref["transition"][i], o1):
                self.viol("transition-jit-answer-depends-on-call-history", {"i": i, "after": "call on another instance"})
            t_in = np.float32(np.asarray(item(i)[0].unwrapped.t))
            want = np.float32(t_in + np.float32(np.asarray(base.dt, np.float32) * np.float32(0.5)))
            got = np.float32(np.asarray(o2.unwrapped.t))
            if abs(float(got) - float(want)) > 1e-6 * max(1.0, abs(float(want))):
                self.viol("transition-ignores-instance-fields", {"i": i, "got_t": float(got), "want_t": float(want)})


_RAISED = object()


def _kmode(mode):
    """mode name used in violation keys: one key per mechanism, the batch size goes into the witness."""
    return "vmap" if mode.startswith("vmap") else mode.replace("_", "-")


class _Skip(Exception):
    """This configuration cannot be judged further (already reported)."""


def _plan(ctx, kind, heavy=False):
    q = ctx.quick
    fns = ["initial", "transition", "observation", "reward", "terminal", "truncate", "action_mask", "infos", "step", "reset"]
    if kind in ("classic", "wrapper"):
        return dict(N=ctx.n(9, 20), depth=ctx.n(4, 8), fns=fns, repeat=ctx.n(4, 8), eager=ctx.n(3, 5), eager_heavy=ctx.n(3, 5),
                    disable_jit=(ctx.n(1, 2) if kind == "classic" else 0), sizes=(1, 2, 7), sizes_heavy=(1, 2, 7),
                    batches=ctx.n(1, 3), filter_vmap=7, second_instance=(kind == "classic"), closure_jit=ctx.n(2, 3))
    if kind == "mujoco":
        small = q or heavy  # Ant / Humanoid / HumanoidStandup compile for minutes: the thorough tier keeps the quick shape
        return dict(N=ctx.n(8, 10 if heavy else 14), depth=ctx.n(4, 8), fns=fns, repeat=ctx.n(3, 6), eager=ctx.n(2, 3),
                    eager_heavy=(2 if small else 3), sizes=(1, 2, 7), sizes_heavy=((2, 7) if small else (1, 2, 7)),
                    batches=(1 if small else 2), filter_vmap=7, filter_vmap_jit=True, filter_vmap_heavy=not small,
                    second_instance=True, closure_jit=2, closure_jit_heavy=False, clear_caches=True,
                    heavy=("initial", "transition", "step", "reset"))
    if kind == "g1":
        return dict(N=6, depth=2, fns=["initial", "transition", "observation", "reward", "terminal", "truncate"],
                    repeat=3, eager=2, eager_heavy=1, sizes=(1, 2), sizes_heavy=(2,), batches=1, filter_vmap=0,
                    second_instance=False, closure_jit=0, clear_caches=True, heavy=("initial", "transition"))
    raise ValueError(kind)


def _run_env(ctx, label, env, kind, tol, plan=None):
    j = _EnvJudge(ctx, label, env, tol, plan or _plan(ctx, "wrapper" if kind == "wrapper" else kind))
    j.kind = kind
    j.run()
    ctx.monitor("environments_judged")


def u_classic(ctx, name):
    import lerax.env.classic_control as cc

    env = getattr(cc, name)()
    _run_env(ctx, name, env, "classic", _tol_classic)
    # documented non-default constructor options: whatever they do, the result must still depend on the
    # explicit arguments only (same eagerly, under jit and vmapped, and on repetition)
    nondefault = {"Acrobot": dict(torque_max_noise=0.3, link_mass_2=1.3), "CartPole": dict(force_mag=7.0, pole_mass=0.2),
                  "MountainCar": dict(force=0.0013, gravity=0.002), "ContinuousMountainCar": dict(power=0.002, goal_velocity=0.01),
                  "Pendulum": dict(g=9.0, m=1.2)}[name]
    try:
        env_nd = getattr(cc, name)(**nondefault)
    except TypeError:
        env_nd = None
        ctx.notes["nondefault_constructor_options_not_accepted"] = sorted(nondefault)
    if env_nd is not None:
        p = _plan(ctx, "classic")
        p.update(N=8, fns=["transition", "step", "reward"], disable_jit=0, batches=1, kseed=250, eager=3)
        _run_env(ctx, f"{name}-nondefault", env_nd, "classic", _tol_classic, p)
        ctx.monitor("nondefault_option_instances_run")
    if not ctx.quick:
        import diffrax

        # the documented Gymnasium-identical configuration
        env2 = getattr(cc, name)(solver=diffrax.Euler())
        p = _plan(ctx, "classic")
        p.update(N=8, fns=["transition", "step", "reward", "terminal"], disable_jit=0, batches=1, kseed=300)
        _run_env(ctx, f"{name}-Euler", env2, "classic", _tol_classic, p)
        # the documented adaptive-step configuration: accept/reject decisions inside a vmapped while loop
        env3 = getattr(cc, name)(stepsize_controller=diffrax.PIDController(rtol=1e-5, atol=1e-5))
        p = _plan(ctx, "classic")
        p.update(N=8, fns=["transition", "step"], disable_jit=0, batches=2, kseed=400, eager=2, eager_heavy=2)
        _run_env(ctx, f"{name}-PID", env3, "classic", _tol_classic, p)
    ctx.require("jit_calls", 30)
    ctx.require("eager_calls", 10)
    ctx.require("vmapped_members_compared", 50)
    ctx.require("repeat_calls_bit_compared", 10)
    ctx.require("functions_with_input_dependent_answers", 4)


def u_mujoco(ctx, name):
    import lerax.env.mujoco as mj

    env = getattr(mj, name)()
    _run_env(ctx, name, env, "mujoco", _tol_mujoco, _plan(ctx, "mujoco", heavy=name in ("Ant", "Humanoid", "HumanoidStandup")))
    ctx.require("jit_calls", 30)
    ctx.require("eager_calls", 6)
    ctx.require("vmapped_members_compared", 50)
    ctx.require("functions_with_input_dependent_answers", 4)


def u_g1(ctx):
    from lerax.env.unitree.g1 import G1Standing

    env = G1Standing()
    _run_env(ctx, "G1Standing", env, "g1", _tol_mujoco)
    ctx.require("jit_calls", 12)
    ctx.require("vmapped_members_compared", 10)


# ------------------------------------------------------------------------------------------ wrapper stacks
def _mdp(ctx, kind="discrete", obs_kind="onehot", masks=False, nS=None, nA=None, n_starts=2, p_term=0.25, p_trunc=0.1):
    from vlib.mdp import FiniteMDP, random_tables

    rng = ctx.rng
    nS = nS or int(rng.integers(4, 8))
    if kind == "multibinary":
        nvec, nA = (2, 2), 4
    elif kind == "multidiscrete":
        nvec, nA = (2, 3), 6
    else:
        nvec, nA = (), nA or int(rng.integers(2, 5))
    tabs = random_tables(rng, nS, nA, p_term=p_term, p_trunc=p_trunc, with_masks=masks, n_starts=n_starts)
    kw = dict(trunc=tabs["trunc"], masks=tabs["masks"], kind=kind, nvec=nvec)
    env = FiniteMDP(tabs["P"], tabs["R"], tabs["term"], tabs["starts"], obs_kind=obs_kind, **kw)
    return env, tabs, kw


def _stacks(ctx, which):
    """label -> thunk building the stack.  Labels are stable (they are part of violation keys)."""
    import lerax.env.classic_control as cc
    from jax import numpy as jnp
    from lerax import wrapper as W
    from lerax.space import Box, Discrete

    def flat_dict():
        env, _, _ = _mdp(ctx, obs_kind="dict")
        return W.FlattenObservation(env)

    def deep_mdp():
        env, _, _ = _mdp(ctx, obs_kind="dict", masks=True)
        e = W.FlattenObservation(env)
        n = e.observation_space.flat_size
        e = W.TransformObservation(e, lambda o: 2.0 * o + 1.0, Box(-1.0, 2.0 * 8 + 1.0, shape=(n,)))
        return W.TimeLimit(W.Identity(W.ClipReward(e, -0.5, 0.5)), 3)

    def box_mdp():
        env, _, _ = _mdp(ctx, kind="box")
        return W.TimeLimit(W.RescaleAction(W.ClipAction(env), jnp.array(-3.0), jnp.array(5.0)), 4)

    all_ = {
        "wrap-a": {
            "TimeLimit(CartPole)": lambda: W.TimeLimit(cc.CartPole(), 3),
            "Identity(FiniteMDP-masked)": lambda: W.Identity(_mdp(ctx, masks=True)[0]),
            "FlattenObservation(FiniteMDP-dict)": flat_dict,
            "TransformAction(MountainCar)": lambda: W.TransformAction(cc.MountainCar(), lambda a: 2 - a, Discrete(3)),
            "TimeLimit(FiniteMDP-multidiscrete)": lambda: W.TimeLimit(_mdp(ctx, kind="multidiscrete")[0], 2),
        },
        "wrap-b": {
            "TimeLimit(ClipReward(RescaleAction(ClipObservation(Pendulum))))": lambda: W.TimeLimit(
                W.ClipReward(W.RescaleAction(W.ClipObservation(cc.Pendulum()), jnp.array(-1.0), jnp.array(3.0)), -4.0, -0.5), 4),
            "TimeLimit(Identity(ClipReward(TransformObservation(FlattenObservation(FiniteMDP-dict-masked)))))": deep_mdp,
            "ClipAction(Pendulum)": lambda: W.ClipAction(cc.Pendulum()),
            "TransformReward(Acrobot)": lambda: W.TransformReward(cc.Acrobot(), lambda r: 2.0 * r + 1.0),
        },
        "wrap-c": {
            "RescaleObservation(MountainCar)": lambda: W.RescaleObservation(cc.MountainCar()),
            "TimeLimit(RescaleAction(ClipAction(FiniteMDP-box)))": box_mdp,
            "RescaleAction(ContinuousMountainCar)": lambda: W.RescaleAction(cc.ContinuousMountainCar(), jnp.array(0.0), jnp.array(10.0)),
            "TransformObservation(CartPole)": lambda: W.TransformObservation(
                cc.CartPole(), lambda o: jnp.tanh(o), Box(-1.0, 1.0, shape=(4,))),
            "ClipObservation(TimeLimit(Acrobot))": lambda: W.ClipObservation(W.TimeLimit(cc.Acrobot(), 5)),
        },
    }
    stacks = all_[which]
    if ctx.quick:  # the first three of each unit (one over a diffrax environment at least)
        stacks = dict(list(stacks.items())[:3])
    return stacks


def u_wrappers(ctx, which):
    for label, thunk in _stacks(ctx, which).items():
        try:
            env = thunk()
        except Exception as ex:
            # whether a documented wrapper can be built is C13's question; here it only removes an observation
            ctx.monitor("stacks_not_constructible")
            ctx.notes.setdefault("not_constructible", {})[label] = f"{type(ex).__name__}: {str(ex)[:300]}"
            continue
        p = _plan(ctx, "wrapper")
        if ctx.quick:
            p.update(N=8, repeat=3, eager=3, eager_heavy=2)
        _run_env(ctx, label, env, "wrapper", _tol_classic, p)
    ctx.require("environments_judged", 2)
    ctx.require("jit_calls", 60)
    ctx.require("eager_calls", 10)
    ctx.require("vmapped_members_compared", 100)


# ------------------------------------------------------------------------------------------ collection half
TOL_COLL = (1e-5, 1e-6)
VMAP_AXES = "(None, None, eqx.if_array(0), None, 0)"


def _tol_coll(path, fn):
    return TOL_COLL


def _field(path):
    import re

    names = re.findall(r"\.([A-Za-z_][A-Za-z_0-9]*)", path or "")
    return (names[-1] if names else "output").replace("_", "-")


def _perturb_floats(rng, tree, scale=1e-6):
    import jax

    return jax.tree.map(lambda x: _perturbed(rng, x, scale), tree)


def _chaotic(ctx, single, env, pol, ss_e, cb, key_e, out_e, scale=1e-6):
    """Probe the single-environment collection itself: policy parameters, environment parameters and the float
    part of the start state are perturbed by `scale` (relative).  -> (did an integer/bool output change?,
    {leaf path: max abs change of a float output})."""
    import equinox as eqx

    dev, flipped = {}, False
    try:  # the probe needs a reference that is a function of its arguments
        o0 = single(_perturb_floats(ctx.rng, env, 0.0), _perturb_floats(ctx.rng, pol, 0.0), _perturb_floats(ctx.rng, ss_e, 0.0),
                    cb, key_e)
    except Exception:
        return False, {}
    ctx.monitor("repeat_calls_bit_compared")
    if not _bits_equal(out_e, o0):
        ctx.violation("single-env-collection-depends-on-call-history", {"after": "same argument values in rebuilt arrays"})
        return False, {}
    for _ in range(3):
        pol_p = _perturb_floats(ctx.rng, pol, scale)
        env_p = _perturb_floats(ctx.rng, env, scale)
        ss_p = ss_e
        if hasattr(ss_e, "env_state"):
            ss_p = eqx.tree_at(lambda s: s.env_state, ss_e, _perturb_floats(ctx.rng, ss_e.env_state, scale))
        try:
            out_p = single(env_p, pol_p, ss_p, cb, key_e)
        except Exception:
            continue
        ctx.monitor("conditioning_probes")
        if _cmp(out_e, out_p, _tol_coll, exact_only=True) is not None:
            flipped = True
        else:
            _deviation(out_e, out_p, dev)
    return flipped, dev


def _twin(ctx, tag, kind, single, vm, env, pol, ss, cb, keys, E, info):
    """vm(...) over E environments against E single calls.  Returns (batched output, {e: single output})."""
    import jax

    try:
        out_b = vm(env, pol, ss, cb, keys)
        jax.block_until_ready(out_b)
    except Exception as ex:
        ctx.violation(f"{kind}-vectorised-collection-raises", {**info, "error": f"{type(ex).__name__}: {str(ex)[:400]}"})
        raise _Skip() from ex
    singles = {}
    order = [int(e) for e in ctx.rng.permutation(E)]
    for e in order + order[:1]:
        o = single(env, pol, _tidx(ss, e), cb, keys[e])
        if e in singles:
            ctx.monitor("repeat_calls_bit_compared")
            if not _bits_equal(singles[e], o):
                ctx.violation(f"{kind}-single-env-collection-depends-on-call-history", {**info, "env": e})
        else:
            singles[e] = o
    dg = {e: _digest(singles[e]) for e in range(E)}
    for e in range(E):
        want, got = singles[e], _tidx(out_b, e)
        distinct = any(dg[e] != dg[o] for o in range(E) if o != e)
        ctx.case({**info, "env": e, "h": dg[e], "check": "twin"}, nontrivial=(E >= 2 and distinct), cls=f"{tag}/twin")
        ctx.monitor("twin_streams_compared")
        if distinct:
            ctx.monitor("twin_streams_distinct_from_a_neighbour")
        bad = _cmp(want, got, _tol_coll)
        if bad is None:
            continue
        if bad["kind"] == "exact":
            # a sampled action / done flag on a float32 tie: does the single run itself flip under 1e-6?
            if _chaotic(ctx, single, env, pol, _tidx(ss, e), cb, keys[e], want, 1e-6)[0]:
                ctx.monitor("chaotic_divergences_excused")
                continue
        elif bad["kind"] == "float":
            # rounding differences amplified along the rollout: compare with the effect of a two-ulp probe
            flipped, dev = _chaotic(ctx, single, env, pol, _tidx(ss, e), cb, keys[e], want, ULP_SCALE)
            bad2 = _cmp(want, got, _tol_coll, slack={p: AMPLIFY * d for p, d in dev.items()})
            if bad2 is None or flipped:
                ctx.monitor("chaotic_divergences_excused")
                ctx.notes.setdefault("amplified", []).append(
                    {"tag": tag, "env": e, "leaf": bad["leaf"], "absdiff": bad["absdiff"], "probe_effect": dev.get(bad["leaf"]),
                     "probe_flipped_discrete_stream": flipped})
                continue
            bad = {**bad2, "probe_effect_on_leaf": dev.get(bad2.get("leaf"), 0.0)}
        foreign = [o for o in range(E) if o != e and _cmp(singles[o], got, _tol_coll) is None]
        ctx.violation(f"{kind}-vectorised-{_field(bad.get('leaf'))}-differs-from-single-env-collection",
                      {**info, "env": e, "whole_output_equals_single_run_of_env": foreign, **bad})
    return out_b, singles


def _gae_per_env(ctx, tag, algo, env, pol, out_b, E, info):
    import jax
    from jax import random as jr
    from vlib.refmodels import gae_ref

    ss_b, buf = out_b
    obs = jax.vmap(lambda s: env.observation(s, key=jr.key(0)))(ss_b.env_state)
    lasts = np.asarray(jax.vmap(lambda ps, o: pol.value(ps, o)[1])(ss_b.policy_state, obs))
    R, V, D = np.asarray(buf.rewards), np.asarray(buf.values), np.asarray(buf.dones)
    A, RET = np.asarray(buf.advantages, np.float64), np.asarray(buf.returns, np.float64)
    T = algo.num_steps
    if R.shape != (E, T):
        ctx.violation("vectorised-rollout-shape", {**info, "got": R.shape, "want": [E, T]})
        return
    g, lam = float(np.float32(algo.gamma)), float(np.float32(algo.gae_lambda))
    for e in range(E):
        a_ref, ret_ref, bound = gae_ref(R[e], V[e], D[e], lasts[e], g, lam)
        tol = 1e-4 * bound + 1e-5
        ctx.case({**info, "env": e, "check": "gae", "h": _digest(R[e], V[e], D[e])}, nontrivial=bool(D[e][:-1].any()) if T > 1 else False,
                 cls=f"{tag}/gae-own-stream")
        ctx.monitor("gae_streams_compared")
        if not np.all(np.abs(A[e] - a_ref) <= tol):
            k = int(np.argmax(np.abs(A[e] - a_ref) - tol))
            others = {}
            for o in range(E):
                if o != e:
                    ao, _, _ = gae_ref(R[o], V[o], D[o], lasts[o], g, lam)
                    others[o] = float(ao[k])
            ctx.violation("advantages-not-gae-of-own-stream", {**info, "env": e, "step": k, "got": float(A[e][k]),
                                                                "want": float(a_ref[k]), "other_envs_reference_at_step": others,
                                                                "dones": D[e].astype(int)})
        elif not np.all(np.abs(RET[e] - ret_ref) <= tol + 1e-6 * np.abs(V[e])):
            ctx.violation("returns-not-advantage-plus-own-value", {**info, "env": e, "got": RET[e], "want": ret_ref})
    a_flat, _, _ = gae_ref(R.reshape(-1), V.reshape(-1), D.reshape(-1), lasts[-1], g, lam)
    if np.max(np.abs(a_flat.reshape(E, T) - A)) > 1e-3:
        ctx.monitor("cases_distinguishing_flattened_batch_gae")


def _coll_env(ctx, i, kind, obs_kind="onehot", n_starts=None, force_tl=None):
    from lerax.wrapper import TimeLimit
    from vlib.mdp import FiniteMDP, RefMDP, random_tables

    rng = ctx.rng
    nS = int(rng.integers(4, 9))
    if kind == "multibinary":
        nvec, nA = (2, 2), 4
    else:
        nvec, nA = (), int(rng.integers(2, 5))
    tabs = random_tables(rng, nS, nA, p_term=float(rng.choice([0.15, 0.35])), p_trunc=float(rng.choice([0.0, 0.0, 0.2])),
                         n_starts=n_starts or int(rng.integers(1, 4)))
    tl = force_tl if force_tl is not None else [None, 2, 3, 5][int(rng.integers(0, 4))]
    kw = dict(trunc=tabs["trunc"], kind=kind, nvec=nvec)
    env = FiniteMDP(tabs["P"], tabs["R"], tabs["term"], tabs["starts"], obs_kind=obs_kind,
                    box_dim=int(rng.integers(1, 3)), **kw)
    ref = RefMDP(tabs["P"], tabs["R"], tabs["term"], tabs["starts"], time_limit=tl, **kw)
    if tl is not None:
        env = TimeLimit(env, tl)
    return env, ref, tabs, tl


def _onpolicy_algo(ctx, i, E, T):
    from lerax.algorithm import A2C, PPO, REINFORCE

    cls = [PPO, A2C, REINFORCE][i % 3]
    kw = dict(num_envs=E, num_steps=T, gamma=float(ctx.rng.uniform(0.6, 1.0)))
    if cls is PPO:
        kw.update(num_batches=1, num_epochs=1)
    if cls is not REINFORCE:
        kw.update(gae_lambda=float(ctx.rng.uniform(0.2, 1.0)))
    return cls(**kw), cls.__name__


def _mlp_ac(ctx, env, i):
    from lerax.policy import MLPActorCriticPolicy

    return MLPActorCriticPolicy(env, key=ctx.key(500 + i), feature_size=4, feature_width=8, value_width=8, action_width=8)


def _vm_single(algo):
    import equinox as eqx

    vm = eqx.filter_jit(eqx.filter_vmap(algo.collect_rollout, in_axes=(None, None, eqx.if_array(0), None, 0)))
    return vm, eqx.filter_jit(algo.collect_rollout)


def _offsets(E):
    return np.asarray([3, 40, 500, 6000, 70000, 11, 123][:E], np.int32)


def _spy_iterations(ctx, algo, st, cb, n_iter, kbase):
    """Run the real un-jitted algo.iteration with a recording wrapper on the class's `train`.
    -> [(state before, state after, rollout buffer handed to train)]"""
    captured = []
    cls = type(algo)
    orig = cls.train

    def spy(self, policy, opt_state, buffer, *, key):
        captured.append(buffer)
        return orig(self, policy, opt_state, buffer, key=key)

    cls.train = spy
    out = []
    try:
        state = st
        for it in range(n_iter):
            prev = state
            state = algo.iteration(state, key=ctx.key(kbase + it), callback=cb)
            if len(captured) != it + 1:
                ctx.inconc("train spy did not capture the rollout buffer")
                return out
            try:
                np.asarray(captured[-1].rewards)
            except Exception:
                ctx.inconc("train spy saw tracers, not values")
                return out
            out.append((prev, state, captured[-1]))
            ctx.monitor("iteration_rollouts_captured")
    finally:
        cls.train = orig
    return out


def _guard(ctx, what, f, n):
    """Run f(0..n-1); a harness-side exception in one configuration must not hide the others."""
    import traceback

    for i in range(n):
        try:
            f(i)
        except _Skip:
            continue
        except Exception as ex:
            ctx.inconc(f"{what}[{i}]: harness exception {type(ex).__name__}: {str(ex)[:300]} | {traceback.format_exc()[-700:]}")


def _pairwise_identical(x):
    """[(e, o)] of environments whose arrays (leading axis = env) are identical."""
    x = np.asarray(x)
    return [(e, o) for e in range(x.shape[0]) for o in range(e + 1, x.shape[0]) if np.array_equal(x[e], x[o])]


def u_coll_onpolicy(ctx):
    import equinox as eqx
    import jax
    from jax import numpy as jnp
    from jax import random as jr
    from vlib.stubs import CountingACPolicy

    def one(i):
        kind = ["discrete", "box", "discrete", "multibinary"][i % 4]
        stub = i % 4 == 2
        env, ref, tabs, tl = _coll_env(ctx, i, kind)
        E = [2, 3, 7, 4, 5][i % 5]
        T = int(ctx.rng.choice([4, 9, 16, 33]))
        algo, aname = _onpolicy_algo(ctx, i, E, T)
        pol = CountingACPolicy(env, key=ctx.key(500 + i)) if stub else _mlp_ac(ctx, env, i)
        info = {"algo": aname, "kind": kind, "policy": type(pol).__name__, "E": E, "T": T, "tl": tl, "i": i}
        cb = algo.consolidate_callbacks(None)
        st = eqx.filter_jit(lambda k: algo.reset(env, pol, key=k, callback=cb))(ctx.key(1000 + i))
        ss = st.step_state
        if stub:  # every environment gets its own, recognisable call counter
            ss = eqx.tree_at(lambda s: s.policy_state.n, ss, jnp.asarray(_offsets(E)))
        vm, single = _vm_single(algo)
        keys = jr.split(ctx.key(2000 + i), E)
        tag = f"onpolicy/{aname}/{kind}{'-stateful' if stub else ''}"
        out_b, singles = _twin(ctx, tag, "onpolicy", single, vm, env, pol, ss, cb, keys, E, info)
        _gae_per_env(ctx, tag, algo, env, pol, out_b, E, info)
        # a second rollout continuing from the vectorised output (per-env carried states differ by now)
        keys2 = jr.split(ctx.key(3000 + i), E)
        out_b2, _ = _twin(ctx, tag + "/continued", "onpolicy", single, vm, env, pol, out_b[0], cb, keys2, E, {**info, "round": 2})
        _gae_per_env(ctx, tag + "/continued", algo, env, pol, out_b2, E, {**info, "round": 2})
    _guard(ctx, "onpolicy-twin", one, ctx.n(8, 40))

    # ---- every environment must get its own key from iteration(): identical start states, continuous actions
    def keys_one(j):
        env, ref, tabs, tl = _coll_env(ctx, 100 + j, "box", n_starts=1)
        E, T = [3, 2, 5][j % 3], 8
        algo, aname = _onpolicy_algo(ctx, j, E, T)
        pol = _mlp_ac(ctx, env, 100 + j)
        cb = algo.consolidate_callbacks(None)
        st = algo.reset(env, pol, key=ctx.key(4000 + j), callback=cb)
        same = jax.tree.map(lambda x: jnp.broadcast_to(x[:1], x.shape) if isinstance(x, jax.Array) else x, st.step_state)
        st = eqx.tree_at(lambda s: s.step_state, st, same)
        recs = _spy_iterations(ctx, algo, st, cb, 1, 5000 + 10 * j)
        for prev, state, buf in recs:
            ctx.monitor("key_independence_checks")
            dup = _pairwise_identical(buf.actions)
            ctx.case({"check": "distinct-keys", "algo": aname, "E": E, "j": j, "h": _digest(buf.actions)}, nontrivial=True,
                     cls="onpolicy/iteration-distinct-keys")
            if dup:
                ctx.violation("iteration-gives-parallel-envs-the-same-key",
                              {"algo": aname, "E": E, "identical_env_pairs": dup, "actions_env0": np.asarray(buf.actions)[0][:4]})

    _guard(ctx, "onpolicy-keys", keys_one, ctx.n(2, 6))
    ctx.require("twin_streams_compared", 20)
    ctx.require("twin_streams_distinct_from_a_neighbour", 10)
    ctx.require("gae_streams_compared", 20)
    ctx.require("cases_distinguishing_flattened_batch_gae", 3)
    ctx.require("key_independence_checks", 2)


def u_coll_offpolicy(ctx):
    import equinox as eqx
    import jax
    from jax import numpy as jnp
    from jax import random as jr
    from lerax.algorithm import DQN, SAC
    from lerax.algorithm.off_policy import AbstractOffPolicyStepState
    from lerax.policy import MLPQPolicy, MLPSACPolicy
    from vlib.stubs import CountingQPolicy

    def one(i):
        which = ["DQN", "SAC", "DQN-stateful", "SAC"][i % 4]
        kind = "box" if which == "SAC" else "discrete"
        env, ref, tabs, tl = _coll_env(ctx, i, kind)
        E = [2, 3, 7, 4][i % 4]
        S = int(ctx.rng.integers(1, 7))
        cap = int(ctx.rng.choice([3, 5, 8, 16]))
        ls = int(ctx.rng.choice([1, 2, cap, cap + 2]))
        bsize = cap * E + int(ctx.rng.integers(0, E))  # not always divisible by E
        batch = max(1, min(4, min(ls, cap)))
        if which == "SAC":
            algo = SAC(buffer_size=bsize, learning_starts=ls, num_envs=E, num_steps=S, batch_size=batch, q_width_size=8,
                       q_depth=1, gamma=0.9)
            pol = MLPSACPolicy(env, key=ctx.key(500 + i), feature_size=4, width_size=8)
        else:
            algo = DQN(buffer_size=bsize, learning_starts=ls, num_envs=E, num_steps=S, batch_size=batch,
                       target_update_interval=3, gamma=0.9)
            pol = (CountingQPolicy(env, key=ctx.key(500 + i)) if which == "DQN-stateful"
                   else MLPQPolicy(env, key=ctx.key(500 + i), width_size=8, epsilon=0.5))
        info = {"algo": which, "kind": kind, "policy": type(pol).__name__, "E": E, "S": S, "cap": cap,
                "learning_starts": ls, "tl": tl, "i": i}
        cb = algo.consolidate_callbacks(None)
        tag = f"offpolicy/{which}"
        # -- warm-up the way reset() does it (vmap of initial, vmap of collect_learning_starts), own keys
        k_init, k_start = jr.split(ctx.key(1000 + i), E), jr.split(ctx.key(1500 + i), E)
        init = lambda env, pol, ss, cb, k: AbstractOffPolicyStepState.initial(cap, env, pol, cb, k)  # noqa: E731
        v_init = eqx.filter_jit(jax.vmap(lambda k: AbstractOffPolicyStepState.initial(cap, env, pol, cb, k)))
        s_init = eqx.filter_jit(lambda env, pol, ss, cb, k: init(env, pol, ss, cb, k))
        dummy = jnp.zeros((E,))
        ss0, _ = _twin(ctx, tag + "/initial", "offpolicy-initial", s_init, lambda env, pol, ss, cb, ks: v_init(ks),
                       env, pol, dummy, cb, k_init, E, {**info, "phase": "initial"})
        v_ls = eqx.filter_jit(jax.vmap(algo.collect_learning_starts, in_axes=(None, None, 0, None, 0)))
        s_ls = eqx.filter_jit(algo.collect_learning_starts)
        ss1, _ = _twin(ctx, tag + "/warm-up", "offpolicy-warm-up", s_ls, v_ls, env, pol, ss0, cb, k_start, E,
                       {**info, "phase": "warm-up"})
        # -- the real reset(), then collect_rollout twice (buffers wrap)
        st = eqx.filter_jit(lambda k: algo.reset(env, pol, key=k, callback=cb))(ctx.key(2000 + i))
        ss = st.step_state
        if which == "DQN-stateful":
            ss = eqx.tree_at(lambda s: s.policy_state.n, ss, jnp.asarray(_offsets(E)))
        vm, single = _vm_single(algo)
        for rnd in range(2):
            keys = jr.split(ctx.key(3000 + 10 * i + rnd), E)
            ss, _ = _twin(ctx, tag + "/collect", "offpolicy", single, vm, env, pol, ss, cb, keys, E,
                          {**info, "phase": f"collect{rnd + 1}"})
        if int(np.max(np.asarray(ss.buffer.position))) > ss.buffer.rewards.shape[-1]:
            ctx.monitor("twin_cases_with_wrapped_replay_buffer")
    _guard(ctx, "offpolicy-twin", one, ctx.n(8, 40))

    # ---- every environment must get its own key from reset() and iteration(): continuous actions
    def keys_one(j):
        # odd j: DQN, whose iteration() is an override with its own key handling; with epsilon = 1 its
        # actions are uniform draws, and 24 / 40 of them per environment make a chance coincidence of two
        # environments' action sequences negligible (at most 2**-24 per pair)
        which = "DQN" if j % 2 else "SAC"
        if which == "DQN":
            env, ref, tabs, tl = _coll_env(ctx, 100 + j, "discrete", n_starts=1)
            E, S, cap, ls = [3, 2, 5][j % 3], 40, 64, 24
            algo = DQN(buffer_size=cap * E, learning_starts=ls, num_envs=E, num_steps=S, batch_size=2)
            pol = MLPQPolicy(env, key=ctx.key(600 + j), width_size=8, depth=1, epsilon=1.0)
        else:
            env, ref, tabs, tl = _coll_env(ctx, 100 + j, "box", n_starts=1)
            E, S, cap, ls = [3, 2, 5][j % 3], 3, 16, 4
            algo = SAC(buffer_size=cap * E, learning_starts=ls, num_envs=E, num_steps=S, batch_size=2, q_width_size=8, q_depth=1)
            pol = MLPSACPolicy(env, key=ctx.key(600 + j), feature_size=4, width_size=8)
        cb = algo.consolidate_callbacks(None)
        st = eqx.filter_jit(lambda k: algo.reset(env, pol, key=k, callback=cb))(ctx.key(4000 + j))
        acts = np.asarray(st.step_state.buffer.actions)[:, :ls]
        ctx.monitor("key_independence_checks")
        ctx.case({"check": "distinct-keys-reset", "algo": which, "E": E, "j": j, "h": _digest(acts)}, nontrivial=True, cls="offpolicy/reset-distinct-keys")
        if _pairwise_identical(acts):
            ctx.violation("reset-gives-parallel-envs-the-same-key", {"algo": which, "E": E, "identical_env_pairs": _pairwise_identical(acts)})
        same = jax.tree.map(lambda x: jnp.broadcast_to(x[:1], x.shape) if isinstance(x, jax.Array) else x, st.step_state)
        st = eqx.tree_at(lambda s: s.step_state, st, same)
        st2 = eqx.filter_jit(lambda s, k: algo.iteration(s, key=k, callback=cb))(st, ctx.key(4500 + j))
        acts = np.asarray(st2.step_state.buffer.actions)[:, ls:ls + S]
        ctx.monitor("key_independence_checks")
        ctx.case({"check": "distinct-keys-iteration", "algo": which, "E": E, "j": j, "h": _digest(acts)}, nontrivial=True,
                 cls="offpolicy/iteration-distinct-keys")
        if _pairwise_identical(acts):
            ctx.violation("iteration-gives-parallel-envs-the-same-key", {"algo": which, "E": E,
                                                                         "identical_env_pairs": _pairwise_identical(acts)})

    _guard(ctx, "offpolicy-keys", keys_one, ctx.n(2, 6))
    ctx.require("twin_cases_with_wrapped_replay_buffer", 1)
    ctx.require("twin_streams_compared", 40)
    ctx.require("twin_streams_distinct_from_a_neighbour", 20)
    ctx.require("key_independence_checks", 4)


# ---- key-independent variant: deterministic table policy, interpreter rollouts
def _unwrap_tl(env_state, tl):
    if tl is not None:
        return env_state.env_state, np.asarray(env_state.step_count)
    return env_state, None


def _judge_table(ctx, tag, ref, tl, table, V, gamma, lam, ss_in, ss_out, buf, E, info):
    from vlib.refmodels import gae_ref

    f_in, c_in = _unwrap_tl(ss_in.env_state, tl)
    f_out, c_out = _unwrap_tl(ss_out.env_state, tl)
    s_in, t_in = np.asarray(f_in.s), np.asarray(f_in.t)
    s_out, t_out = np.asarray(f_out.s), np.asarray(f_out.t)
    obs, act = np.asarray(buf.observations), np.asarray(buf.actions)
    rew, done = np.asarray(buf.rewards, np.float64), np.asarray(buf.dones)
    val, lp = np.asarray(buf.values, np.float64), np.asarray(buf.log_probs, np.float64)
    adv, ret = np.asarray(buf.advantages, np.float64), np.asarray(buf.returns, np.float64)
    T = obs.shape[1] if obs.ndim == 3 else -1
    if obs.ndim != 3 or obs.shape[0] != E or rew.shape != (E, T):
        ctx.violation("vectorised-rollout-shape", {**info, "obs": obs.shape, "rewards": rew.shape, "E": E})
        return
    # what the interpreter says each environment does (used to name the foreign stream in a witness)
    for e in range(E):
        s, t_ep = int(s_in[e]), int(t_in[e])
        n_done, ok = 0, True
        W = {"r": [], "v": [], "d": []}

        def bad(field, d):
            nonlocal ok
            ok = False
            ctx.violation(f"parallel-rollout-{field}-differs-from-interpreter", {**info, "env": e, "step": k, **d})

        for k in range(T):
            ctx.monitor("interpreter_steps")
            so = int(np.argmax(obs[e, k]))
            if so != s or abs(float(obs[e, k][s]) - 1.0) > 1e-6 or abs(float(np.sum(obs[e, k])) - 1.0) > 1e-6:
                others = [o for o in range(E) if o != e and int(np.argmax(obs[o, k])) == so]
                bad("observation", {"got_state": so, "want_state": s, "envs_in_that_state_at_this_step": others})
                break
            a = int(table[s])
            if int(act[e, k]) != a:
                bad("action", {"got": int(act[e, k]), "want": a, "state": s})
                break
            ns, r, term, trunc = ref.step(s, t_ep, a)
            d = term or trunc
            want_r = r + (gamma * float(V[ns]) if (trunc and not term) else 0.0)
            W["r"].append(want_r), W["v"].append(float(V[s])), W["d"].append(d)
            if bool(done[e, k]) != d:
                bad("done", {"got": bool(done[e, k]), "want": d, "state": s, "t": t_ep})
                break
            if abs(rew[e, k] - want_r) > 2e-5 + 1e-4 * abs(want_r):
                bad("reward", {"got": rew[e, k], "want": want_r, "state": s, "action": a, "row_mean_over_envs": float(np.mean(rew[:, k]))})
            if abs(val[e, k] - float(V[s])) > 1e-5 + 1e-5 * abs(float(V[s])):
                bad("value", {"got": val[e, k], "want": float(V[s]), "state": s})
            if abs(lp[e, k]) > 1e-6:
                bad("log-prob", {"got": lp[e, k], "want": 0.0})
            if d:
                n_done += 1
                s_next = int(np.argmax(obs[e, k + 1])) if k + 1 < T else int(s_out[e])
                if s_next not in ref.starts:
                    bad("restart-state", {"got": s_next, "starts": ref.starts})
                    break
                s, t_ep = s_next, 0
            else:
                s, t_ep = ns, t_ep + 1
        else:
            if (int(s_out[e]), int(t_out[e])) != (s, t_ep) or (tl is not None and int(c_out[e]) != t_ep):
                ctx.violation("parallel-rollout-carried-state-differs-from-interpreter",
                              {**info, "env": e, "got": [int(s_out[e]), int(t_out[e])], "want": [s, t_ep],
                               "all_envs_carried": [int(x) for x in s_out]})
                ok = False
            a_ref, ret_ref, bound = gae_ref(W["r"], W["v"], W["d"], float(V[s]), gamma, lam)
            tol = 1e-4 * bound + 1e-5
            ctx.monitor("interpreter_gae_streams")
            if not np.all(np.abs(adv[e] - a_ref) <= tol):
                kk = int(np.argmax(np.abs(adv[e] - a_ref) - tol))
                ctx.violation("parallel-rollout-advantage-differs-from-interpreter",
                              {**info, "env": e, "step": kk, "got": float(adv[e][kk]), "want": float(a_ref[kk]), "dones": W["d"]})
                ok = False
            elif not np.all(np.abs(ret[e] - ret_ref) <= tol):
                ctx.violation("parallel-rollout-return-differs-from-interpreter", {**info, "env": e, "got": ret[e], "want": ret_ref})
                ok = False
        ctx.case({**info, "env": e, "start": int(s_in[e]), "dones": n_done, "h": _digest(ref.P, ref.R, act[e], done[e])},
                 nontrivial=(E >= 2 and n_done > 0), cls=f"{tag}/{'with-done' if n_done else 'no-done'}")
        ctx.monitor("interpreter_streams_judged")


def u_coll_table(ctx):
    import equinox as eqx
    from jax import numpy as jnp
    from vlib.mdp import FState
    from vlib.stubs import TableACPolicy

    def one(i):
        single_start = i % 2 == 0
        env, ref, tabs, tl = _coll_env(ctx, i, "discrete", n_starts=1 if single_start else 3)
        nS, nA = ref.nS, ref.nA
        table = ctx.rng.integers(0, nA, size=nS)
        V = np.round(ctx.rng.normal(0, 1, size=nS), 3).astype(np.float32)
        pol = TableACPolicy(env, table, V)
        E = [2, 3, 4, 7][i % 4]
        T = int(ctx.rng.choice([3, 6, 11, 20]))
        algo, aname = _onpolicy_algo(ctx, i + (i // 3) % 2, E, T)  # PPO / A2C / REINFORCE in turn
        info = {"algo": aname, "E": E, "T": T, "tl": tl, "single_start": single_start, "i": i}
        cb = algo.consolidate_callbacks(None)
        st = algo.reset(env, pol, key=ctx.key(1000 + i), callback=cb)
        # distinct start states per environment (as far as the MDP has live states)
        live = np.flatnonzero(~(ref.term | ref.trunc))
        starts = ctx.rng.choice(live, size=E, replace=len(live) < E)
        F = FState(jnp.asarray(starts, jnp.int32), jnp.zeros(E, jnp.int32), jnp.zeros(E, jnp.float32), jnp.asarray(starts, jnp.int32))
        if tl is not None:
            new_es = eqx.tree_at(lambda s: (s.env_state, s.step_count), st.step_state.env_state,
                                 (F, jnp.zeros(E, st.step_state.env_state.step_count.dtype)))
        else:
            new_es = F
        st = eqx.tree_at(lambda s: s.step_state.env_state, st, new_es)
        info["starts"] = [int(x) for x in starts]
        if len(set(info["starts"])) > 1:
            ctx.monitor("table_cases_with_distinct_start_states")
        recs = _spy_iterations(ctx, algo, st, cb, 2, 2000 + 10 * i)
        for it, (prev, state, buf) in enumerate(recs):
            p = prev.policy
            _judge_table(ctx, f"table/{aname}", ref, tl, np.asarray(p.table), np.asarray(p.values, np.float64), algo.gamma,
                         algo.gae_lambda, prev.step_state, state.step_state, buf, E, {**info, "iteration": it})

    _guard(ctx, "table", one, ctx.n(6, 36))
    ctx.require("iteration_rollouts_captured", 4)
    ctx.require("interpreter_streams_judged", 10)
    ctx.require("interpreter_gae_streams", 10)
    ctx.require("table_cases_with_distinct_start_states", 2)


# ---- stateful policies: one private call counter per environment
def u_coll_stateful(ctx):
    import equinox as eqx
    from jax import numpy as jnp
    from lerax.algorithm import DQN
    from vlib.stubs import CountingACPolicy, CountingQPolicy

    def one(i):
        env, ref, tabs, tl = _coll_env(ctx, i, "discrete")
        E = [3, 2, 4, 7][i % 4]
        T = int(ctx.rng.choice([4, 9, 16]))
        algo, aname = _onpolicy_algo(ctx, i, E, T)
        pol = CountingACPolicy(env, key=ctx.key(500 + i))
        info = {"algo": aname, "E": E, "T": T, "tl": tl, "i": i}
        cb = algo.consolidate_callbacks(None)
        st = algo.reset(env, pol, key=ctx.key(1000 + i), callback=cb)
        st = eqx.tree_at(lambda s: s.step_state.policy_state.n, st, jnp.asarray(_offsets(E)))
        recs = _spy_iterations(ctx, algo, st, cb, 2, 2000 + 10 * i)
        for it, (prev, state, buf) in enumerate(recs):
            n_in, n_out = np.asarray(prev.step_state.policy_state.n), np.asarray(state.step_state.policy_state.n)
            stored, dones = np.asarray(buf.states.n), np.asarray(buf.dones)
            obs, vals = np.asarray(buf.observations), np.asarray(buf.values, np.float64)
            Vtab = np.asarray(prev.policy.values, np.float64)
            if stored.shape != (E, T):
                ctx.violation("vectorised-rollout-shape", {**info, "states": stored.shape})
                continue
            for e in range(E):
                c, n_done, ok = int(n_in[e]), 0, True
                for k in range(T):
                    ctx.monitor("counter_steps_judged")
                    if int(stored[e, k]) != c:
                        others = [o for o in range(E) if o != e and int(stored[o, k]) == int(stored[e, k])]
                        ctx.violation("policy-state-of-one-env-not-its-own-counter",
                                      {**info, "iteration": it, "env": e, "step": k, "got": int(stored[e, k]), "want": c,
                                       "envs_with_that_counter": others, "counters_in": [int(x) for x in n_in]})
                        ok = False
                        break
                    want_v = float(Vtab[int(np.argmax(obs[e, k]))]) + 0.05 * c
                    if abs(vals[e, k] - want_v) > 1e-4 + 1e-5 * abs(want_v):
                        ctx.violation("value-computed-with-foreign-policy-state",
                                      {**info, "iteration": it, "env": e, "step": k, "got": vals[e, k], "want": want_v, "counter": c})
                        ok = False
                        break
                    c = 0 if dones[e, k] else c + 1
                    n_done += int(dones[e, k])
                if ok and int(n_out[e]) != c:
                    ctx.violation("carried-policy-state-not-own-counter", {**info, "iteration": it, "env": e, "got": int(n_out[e]),
                                                                           "want": c, "all": [int(x) for x in n_out]})
                ctx.case({**info, "iteration": it, "env": e, "counter_in": int(n_in[e]), "dones": n_done,
                          "h": _digest(stored[e], dones[e])}, nontrivial=(E >= 2 and n_done > 0), cls=f"stateful/{aname}")
                ctx.monitor("counter_streams_judged")
    _guard(ctx, "stateful-onpolicy", one, ctx.n(4, 24))

    # ---- DQN with a counting Q policy: per-environment replay buffers carry each env's own counter
    def dqn_one(i):
        env, ref, tabs, tl = _coll_env(ctx, 50 + i, "discrete")
        E = [2, 3, 5, 7][i % 4]
        S, K = int(ctx.rng.integers(1, 6)), 2
        ls = int(ctx.rng.integers(1, 5))
        cap = ls + K * S + 1
        algo = DQN(buffer_size=cap * E, learning_starts=ls, num_envs=E, num_steps=S, batch_size=1, target_update_interval=2, gamma=0.9)
        pol = CountingQPolicy(env, key=ctx.key(700 + i))
        info = {"algo": "DQN", "E": E, "S": S, "learning_starts": ls, "cap": cap, "tl": tl, "i": i}
        cb = algo.consolidate_callbacks(None)
        st = eqx.filter_jit(lambda k: algo.reset(env, pol, key=k, callback=cb))(ctx.key(1000 + i))
        offs = _offsets(E)
        st = eqx.tree_at(lambda s: s.step_state.policy_state.n, st, jnp.asarray(offs))
        it_fn = eqx.filter_jit(lambda s, k: algo.iteration(s, key=k, callback=cb))
        for k in range(K):
            st = it_fn(st, ctx.key(3000 + 10 * i + k))
        b = st.step_state.buffer
        pos, sn, nn, dn = np.asarray(b.position), np.asarray(b.states.n), np.asarray(b.next_states.n), np.asarray(b.dones)
        n_out = np.asarray(st.step_state.policy_state.n)
        for e in range(E):
            if int(pos[e]) != ls + K * S or sn.shape[1] != cap:
                ctx.violation("per-env-replay-position-wrong", {**info, "env": e, "position": int(pos[e]), "want": ls + K * S, "cap": sn.shape[1]})
                continue
            c, n_done, ok = 0, 0, True
            for j in range(ls + K * S):
                if j == ls:
                    c = int(offs[e])  # the counter the harness planted after the warm-up
                ctx.monitor("counter_steps_judged")
                if int(sn[e, j]) != c or int(nn[e, j]) != c + 1:
                    others = [o for o in range(E) if o != e and int(sn[o, j]) == int(sn[e, j])]
                    ctx.violation("policy-state-of-one-env-not-its-own-counter",
                                  {**info, "env": e, "slot": j, "got": [int(sn[e, j]), int(nn[e, j])], "want": [c, c + 1],
                                   "envs_with_that_counter": others})
                    ok = False
                    break
                c = 0 if dn[e, j] else c + 1
                n_done += int(dn[e, j])
            if ok and int(n_out[e]) != c:
                ctx.violation("carried-policy-state-not-own-counter", {**info, "env": e, "got": int(n_out[e]), "want": c})
            ctx.case({**info, "env": e, "dones": n_done, "h": _digest(sn[e], dn[e])}, nontrivial=(n_done > 0), cls="stateful/DQN")
            ctx.monitor("counter_streams_judged")

    _guard(ctx, "stateful-dqn", dqn_one, ctx.n(4, 20))
    ctx.require("counter_streams_judged", 16)
    ctx.require("counter_steps_judged", 100)
    ctx.require("iteration_rollouts_captured", 4)


# ---- twins on built-in environments (diffrax inside the collection scan)
def u_coll_realenv(ctx):
    import equinox as eqx
    import lerax.env.classic_control as cc
    from jax import random as jr
    from lerax.algorithm import A2C, DQN, PPO, SAC
    from lerax.policy import MLPActorCriticPolicy, MLPQPolicy, MLPSACPolicy
    from lerax.wrapper import TimeLimit

    def ac(env, i):
        return MLPActorCriticPolicy(env, key=ctx.key(500 + i), feature_size=4, feature_width=8, value_width=8, action_width=8)

    configs = [
        ("PPO/CartPole", lambda: cc.CartPole(), lambda E: PPO(num_envs=E, num_steps=ctx.n(24, 48), num_batches=1, num_epochs=1), ac, 3),
        ("SAC/TimeLimit(Pendulum)", lambda: TimeLimit(cc.Pendulum(), 5),
         lambda E: SAC(buffer_size=12 * E, learning_starts=7, num_envs=E, num_steps=8, batch_size=2, q_width_size=8, q_depth=1),
         lambda env, i: MLPSACPolicy(env, key=ctx.key(500 + i), feature_size=4, width_size=8), 2),
        ("DQN/CartPole", lambda: cc.CartPole(),
         lambda E: DQN(buffer_size=20 * E, learning_starts=12, num_envs=E, num_steps=16, batch_size=2),
         lambda env, i: MLPQPolicy(env, key=ctx.key(500 + i), width_size=8, epsilon=0.5), 3),
        ("A2C/TimeLimit(Pendulum)", lambda: TimeLimit(cc.Pendulum(), 6), lambda E: A2C(num_envs=E, num_steps=ctx.n(16, 32)), ac, 7),
        ("PPO/TimeLimit(MountainCar)", lambda: TimeLimit(cc.MountainCar(), 4),
         lambda E: PPO(num_envs=E, num_steps=ctx.n(12, 24), num_batches=1, num_epochs=1), ac, 4),
        ("A2C/Acrobot", lambda: cc.Acrobot(), lambda E: A2C(num_envs=E, num_steps=ctx.n(12, 24)), ac, 2),
    ]
    if ctx.quick:
        configs = configs[:4]
    def one(i):
        label, mk_env, mk_algo, mk_pol, E = configs[i]
        env = mk_env()
        algo = mk_algo(E)
        pol = mk_pol(env, i)
        onp = hasattr(algo, "gae_lambda")
        info = {"config": label, "E": E, "i": i}
        cb = algo.consolidate_callbacks(None)
        st = eqx.filter_jit(lambda k: algo.reset(env, pol, key=k, callback=cb))(ctx.key(1000 + i))
        ss = st.step_state
        # reset(): every environment starts from its own draw (continuous start states)
        y0 = np.asarray(ss.env_state.unwrapped.y) if onp else None
        if onp:
            ctx.monitor("key_independence_checks")
            if _pairwise_identical(y0):
                ctx.violation("reset-gives-parallel-envs-the-same-key", {**info, "identical_env_pairs": _pairwise_identical(y0), "y0": y0})
        vm, single = _vm_single(algo)
        keys = jr.split(ctx.key(2000 + i), E)
        out_b, _ = _twin(ctx, f"realenv/{label}", "onpolicy" if onp else "offpolicy", single, vm, env, pol, ss, cb, keys, E, info)
        if onp:
            _gae_per_env(ctx, f"realenv/{label}", algo, env, pol, out_b, E, info)
            if np.asarray(out_b[1].dones).any():
                ctx.monitor("realenv_rollouts_with_episode_end")
        else:
            if np.asarray(out_b.buffer.dones).any():
                ctx.monitor("realenv_rollouts_with_episode_end")

    _guard(ctx, "realenv", one, len(configs))

    # ---- DQN.iteration (its own copy of the vectorised collection): identical start states, own key per env.
    # Discrete actions can coincide by chance, so the continuous CartPole observations over 64 steps decide:
    # identical streams need 64 coinciding epsilon-greedy draws (< 0.75^64 = 1e-8) and identical restart draws.
    def dqn_keys(j):
        import jax
        from jax import numpy as jnp

        E, S, ls = [3, 2][j % 2], 64, 2
        env = cc.CartPole()
        algo = DQN(buffer_size=(ls + S + 2) * E, learning_starts=ls, num_envs=E, num_steps=S, batch_size=2)
        pol = MLPQPolicy(env, key=ctx.key(800 + j), width_size=8, epsilon=0.5)
        cb = algo.consolidate_callbacks(None)
        st = eqx.filter_jit(lambda k: algo.reset(env, pol, key=k, callback=cb))(ctx.key(4000 + j))
        same = jax.tree.map(lambda x: jnp.broadcast_to(x[:1], x.shape) if isinstance(x, jax.Array) else x, st.step_state)
        st = eqx.tree_at(lambda s: s.step_state, st, same)
        st2 = eqx.filter_jit(lambda s, k: algo.iteration(s, key=k, callback=cb))(st, ctx.key(4500 + j))
        obs = np.asarray(st2.step_state.buffer.next_observations)[:, ls:ls + S]
        ctx.monitor("key_independence_checks")
        ctx.case({"check": "distinct-keys-iteration", "algo": "DQN", "E": E, "j": j, "h": _digest(obs)}, nontrivial=True,
                 cls="realenv/DQN-iteration-distinct-keys")
        if _pairwise_identical(obs):
            ctx.violation("iteration-gives-parallel-envs-the-same-key", {"algo": "DQN", "E": E,
                                                                         "identical_env_pairs": _pairwise_identical(obs)})

    _guard(ctx, "realenv-dqn-keys", dqn_keys, ctx.n(1, 2))
    ctx.require("key_independence_checks", 3)
    ctx.require("twin_streams_compared", 8)
    ctx.require("twin_streams_distinct_from_a_neighbour", 8)
    ctx.require("realenv_rollouts_with_episode_end", 2)


def run_unit(name, ctx):
    import warnings

    warnings.filterwarnings("ignore")
    if name.startswith("cc-"):
        return u_classic(ctx, name[3:])
    if name.startswith("mj-"):
        return u_mujoco(ctx, name[3:])
    if name == "g1-Standing":
        return u_g1(ctx)
    if name in WRAP_UNITS:
        return u_wrappers(ctx, name)
    return {"coll-onpolicy": u_coll_onpolicy, "coll-offpolicy": u_coll_offpolicy, "coll-table": u_coll_table,
            "coll-stateful": u_coll_stateful, "coll-realenv": u_coll_realenv}[name](ctx)
