"""C07 TD targets bootstrap through truncation, never through termination."""

from __future__ import annotations

import numpy as np

RULE = ("cases = crafted transition batches (ReplayBuffers filled by the real add(); all four done/timeout "
        "combinations, random rewards/actions) x online/target networks with different parameters x gamma/alpha "
        "grids, fed to the real DQN.dqn_loss / dqn_loss_grad / dqn_train and to the real SAC.sac_train run eagerly "
        "with a recording wrapper on SAC.q_loss_grad (per-sample targets observed at the call boundary); float64 "
        "formulas of the property are the oracle; non-trivial = batch contains a terminated AND a truncated(timeout) "
        "transition; distinct by hash of batch and parameters")
FLOOR = {"quick": 40, "thorough": 400}
ASSUMPTIONS = ["network outputs (float32) of the real Q / critic modules are inputs of the float64 target formula",
               "SAC 'fresh next action' is decided with a deterministic stub policy (next action a function of the "
               "successor observation, different from the stored action) plus key-sensitivity of the real policy"]


def units(tier):
    return [{"name": n, "timeout": 2400} for n in ("dqn_loss", "dqn_grad", "dqn_train", "sac_target", "sac_updates",
                                                     "sac_iteration", "dqn_stateful")]


def _flags(rng, N):
    combos = np.array([(0, 0), (1, 0), (1, 1), (0, 1)], bool)
    idx = rng.integers(0, 4, N)
    idx[: min(4, N)] = np.arange(min(4, N))
    rng.shuffle(idx)
    return combos[idx, 0], combos[idx, 1]


_SHAPES_Q = [(4, 3, 1), (6, 2, 2)]
_SHAPES_T = [(4, 3, 1), (6, 2, 2), (3, 4, 1), (5, 3, 2), (7, 2, 1)]


def _denv(ctx, kind="discrete"):
    """A few fixed shape families so that jitted functions are compiled once per family."""
    from vlib.mdp import FiniteMDP, random_tables

    shapes = _SHAPES_Q if ctx.quick else _SHAPES_T
    nS, nA, bd = shapes[int(ctx.rng.integers(0, len(shapes)))]
    t = random_tables(ctx.rng, nS, nA)
    return FiniteMDP(t["P"], t["R"], t["term"], t["starts"], kind=kind, box_dim=bd, low=-1.0, high=2.0)


_FILL = {}


def _fill_fn():
    import equinox as eqx
    from lerax.utils import filter_scan

    if "f" not in _FILL:
        def fill(buf, xs):
            def body(b, x):
                o, no, a, r, d, t = x
                return b.add(o, no, a, r, d, t, None, None), None

            return filter_scan(body, buf, xs)[0]

        _FILL["f"] = eqx.filter_jit(fill)
    return _FILL["f"]


def _fill(ctx, env, N, i, cap=None):
    """ReplayBuffer with N crafted transitions written by the real add()."""
    import jax
    import jax.numpy as jnp
    from jax import random as jr
    from lerax.buffer import ReplayBuffer

    cap = cap or N
    k1, k2, k3 = jr.split(ctx.key(70_000 + i), 3)
    obs = jax.vmap(lambda k: env.observation_space.sample(key=k))(jr.split(k1, N))
    nobs = jax.vmap(lambda k: env.observation_space.sample(key=k))(jr.split(k2, N))
    acts = jax.vmap(lambda k: env.action_space.sample(key=k))(jr.split(k3, N))
    rew = jnp.asarray(ctx.rng.normal(0, 2, N).astype(np.float32))
    done, tmo = _flags(ctx.rng, N)
    buf = ReplayBuffer(cap, env.observation_space, env.action_space, None)

    return _fill_fn()(buf, (obs, nobs, acts, rew, jnp.asarray(done), jnp.asarray(tmo)))


def dqn_ref(q_on, q_on_next, q_tg_next, actions, rewards, dones, timeouts, gamma):
    q_on, q_on_next, q_tg_next = (np.asarray(x, np.float64) for x in (q_on, q_on_next, q_tg_next))
    n = len(rewards)
    a = np.asarray(actions).astype(int)
    q_sel = q_on[np.arange(n), a]
    best = np.argmax(q_on_next, axis=-1)
    terminated = np.asarray(dones, bool) & ~np.asarray(timeouts, bool)
    targets = np.asarray(rewards, np.float64) + gamma * (1.0 - terminated) * q_tg_next[np.arange(n), best]
    return float(np.mean((q_sel - targets) ** 2) / 2), targets, q_sel, best


def _dqn_setup(ctx, i):
    from lerax.policy import MLPQPolicy

    env = _denv(ctx)
    N = int(ctx.rng.choice([8, 16] if ctx.quick else [4, 5, 8, 16, 33]))
    buf = _fill(ctx, env, N, i)
    online = MLPQPolicy(env, key=ctx.key(i), width_size=8)
    target = MLPQPolicy(env, key=ctx.key(10_000 + i), width_size=8)
    gamma = float(ctx.rng.choice([0.0, 0.5, 0.9, 0.99, 1.0]))
    return env, N, buf, online, target, gamma


def _dqn_nets(online, target, buf):
    import jax

    q_on = jax.vmap(lambda o: online.q_values(None, o)[1])(buf.observations)
    q_on_next = jax.vmap(lambda o: online.q_values(None, o)[1])(buf.next_observations)
    q_tg_next = jax.vmap(lambda o: target.q_values(None, o)[1])(buf.next_observations)
    return q_on, q_on_next, q_tg_next


def _classify_dqn(ctx, got, buf, q_on, q_on_next, q_tg_next, gamma, info):
    """Name the mechanism when the loss differs from the reference."""
    a, r = np.asarray(buf.actions), np.asarray(buf.rewards)
    d, t = np.asarray(buf.dones), np.asarray(buf.timeouts)
    alts = {
        "td-target-cuts-bootstrap-at-truncation": dqn_ref(q_on, q_on_next, q_tg_next, a, r, d, np.zeros_like(t), gamma)[0],
        "td-target-bootstraps-through-termination": dqn_ref(q_on, q_on_next, q_tg_next, a, r, np.zeros_like(d), t, gamma)[0],
        "dqn-greedy-action-from-target-network": dqn_ref(q_on, q_tg_next, q_tg_next, a, r, d, t, gamma)[0],
        "dqn-next-value-from-online-network": dqn_ref(q_on, q_on_next, q_on_next, a, r, d, t, gamma)[0],
    }
    for k, v in alts.items():
        if abs(got - v) <= 1e-5 + 1e-4 * abs(v):
            return k
    return "dqn-loss-mismatch"


def u_dqn_loss(ctx):
    import equinox as eqx
    from lerax.algorithm import DQN
    from vlib.common import digest

    lossfn = eqx.filter_jit(DQN.dqn_loss)
    for i in range(ctx.n(40, 400)):
        env, N, buf, online, target, gamma = _dqn_setup(ctx, i)
        q_on, q_on_next, q_tg_next = _dqn_nets(online, target, buf)
        want, targets, _, best = dqn_ref(q_on, q_on_next, q_tg_next, buf.actions, buf.rewards, buf.dones, buf.timeouts, gamma)
        got = float(lossfn(online, buf, target, gamma))
        d, t = np.asarray(buf.dones), np.asarray(buf.timeouts)
        nontriv = bool((d & ~t).any() and (d & t).any()) and gamma > 0
        ctx.case({"N": N, "gamma": gamma, "flags": [int(x) for x in (d.astype(int) * 2 + t.astype(int))[:16]],
                  "h": digest(buf.rewards, buf.actions, q_on, q_tg_next)}, nontrivial=nontriv, cls="dqn-loss")
        ctx.monitor("dqn_loss_evaluations")
        ctx.monitor("dqn_transitions_terminated", int((d & ~t).sum()))
        ctx.monitor("dqn_transitions_truncated", int((d & t).sum()))
        if abs(got - want) > 1e-5 + 2e-4 * abs(want):
            key = _classify_dqn(ctx, got, buf, q_on, q_on_next, q_tg_next, gamma, {})
            ctx.violation(key, {"got": got, "want": want, "gamma": gamma, "N": N, "dones": d.astype(int), "timeouts": t.astype(int)})


def u_dqn_grad(ctx):
    """Targets are constants for optimisation: the gradient handed to the optimiser is exactly that of
    0.5*mean((Q_online(s,a) - const)^2) w.r.t. the online network (nothing flows through the target side;
    the value of the loss does of course depend on the target network, so d loss / d target is not asserted)."""
    import equinox as eqx
    import jax
    import jax.numpy as jnp
    from lerax.algorithm import DQN
    from vlib.common import inexact_leaves

    for i in range(ctx.n(20, 150)):
        env, N, buf, online, target, gamma = _dqn_setup(ctx, i)
        gamma = max(gamma, 0.5)
        loss, g_on = DQN.dqn_loss_grad(online, buf, target, gamma)
        q_on, q_on_next, q_tg_next = _dqn_nets(online, target, buf)
        _, targets, _, _ = dqn_ref(q_on, q_on_next, q_tg_next, buf.actions, buf.rewards, buf.dones, buf.timeouts, gamma)
        tconst = jnp.asarray(targets, jnp.float32)

        def ref_loss(p):
            q = jax.vmap(lambda o: p.q_values(None, o)[1])(buf.observations)
            qs = q[jnp.arange(q.shape[0]), buf.actions.astype(int)]
            return jnp.mean(jnp.square(qs - tconst)) / 2

        g_ref = eqx.filter_grad(ref_loss)(online)
        a, b = inexact_leaves(g_on), inexact_leaves(g_ref)
        scale = max(max(float(np.max(np.abs(x))) for x in b if x.size), 1e-6)
        md = max(float(np.max(np.abs(x - y))) for x, y in zip(a, b) if x.size)
        ctx.case({"N": N, "gamma": gamma, "i": i, "scale": round(scale, 5)}, nontrivial=True, cls="dqn-grad")
        ctx.monitor("dqn_gradient_evaluations")
        # the optimiser only ever receives a gradient for the online network
        if jax.tree.structure(eqx.filter(g_on, eqx.is_inexact_array)) != jax.tree.structure(eqx.filter(online, eqx.is_inexact_array)):
            ctx.violation("dqn-gradient-structure-not-online-network", {})
        if md > 1e-6 + 1e-3 * scale:
            ctx.violation("dqn-online-gradient-not-of-constant-target-regression", {"maxdiff": md, "scale": scale})


_SG = {}


def _semi_grad():
    """jitted gradient of 0.5*mean((Q_online(s,a) - const)^2) w.r.t. the online network"""
    import equinox as eqx
    import jax
    import jax.numpy as jnp

    if "f" not in _SG:
        def loss(p, buf, tconst):
            q = jax.vmap(lambda o: p.q_values(None, o)[1])(buf.observations)
            qs = q[jnp.arange(q.shape[0]), buf.actions.astype(int)]
            return jnp.mean(jnp.square(qs - tconst)) / 2

        _SG["f"] = eqx.filter_jit(eqx.filter_grad(loss))
    return _SG["f"]


def u_dqn_train(ctx):
    """dqn_train on a full buffer with batch_size == capacity: the sampled batch is a permutation,
    so the reported loss is the reference loss of the whole buffer."""
    import equinox as eqx
    from lerax.algorithm import DQN

    for i in range(ctx.n(10, 60)):
        env, N, buf, online, target, gamma = _dqn_setup(ctx, i)
        algo = DQN(buffer_size=N, batch_size=N, gamma=gamma, learning_starts=1, num_steps=1)
        opt_state = algo.optimizer.init(eqx.filter(online, eqx.is_inexact_array))
        new_pol, _, log = eqx.filter_jit(algo.dqn_train)(online, opt_state, buf, target, key=ctx.key(i))
        q_on, q_on_next, q_tg_next = _dqn_nets(online, target, buf)
        want, *_ = dqn_ref(q_on, q_on_next, q_tg_next, buf.actions, buf.rewards, buf.dones, buf.timeouts, gamma)
        got = float(log["loss"])
        d, t = np.asarray(buf.dones), np.asarray(buf.timeouts)
        ctx.case({"N": N, "gamma": gamma, "i": i}, nontrivial=bool((d & ~t).any() and (d & t).any()), cls="dqn-train")
        ctx.monitor("dqn_train_calls")
        if abs(got - want) > 1e-5 + 2e-4 * abs(want):
            ctx.violation("dqn-train-" + _classify_dqn(ctx, got, buf, q_on, q_on_next, q_tg_next, gamma, {}),
                          {"got": got, "want": want, "gamma": gamma})
        # the parameter step is the optimiser applied to the semi-gradient (targets constant), for the
        # explicit-target path and for the public train() path (target = the policy itself)
        for path in ("dqn_train", "train"):
            tgt = target if path == "dqn_train" else online
            if path == "train":
                new_pol, _, log2 = eqx.filter_jit(algo.train)(online, opt_state, buf, key=ctx.key(i))
            _, qn_on, qn_tg = _dqn_nets(online, tgt, buf)
            _, targets, _, _ = dqn_ref(q_on, qn_on, qn_tg, buf.actions, buf.rewards, buf.dones, buf.timeouts, gamma)
            g_ref = _semi_grad()(online, buf, np.asarray(targets, np.float32))
            upd, _ = algo.optimizer.update(g_ref, opt_state, eqx.filter(online, eqx.is_inexact_array))
            want_pol = eqx.apply_updates(online, upd)
            from vlib.common import inexact_leaves

            a, b, p0 = inexact_leaves(new_pol), inexact_leaves(want_pol), inexact_leaves(online)
            md = max(float(np.max(np.abs(x - y))) for x, y in zip(a, b) if x.size and np.all(np.isfinite(x)))
            moved = max(float(np.max(np.abs(x - y))) for x, y in zip(b, p0) if x.size and np.all(np.isfinite(x)))
            ctx.monitor(f"dqn_{path}_steps_compared_with_semi_gradient")
            if gamma > 0 and md > 1e-6 + 2e-2 * moved:
                ctx.violation(f"dqn-{path.replace('_', '-')}-step-not-semi-gradient-targets-not-constant",
                              {"maxdiff": md, "moved": moved, "gamma": gamma, "N": N})


# ------------------------------------------------------------------------------------------ SAC
_DET = {}


def _stub_policy(env, a_shift, lp_scale):
    import jax.numpy as jnp
    from typing import ClassVar
    from lerax.policy import AbstractSACPolicy

    if "cls" not in _DET:
        class DetSAC(AbstractSACPolicy):
            """Deterministic stand-in: next action and its log-prob are functions of the observation only."""

            name: ClassVar[str] = "DetSAC"
            action_space: object
            observation_space: object
            w: object
            lp: object

            def __init__(self, env, a_shift, lp_scale):
                self.action_space = env.action_space
                self.observation_space = env.observation_space
                self.w = jnp.asarray(a_shift, jnp.float32)
                self.lp = jnp.asarray(lp_scale, jnp.float32)

            def reset(self, *, key):
                return None

            def _a(self, obs):
                z = jnp.sum(jnp.asarray(obs) * jnp.arange(1, obs.shape[0] + 1)) * self.w
                lo, hi = self.action_space.low, self.action_space.high
                return lo + (hi - lo) * (0.5 + 0.5 * jnp.sin(z + jnp.arange(lo.shape[0])))

            def __call__(self, state, observation, *, key=None, action_mask=None):
                return None, self._a(observation)

            def action_distribution(self, state, observation):
                raise NotImplementedError

            def action_and_log_prob(self, state, observation, *, key):
                return None, self._a(observation), self.lp * jnp.cos(jnp.sum(observation * 1.7))

        _DET["cls"] = DetSAC
    return _DET["cls"](env, a_shift, lp_scale)


_CFG = {}


def _sac_cfgs(ctx):
    """A bounded list of static configurations (shapes and hyper-parameters are compile-time constants);
    many instances (buffer contents, network parameters, alpha, keys) are run per configuration."""
    if "l" not in _CFG:
        out = []
        for c in range(ctx.n(6, 40)):
            env = _denv(ctx, "box")
            N = int(ctx.rng.choice([8] if ctx.quick else [4, 6, 8, 16]))
            out.append(dict(env=env, N=N, cap=N + int(ctx.rng.integers(0, 2) * 2), bs=int(ctx.rng.choice([N // 2, N])),
                            gamma=[0.9, 0.0, 0.5, 0.99, 1.0][c % 5], pf=[2, 1, 3][c % 3], autotune=bool(c % 2)))
        _CFG["l"] = out
    return _CFG["l"]


def _sac_setup(ctx, i, real_policy=False):
    import jax.numpy as jnp
    from lerax.algorithm import SAC
    from lerax.algorithm.sac import SoftQNetwork
    from lerax.policy import MLPSACPolicy

    cfgs = _sac_cfgs(ctx)
    # consecutive cases share a configuration (one compiled program), and the compiled programs of the
    # previous configuration are dropped when the configuration changes: thousands of live XLA executables
    # exhaust the process's memory mappings (observed: "LLVM ERROR: Unable to allocate section memory")
    reps = max(1, ctx.n(5, 8))
    ci = (i // reps) % len(cfgs)
    if _CFG.get("last") not in (None, ci):
        import jax

        jax.clear_caches()
    _CFG["last"] = ci
    cfg = cfgs[ci]
    env, N, cap, bs, gamma, pf = cfg["env"], cfg["N"], cfg["cap"], cfg["bs"], cfg["gamma"], cfg["pf"]
    if real_policy and gamma == 0.0:
        cfg = next(c for c in cfgs if c["gamma"] > 0)
        env, N, cap, bs, gamma, pf = cfg["env"], cfg["N"], cfg["cap"], cfg["bs"], cfg["gamma"], cfg["pf"]
    buf = _fill(ctx, env, N, i, cap=cap)
    # the whole range of temperatures, including ones far outside what autotuning usually reaches
    alpha = float(ctx.rng.choice([0.05, 0.2, 1.0, 3.0, 1e-3, 3e-3, 20.0, 1e-4, 100.0]))
    algo = SAC(buffer_size=cap, batch_size=bs, gamma=gamma, learning_starts=1, num_envs=1, num_steps=1,
               q_width_size=8, q_depth=1, initial_alpha=0.2, policy_frequency=pf, autotune=cfg["autotune"],
               q_lr=1e-2, policy_lr=1e-2)
    osz, asz = env.observation_space.flat_size, env.action_space.flat_size
    qs = [SoftQNetwork(osz, asz, width_size=8, depth=1, key=ctx.key(20_000 + 4 * i + j)) for j in range(4)]
    pol = (MLPSACPolicy(env, key=ctx.key(i), feature_size=4, width_size=8) if real_policy
           else _stub_policy(env, float(ctx.rng.uniform(0.5, 2)), float(ctx.rng.uniform(0.5, 3))))
    return env, algo, buf, pol, qs, jnp.log(jnp.asarray(alpha)), dict(N=N, cap=cap, bs=bs, gamma=gamma, alpha=alpha, pf=pf)


class _Spy:
    """Recording wrapper around the real SAC.q_loss_grad (call boundary of the per-sample targets)."""

    def __init__(self):
        from lerax.algorithm import SAC

        self.SAC = SAC
        self.orig = SAC.__dict__["q_loss_grad"]
        self.calls = []

    def __enter__(self):
        orig_fn = self.orig.__func__ if isinstance(self.orig, staticmethod) else self.orig

        def wrapped(q_params, batch, target):
            import jax

            def rec(b, t):
                self.calls.append((b, np.asarray(t)))

            # top level of sac_train (not inside cond/vmap): a faithful observation point also under jit
            jax.debug.callback(rec, batch, target, ordered=True)
            return orig_fn(q_params, batch, target)

        self.SAC.q_loss_grad = staticmethod(wrapped)
        return self

    def __exit__(self, *a):
        self.SAC.q_loss_grad = self.orig


_JIT = {}


def _sac_call(algo, pol, buf, qs, log_alpha, count, key):
    import equinox as eqx
    import jax
    import jax.numpy as jnp

    if "f" not in _JIT:
        def call(algo, pol, buf, qs, log_alpha, count, key):
            opt_state = algo.optimizer.init(eqx.filter(pol, eqx.is_inexact_array))
            q_opt = algo.q_optimizer.init((eqx.filter(qs[0], eqx.is_inexact_array), eqx.filter(qs[1], eqx.is_inexact_array)))
            a_opt = algo.alpha_optimizer.init(log_alpha)
            asz = max(pol.action_space.flat_size, 1)
            return algo.sac_train(pol, opt_state, buf, qs[0], qs[1], qs[2], qs[3], q_opt, log_alpha, a_opt,
                                  jnp.array(-float(asz)), count, key=key), q_opt

        _JIT["f"] = eqx.filter_jit(call)
    out = _JIT["f"](algo, pol, buf, qs, log_alpha, jnp.array(count, dtype=int), key)
    jax.effects_barrier()
    return out


def sac_target_ref(pol, qs, batch, gamma, alpha):
    import jax

    batch = jax.tree.map(lambda x: jax.numpy.asarray(x) if isinstance(x, np.ndarray) else x, batch)

    nobs = batch.next_observations
    na = jax.vmap(lambda o: pol._a(o))(nobs)
    nlp = jax.vmap(lambda o: pol.action_and_log_prob(None, o, key=None)[2])(nobs)
    q1 = np.asarray(jax.vmap(qs[2])(nobs, na), np.float64)
    q2 = np.asarray(jax.vmap(qs[3])(nobs, na), np.float64)
    d, t = np.asarray(batch.dones, bool), np.asarray(batch.timeouts, bool)
    terminated = d & ~t
    r = np.asarray(batch.rewards, np.float64)
    nlp = np.asarray(nlp, np.float64)
    base = dict(q1=q1, q2=q2, nlp=nlp, r=r, d=d, t=t)
    return r + gamma * (1.0 - terminated) * (np.minimum(q1, q2) - alpha * nlp), base


def u_sac_target(ctx):
    import jax
    from vlib.common import digest

    with _Spy() as spy:
        for i in range(ctx.n(30, 300)):
            env, algo, buf, pol, qs, log_alpha, info = _sac_setup(ctx, i)
            spy.calls.clear()
            (out, _) = _sac_call(algo, pol, buf, qs, log_alpha, 0, ctx.key(i))
            if len(spy.calls) != 1 or spy.calls[0][1] is None:
                ctx.inconc("SAC.q_loss_grad spy saw no concrete per-sample targets")
                continue
            batch, got = spy.calls[0]
            ctx.monitor("sac_target_vectors_observed")
            want, b = sac_target_ref(pol, qs, batch, info["gamma"], info["alpha"])
            d, t = b["d"], b["t"]
            ctx.case({**info, "flags": [int(x) for x in (d.astype(int) * 2 + t.astype(int))[:16]],
                      "h": digest(batch.rewards, batch.actions, b["q1"])},
                     nontrivial=bool((d & ~t).any() and (d & t).any()) and info["gamma"] > 0, cls="sac-target")
            g, al = info["gamma"], info["alpha"]
            if got.shape != want.shape or np.max(np.abs(got - want)) > 1e-5 + 2e-4 * np.max(np.abs(want)):
                mn = np.minimum(b["q1"], b["q2"])
                alts = {
                    "td-target-cuts-bootstrap-at-truncation": b["r"] + g * (1.0 - d) * (mn - al * b["nlp"]),
                    "td-target-bootstraps-through-termination": b["r"] + g * (mn - al * b["nlp"]),
                    "sac-target-uses-max-of-critics": b["r"] + g * (1.0 - (d & ~t)) * (np.maximum(b["q1"], b["q2"]) - al * b["nlp"]),
                    "sac-target-entropy-term-sign": b["r"] + g * (1.0 - (d & ~t)) * (mn + al * b["nlp"]),
                    "sac-target-without-entropy-term": b["r"] + g * (1.0 - (d & ~t)) * mn,
                }
                key = "sac-target-mismatch"
                for k, v in alts.items():
                    if got.shape == v.shape and np.max(np.abs(got - v)) <= 1e-5 + 2e-4 * np.max(np.abs(v)):
                        key = k
                        break
                ctx.violation(key, {**info, "got": got, "want": want, "dones": d.astype(int), "timeouts": t.astype(int)})
            # reported q_loss = sum over both critics of 0.5*mean((Q_i(s,a) - target)^2) with those targets
            q1 = np.asarray(jax.vmap(qs[0])(batch.observations, batch.actions), np.float64)
            q2 = np.asarray(jax.vmap(qs[1])(batch.observations, batch.actions), np.float64)
            want_loss = float(np.mean((q1 - want) ** 2) / 2 + np.mean((q2 - want) ** 2) / 2)
            got_loss = float(out[7]["q_loss"])
            ctx.monitor("sac_q_loss_compared")
            if abs(got_loss - want_loss) > 1e-5 + 3e-4 * abs(want_loss) and np.max(np.abs(got - want)) <= 1e-5 + 2e-4 * np.max(np.abs(want)):
                ctx.violation("sac-q-loss-not-twin-half-mse-against-targets", {**info, "got": got_loss, "want": want_loss})
        # fresh next action: with the real stochastic policy, targets depend on the key
        for i in range(ctx.n(4, 20)):
            env, algo, buf, pol, qs, log_alpha, info = _sac_setup(ctx, 500 + i, real_policy=True)
            if info["gamma"] == 0.0:
                continue
            spy.calls.clear()
            _sac_call(algo, pol, buf, qs, log_alpha, 0, ctx.key(1))
            _sac_call(algo, pol, buf, qs, log_alpha, 0, ctx.key(1))
            _sac_call(algo, pol, buf, qs, log_alpha, 0, ctx.key(2))
            if len(spy.calls) != 3 or any(c[1] is None for c in spy.calls):
                ctx.inconc("spy did not observe the real-policy targets")
                continue
            ctx.monitor("sac_fresh_sample_probes")
            same_batch = np.array_equal(np.asarray(spy.calls[0][0].rewards), np.asarray(spy.calls[1][0].rewards))
            if not (same_batch and np.array_equal(spy.calls[0][1], spy.calls[1][1])):
                ctx.violation("sac-targets-not-a-function-of-the-key", {**info})
            # different key: new batch order and new next actions -> compare as multisets keyed by reward
            # only bootstrapped (non-terminated) samples carry the next action in their target
            def boot(call):
                b, t = call
                nd = ~(np.asarray(b.dones) & ~np.asarray(b.timeouts))
                return {float(r): float(x) for r, x, keep in zip(np.asarray(b.rewards), t, nd) if keep}

            a, c = boot(spy.calls[0]), boot(spy.calls[2])
            common = [k for k in a if k in c]
            if not common:
                ctx.monitor("sac_fresh_sample_probes_without_common_bootstrapped_sample")
            elif all(a[k] == c[k] for k in common):
                ctx.violation("sac-next-action-not-freshly-sampled", {**info, "common_bootstrapped": len(common)})
            else:
                ctx.monitor("sac_fresh_sample_probes_decided")
    ctx.require("sac_target_vectors_observed", 10)
    ctx.require("sac_fresh_sample_probes_decided", 2)


def u_sac_updates(ctx):
    """Critics are regressed on constant targets; the actor loss does not move the critics."""
    import equinox as eqx
    import jax
    import jax.numpy as jnp
    import optax
    from vlib.common import inexact_leaves, leaves_equal

    with _Spy() as spy:
        for i in range(ctx.n(10, 80)):
            env, algo, buf, pol, qs, log_alpha, info = _sac_setup(ctx, 900 + i, real_policy=bool(i % 2))
            pf = info["pf"]
            key = ctx.key(i)
            spy.calls.clear()
            (out_a, q_opt) = _sac_call(algo, pol, buf, qs, log_alpha, 0, key)       # 0 % pf == 0: actor updates
            (out_s, _) = _sac_call(algo, pol, buf, qs, log_alpha, 1, key)           # skipped unless pf == 1
            if len(spy.calls) != 2 or spy.calls[0][1] is None:
                ctx.inconc("spy saw no concrete targets")
                continue
            batch, targets = spy.calls[0]
            ctx.case({**info, "i": i}, nontrivial=True, cls="sac-updates")
            ctx.monitor("sac_update_pairs")
            # (1) critic update = q_optimizer step on the gradient of the twin regression with constant targets
            tconst = jnp.asarray(targets)

            def ref_loss(qp):
                a, b = qp
                l1 = jnp.mean(jnp.square(jax.vmap(a)(batch.observations, batch.actions).squeeze() - tconst)) / 2
                l2 = jnp.mean(jnp.square(jax.vmap(b)(batch.observations, batch.actions).squeeze() - tconst)) / 2
                return l1 + l2

            g = eqx.filter_grad(ref_loss)((qs[0], qs[1]))
            params = (eqx.filter(qs[0], eqx.is_inexact_array), eqx.filter(qs[1], eqx.is_inexact_array))
            upd, _ = algo.q_optimizer.update(g, q_opt, params)
            want_q = eqx.apply_updates((qs[0], qs[1]), upd)
            a, b = inexact_leaves((out_a[2], out_a[3])), inexact_leaves(want_q)
            md = max(float(np.max(np.abs(x - y))) for x, y in zip(a, b) if x.size)
            moved = max(float(np.max(np.abs(x - y))) for x, y in zip(a, inexact_leaves((qs[0], qs[1]))) if x.size)
            if md > 1e-6 + 1e-2 * moved:
                ctx.violation("critic-update-not-regression-on-constant-targets", {**info, "maxdiff": md, "moved": moved})
            if moved == 0.0:
                ctx.violation("critics-not-updated", {**info})
            # (2) the actor step does not move the critics: same key, actor updated vs skipped
            if pf > 1:
                ctx.monitor("actor_vs_skip_pairs")
                if not leaves_equal((out_a[2], out_a[3]), (out_s[2], out_s[3])):
                    ctx.violation("actor-loss-moves-the-critics", {**info})
                if not leaves_equal(out_s[0], pol):
                    ctx.violation("actor-updated-on-skip-iteration", {**info})
                if leaves_equal(out_a[0], pol):
                    ctx.violation("actor-not-updated-on-actor-iteration", {**info})
    ctx.require("sac_update_pairs", 5)
    ctx.require("actor_vs_skip_pairs", 2)


def u_dqn_stateful(ctx):
    """Double-DQN target with a *stateful* Q policy: the online value of the taken action uses the stored
    acting policy state, the greedy next action and the target value use the stored next policy state."""
    import equinox as eqx
    import jax
    import jax.numpy as jnp
    from jax import random as jr
    from lerax.algorithm import DQN
    from lerax.buffer import ReplayBuffer
    from lerax.utils import filter_scan
    from vlib.common import digest
    from vlib.stubs import CountingQPolicy, CountState

    lossfn = eqx.filter_jit(DQN.dqn_loss)

    def fill(buf, xs):
        def body(b, x):
            o, no, a, r, d, t, n0, n1 = x
            return b.add(o, no, a, r, d, t, CountState(n0), CountState(n1)), None

        return filter_scan(body, buf, xs)[0]

    fill = eqx.filter_jit(fill)
    for i in range(ctx.n(20, 150)):
        env = _denv(ctx)
        nS, nA = env.nS, env.nA
        N = 16
        k1, k2, k3 = jr.split(ctx.key(90_000 + i), 3)
        s0 = ctx.rng.integers(0, nS, N)
        s1 = ctx.rng.integers(0, nS, N)
        obs = jnp.asarray(np.eye(nS, dtype=np.float32)[s0])
        nobs = jnp.asarray(np.eye(nS, dtype=np.float32)[s1])
        acts = jnp.asarray(ctx.rng.integers(0, nA, N))
        rew = jnp.asarray(ctx.rng.normal(0, 2, N).astype(np.float32))
        done, tmo = _flags(ctx.rng, N)
        n0 = ctx.rng.integers(0, 7, N)
        n1 = (n0 + ctx.rng.integers(1, 5, N))  # next policy state differs from the acting one
        buf = ReplayBuffer(N, env.observation_space, env.action_space, CountState(jnp.array(0, jnp.int32)))
        buf = fill(buf, (obs, nobs, acts, rew, jnp.asarray(done), jnp.asarray(tmo), jnp.asarray(n0, jnp.int32), jnp.asarray(n1, jnp.int32)))
        online = CountingQPolicy(env, key=ctx.key(i))
        target = CountingQPolicy(env, key=ctx.key(10_000 + i))
        gamma = float(ctx.rng.choice([0.5, 0.9, 0.99, 1.0]))

        def q(pol, n, o):
            return np.asarray(jax.vmap(lambda nn, oo: pol.q_values(CountState(nn), oo)[1])(jnp.asarray(n, jnp.int32), o), np.float64)

        want, *_ = dqn_ref(q(online, n0, obs), q(online, n1, nobs), q(target, n1, nobs), acts, rew, done, tmo, gamma)
        got = float(lossfn(online, buf, target, gamma))
        ctx.case({"N": N, "gamma": gamma, "h": digest(np.asarray(rew), n0, n1, s0, s1)},
                 nontrivial=bool((done & ~tmo).any() and (done & tmo).any()), cls="dqn-loss-stateful")
        ctx.monitor("dqn_stateful_loss_evaluations")
        if abs(got - want) > 1e-5 + 2e-4 * abs(want):
            alts = {
                "dqn-greedy-action-from-acting-policy-state": dqn_ref(q(online, n0, obs), q(online, n0, nobs), q(target, n1, nobs), acts, rew, done, tmo, gamma)[0],
                "dqn-target-value-from-acting-policy-state": dqn_ref(q(online, n0, obs), q(online, n1, nobs), q(target, n0, nobs), acts, rew, done, tmo, gamma)[0],
                "dqn-taken-action-value-from-next-policy-state": dqn_ref(q(online, n1, obs), q(online, n1, nobs), q(target, n1, nobs), acts, rew, done, tmo, gamma)[0],
            }
            key = "dqn-loss-mismatch-stateful-policy"
            for k, v in alts.items():
                if abs(got - v) <= 1e-5 + 2e-4 * abs(v):
                    key = k
                    break
            ctx.violation(key, {"got": got, "want": want, "gamma": gamma})
    ctx.require("dqn_stateful_loss_evaluations", 10)


def u_sac_iteration(ctx):
    """The real iteration() must hand the *target* critics of the state to the target computation:
    state built by the real reset(), target critics replaced by nets with other parameters, one real
    iteration with the recording wrapper on q_loss_grad."""
    import equinox as eqx
    import jax
    import jax.numpy as jnp
    from lerax.algorithm import SAC
    from lerax.algorithm.sac import SoftQNetwork
    from lerax.wrapper import TimeLimit
    from vlib.common import inexact_leaves

    with _Spy() as spy:
        for i in range(ctx.n(12, 40)):
            from vlib.mdp import FiniteMDP, random_tables

            nS_, nA_, bd_ = (_SHAPES_Q if ctx.quick else _SHAPES_T)[int(ctx.rng.integers(0, len(_SHAPES_Q if ctx.quick else _SHAPES_T)))]
            tb_ = random_tables(ctx.rng, nS_, nA_, p_term=0.3)
            tl_ = int(ctx.rng.integers(2, 5))
            if i % 3 == 0:
                # a chain that reaches its terminal state exactly when the time limit expires: terminated AND truncated
                L_ = int(ctx.rng.integers(1, min(4, nS_)))
                tb_["P"] = np.minimum(np.arange(nS_)[:, None] + 1, nS_ - 1) * np.ones((1, nA_), int)
                tb_["term"] = np.arange(nS_) == L_
                tb_["starts"] = np.array([0])
                tl_ = L_
            # observation = one-hot state + episode clock: the true (terminated, truncated) of every stored
            # transition can be recomputed from what the batch holds
            env = TimeLimit(FiniteMDP(tb_["P"], tb_["R"], tb_["term"], tb_["starts"], kind="box", box_dim=bd_, low=-1.0, high=2.0,
                                      obs_kind="onehot_t"), tl_)
            gamma = float(ctx.rng.choice([0.5, 0.9, 0.99]))
            alpha = float(ctx.rng.choice([0.05, 0.2, 1.0, 1e-3, 20.0]))
            E, S = int(ctx.rng.integers(1, 3)), int(ctx.rng.integers(1, 3))
            cap_ = [16, 5, 4, 7][i % 4]  # small capacities: the judged iteration samples from a ring that has wrapped
            algo = SAC(buffer_size=cap_ * E, batch_size=4, gamma=gamma, learning_starts=4, num_envs=E, num_steps=S,
                       q_width_size=8, q_depth=1, initial_alpha=alpha, policy_frequency=2, autotune=False, q_lr=1e-2)
            pol = _stub_policy(env, float(ctx.rng.uniform(0.5, 2)), float(ctx.rng.uniform(0.5, 3)))
            cb = algo.consolidate_callbacks(None)
            st = eqx.filter_jit(lambda k: algo.reset(env, pol, key=k, callback=cb))(ctx.key(i))
            osz, asz = env.observation_space.flat_size, env.action_space.flat_size
            t1 = SoftQNetwork(osz, asz, width_size=8, depth=1, key=ctx.key(100 + i))
            t2 = SoftQNetwork(osz, asz, width_size=8, depth=1, key=ctx.key(200 + i))
            it_ = eqx.filter_jit(lambda s, k: algo.iteration(s, key=k, callback=cb))
            n_warm = [0, 3, 6, 4][i % 4]
            for w_ in range(n_warm):  # earlier iterations: more collection, the ring wraps (several laps for cap 4-5)
                st = it_(st, ctx.key(5000 + 10 * i + w_))
            if (4 + (n_warm + 1) * S) > cap_:
                ctx.monitor("sac_iteration_judged_on_a_wrapped_ring")
            st = eqx.tree_at(lambda s: (s.qf1_target, s.qf2_target), st, (t1, t2))
            jax.effects_barrier()
            spy.calls.clear()
            st2 = it_(st, ctx.key(300 + i))
            jax.effects_barrier()
            if len(spy.calls) != 1 or spy.calls[0][1] is None:
                ctx.inconc("spy saw no targets during iteration()")
                continue
            batch, got = spy.calls[0]
            pol_now = st.policy  # the warm-up iterations may have trained the actor
            want, b = sac_target_ref(pol_now, [st.qf1, st.qf2, st.qf1_target, st.qf2_target], batch, gamma, alpha)
            ctx.case({"gamma": gamma, "alpha": alpha, "E": E, "S": S, "i": i}, nontrivial=True, cls="sac-iteration")
            ctx.monitor("sac_iteration_targets_observed")
            # end to end: the s' that V' is evaluated at is the successor the environment actually reached from
            # the stored (s, a), also on a truncated step (where the collector has already restarted the episode)
            from vlib.mdp import RefMDP

            base = env.env
            ref = RefMDP(np.asarray(base.P), np.asarray(base.R), np.asarray(base.term), np.asarray(base.starts),
                         kind="box", low=base.low, high=base.high, time_limit=tl_)
            o_b, no_b, a_b = np.asarray(batch.observations), np.asarray(batch.next_observations), np.asarray(batch.actions)
            d_b, t_b = np.asarray(batch.dones, bool), np.asarray(batch.timeouts, bool)
            nS0 = ref.nS
            term_true = np.zeros(len(o_b), bool)
            for j in range(len(o_b)):
                s_j, clock_j = int(np.argmax(o_b[j][:nS0])), int(round(float(o_b[j][nS0])))
                ns_j, _r, te_j, tr_j = ref.step(s_j, clock_j, ref.clip(a_b[j]))
                term_true[j] = te_j
                ctx.monitor("sac_iteration_bootstrap_states_checked")
                if tr_j and not te_j:
                    ctx.monitor("sac_iteration_truncated_bootstrap_states_checked")
                if te_j and tr_j:
                    ctx.monitor("sac_iteration_samples_terminated_and_truncated_at_once")
                if int(np.argmax(no_b[j][:nS0])) != ns_j or int(round(float(no_b[j][nS0]))) != clock_j + 1:
                    ctx.violation("sac-iteration-target-bootstraps-from-a-state-that-is-not-the-successor",
                                  {"s": s_j, "t": clock_j, "action": a_b[j], "true_successor": [ns_j, clock_j + 1], "stored_next_obs": no_b[j],
                                   "done": bool(d_b[j]), "timeout": bool(t_b[j]), "gamma": gamma})
                    break
            else:
                # end to end: the target of every sample, with the *true* termination of the transition it records
                want_true = b["r"] + gamma * (1.0 - term_true) * (np.minimum(b["q1"], b["q2"]) - alpha * b["nlp"])
                ctx.monitor("sac_iteration_targets_compared_with_true_terminations", len(o_b))
                if gamma > 0 and np.max(np.abs(got - want_true)) > 1e-5 + 2e-4 * np.max(np.abs(want_true)):
                    jw = int(np.argmax(np.abs(got - want_true)))
                    ctx.violation("sac-iteration-target-bootstrap-mask-not-the-true-termination",
                                  {"got": got[jw], "want": want_true[jw], "truly_terminated": bool(term_true[jw]),
                                   "stored_done": bool(d_b[jw]), "stored_timeout": bool(t_b[jw]), "gamma": gamma})
            if np.max(np.abs(got - want)) > 1e-5 + 2e-4 * np.max(np.abs(want)):
                alt, _ = sac_target_ref(pol_now, [st.qf1, st.qf2, st.qf1, st.qf2_target], batch, gamma, alpha)
                alt2, _ = sac_target_ref(pol_now, [st.qf1, st.qf2, st.qf1, st.qf2], batch, gamma, alpha)
                key = "sac-iteration-targets-not-from-target-critics"
                if np.max(np.abs(got - alt)) <= 1e-5 + 2e-4 * np.max(np.abs(alt)) or np.max(np.abs(got - alt2)) <= 1e-5 + 2e-4 * np.max(np.abs(alt2)):
                    key = "sac-iteration-uses-online-critic-as-target"
                ctx.violation(key, {"gamma": gamma, "alpha": alpha, "got": got, "want": want})
            # the iteration must not have changed the target critics except by one Polyak step
            for nm, tnet in (("qf1", t1), ("qf2", t2)):
                on = inexact_leaves(getattr(st2, nm))
                tg = inexact_leaves(getattr(st2, nm + "_target"))
                t0 = inexact_leaves(tnet)
                err = max(float(np.max(np.abs(algo.tau * o.astype(np.float64) + (1 - algo.tau) * a.astype(np.float64) - g)))
                          for o, a, g in zip(on, t0, tg) if o.size)
                if err > 2e-6:
                    ctx.violation("sac-iteration-target-critics-not-polyak-of-state-targets", {"net": nm, "err": err})
    ctx.require("sac_iteration_targets_observed", 3)
    ctx.require("sac_iteration_truncated_bootstrap_states_checked", 1)
    ctx.require("sac_iteration_samples_terminated_and_truncated_at_once", 1)
    ctx.require("sac_iteration_judged_on_a_wrapped_ring", 3)


def run_unit(name, ctx):
    if name == "sac_iteration":
        return u_sac_iteration(ctx)
    if name == "dqn_stateful":
        return u_dqn_stateful(ctx)
    {"dqn_loss": u_dqn_loss, "dqn_grad": u_dqn_grad, "dqn_train": u_dqn_train, "sac_target": u_sac_target,
     "sac_updates": u_sac_updates}[name](ctx)
