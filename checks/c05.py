"""C05 Off-policy collection stores exactly the transitions that happened."""

from __future__ import annotations

import numpy as np

RULE = ("cases = one environment's replay contents after the real DQN/SAC reset() (warm-up) and after k "
        "iteration()/collect_rollout calls on a random finite MDP whose observation carries (state, episode "
        "clock); the stored transitions are read back in insertion order (ring model) and replayed by a "
        "pure-Python interpreter; grids over (buffer_size, learning_starts, num_envs, num_steps) incl. "
        "buffer_size not divisible by num_envs and learning_starts > per-env capacity; non-trivial = stream "
        "contains >= 1 done (and for Box >= 1 out-of-bounds chosen action); distinct by hash of the stream")
FLOOR = {"quick": 20, "thorough": 200}
ASSUMPTIONS = ["RefMDP interpreter (vlib/mdp.py) is the semantics of the harness-defined FiniteMDP",
               "insertion order is recovered from position and capacity (ring model, decided by C06)"]


def units(tier):
    return [{"name": n, "timeout": 2400} for n in ("dqn", "dqn_stateful", "sac", "sac_wild", "clock")]


_ENVCLS = {}


def _mk_env(B):
    """FiniteMDP, or a subclass whose reward adds B[state reached] (B closed over as a constant table)."""
    from vlib.mdp import FiniteMDP

    if B is None:
        return FiniteMDP
    import jax.numpy as jnp

    if "cls" not in _ENVCLS:
        import jax

        class BonusMDP(FiniteMDP):
            bonus: jax.Array

            def __init__(self, bonus, *a, **k):
                super().__init__(*a, **k)
                self.bonus = jnp.asarray(bonus, jnp.float32)

            def reward(self, state, action, next_state, *, key):
                return self._r(state, action) + self.bonus[next_state.s]

        _ENVCLS["cls"] = BonusMDP

    return lambda *a, **k: _ENVCLS["cls"](B, *a, **k)


def _build(ctx, i, kind, never_ends=False):
    from lerax.wrapper import TimeLimit
    from vlib.mdp import FiniteMDP, RefMDP, random_tables

    rng = ctx.rng
    nS, nA = int(rng.integers(3, 8)), int(rng.integers(2, 5))
    tabs = random_tables(rng, nS, nA, p_term=0.0 if never_ends else float(rng.choice([0.0, 0.15, 0.35])),
                         p_trunc=0.0 if never_ends else float(rng.choice([0.0, 0.0, 0.2])),
                         n_starts=int(rng.integers(1, 4)))
    tl = None if never_ends else [None, 1, 2, 3, 5][int(rng.integers(0, 5))]
    if i % 4 == 0 and not never_ends:
        L = int(rng.integers(1, 4))
        nS = L + 1
        tabs["P"] = np.minimum(np.arange(nS)[:, None] + 1, nS - 1) * np.ones((1, nA), int)
        tabs["R"] = np.round(rng.normal(0, 1, (nS, nA)), 3).astype(np.float32)
        tabs["term"] = np.arange(nS) == L
        tabs["trunc"] = np.zeros(nS, bool)
        tabs["starts"] = np.array([0])
        tl = L
    low, high = (-1.0, 1.0) if i % 2 == 0 else (-0.5, 2.0)
    kw = dict(trunc=tabs["trunc"], kind=kind, low=low, high=high)
    # half of the environments pay a bonus that depends on the state *reached* (the pre-reset successor): a reward
    # computed against anything else, e.g. the state the collector restarts from, is then visible
    B = np.round(rng.normal(0, 1, size=len(tabs["term"])), 3).astype(np.float32) if i % 2 == 1 else None
    env = _mk_env(B)(tabs["P"], tabs["R"], tabs["term"], tabs["starts"], obs_kind="onehot_t",
                     box_dim=int(rng.integers(1, 3)), **kw)
    ref = RefMDP(tabs["P"], tabs["R"], tabs["term"], tabs["starts"], time_limit=tl, **kw)
    ref.bonus = B
    if tl is not None:
        env = TimeLimit(env, tl)
    return env, ref, tl


_PLAN = {}


def _dec(o, nS):
    return int(np.argmax(o[:nS])), int(round(float(o[nS])))


def _judge(ctx, tag, ref, tl, buf, env_state, pol_state_n, expected_position, cap, e, info, fresh_start):
    """buf: dict of numpy arrays for this env (leading axis = capacity)."""
    from vlib.common import digest

    nS = ref.nS
    pos = int(buf["position"])
    if pos != expected_position:
        ctx.violation("stored-transition-count-wrong", {"position": pos, "want": expected_position, **info, "env": e})
        return
    n = min(pos, cap)
    order = [(pos - n + j) % cap for j in range(n)]
    stateful = buf["states"] is not None
    prev = None  # (ns, t+1, done, pn_next)
    n_done = n_oob = 0
    kinds = set()
    ok = True

    def bad(key, d):
        nonlocal ok
        ok = False
        ctx.violation(key, {**d, **info, "env": e, "slot": idx, "j": j})

    for j, idx in enumerate(order):
        ctx.monitor("transitions_replayed")
        s, t = _dec(buf["obs"][idx], nS)
        if prev is None:
            if fresh_start and pos <= cap and (s not in ref.starts or t != 0):
                bad("first-stored-transition-not-from-initial-state", {"s": s, "t": t})
        else:
            ps, pt, pdone = prev
            if pdone:
                if s not in ref.starts or t != 0:
                    bad("no-fresh-initial-state-after-done", {"s": s, "t": t, "starts": ref.starts})
                    return
            elif (s, t) != (ps, pt):
                bad("stream-discontinuity-foreign-or-lost-transition", {"got": [s, t], "want": [ps, pt]})
                return
        a = buf["actions"][idx]
        a_exec = ref.clip(a)
        if ref.kind == "box" and not np.array_equal(a_exec, np.asarray(a, np.float32)):
            n_oob += 1
            ctx.monitor("chosen_actions_outside_bounds")
        ns, r, term, trunc = ref.step(s, t, a_exec)
        if getattr(ref, "bonus", None) is not None:
            r = r + float(ref.bonus[ns])
            ctx.monitor("rewards_with_a_successor_dependent_term_checked")
            if term or trunc:
                ctx.monitor("episode_end_rewards_with_a_successor_dependent_term_checked")
        tol = 2e-5 + 1e-4 * abs(r)
        got_r = float(buf["rewards"][idx])
        if abs(got_r - r) > tol:
            if ref.kind == "box" and abs(got_r - ref.reward(s, a) - (float(ref.bonus[ns]) if getattr(ref, "bonus", None) is not None else 0.0)) <= tol:
                bad("reward-computed-with-unclipped-action", {"got": got_r, "want": r, "action": a})
            elif getattr(ref, "bonus", None) is not None and (term or trunc) and any(
                    abs(got_r - (r - float(ref.bonus[ns]) + float(ref.bonus[s0]))) <= tol for s0 in ref.starts):
                bad("reward-computed-against-the-state-after-the-reset", {"got": got_r, "want": r, "successor": ns, "starts": ref.starts})
            else:
                bad("stored-reward-mismatch", {"got": got_r, "want": r, "action": a})
        s2, t2 = _dec(buf["next_obs"][idx], nS)
        if (s2, t2) != (ns, t + 1):
            if (term or trunc) and t2 == 0 and s2 in ref.starts:
                bad("successor-observation-taken-after-reset", {"got": [s2, t2], "want": [ns, t + 1]})
            else:
                bad("stored-successor-observation-mismatch", {"got": [s2, t2], "want": [ns, t + 1], "action": a})
        if bool(buf["dones"][idx]) != (term or trunc):
            bad("done-flag-not-terminal-or-truncated", {"done": bool(buf["dones"][idx]), "term": term, "trunc": trunc})
            return
        if bool(buf["timeouts"][idx]) != (trunc and not term):
            bad("timeout-flag-not-truncation-without-termination",
                {"timeout": bool(buf["timeouts"][idx]), "term": term, "trunc": trunc})
        if term or trunc:
            n_done += 1
            k = "both" if (term and trunc) else ("terminal_only" if term else "truncation_only")
            kinds.add(k)
            ctx.monitor("episode_ends_" + k)
        if stateful and info.get("planned") and _PLAN.get("f") is not None:
            # the behaviour policy's choice is a known function of its stored step counter: "the action chosen"
            want_a = np.asarray(_PLAN["f"](int(buf["states"][idx])), np.float32)
            ctx.monitor("stored_actions_compared_with_the_policys_choice")
            got_a = np.asarray(a, np.float64).reshape(want_a.shape)
            # (compiled and eager evaluation of the plan may differ in the last bits: fused multiply-add)
            # float32 sine of an argument that grows with the step counter: its rounding error grows with n too
            if not np.all(np.abs(got_a - want_a) <= 2e-4 + 2e-6 * int(buf["states"][idx])):
                d = {"stored": a, "chosen": want_a, "stored_equals_clipped_choice": bool(np.array_equal(np.asarray(a, np.float32).reshape(want_a.shape), ref.clip(want_a)))}
                bad("stored-action-not-the-one-the-policy-chose", d)
        elif ref.kind == "box" and info.get("policy") == "WildSACPolicy":
            # continuous law: a stored action sitting exactly on a bound has (practically) been clipped before storing
            on_b = int(np.sum((np.asarray(a, np.float32) == np.float32(ref.low)) | (np.asarray(a, np.float32) == np.float32(ref.high))))
            if on_b:
                ctx.monitor("stored_action_components_exactly_on_a_bound", on_b)
        if stateful:
            pn = int(buf["states"][idx])
            if prev is not None and prev[2] and pn != 0:
                bad("policy-state-not-restarted-after-done", {"stored_state": pn})
            if j > 0 and not prev[2] and pn != int(buf["states"][order[j - 1]]) + 1:
                bad("stored-policy-state-not-the-acting-one", {"stored_state": pn, "prev": int(buf["states"][order[j - 1]])})
        prev = (ns, t + 1, term or trunc)
    # carried step state
    if prev is not None:
        fs = env_state
        cs, ct = int(fs["s"]), int(fs["t"])
        if prev[2]:
            if cs not in ref.starts or ct != 0 or (tl is not None and int(fs["cnt"]) != 0):
                ctx.violation("no-fresh-initial-state-after-done", {"final": [cs, ct], **info, "env": e})
        else:
            if (cs, ct) != (prev[0], prev[1]):
                ctx.violation("carried-state-not-last-successor", {"got": [cs, ct], "want": list(prev[:2]), **info, "env": e})
            if tl is not None and int(fs["cnt"]) != ct:
                ctx.violation("timelimit-counter-out-of-step", {"cnt": int(fs["cnt"]), "t": ct, **info, "env": e})
        if stateful and pol_state_n is not None:
            want = 0 if prev[2] else int(buf["states"][order[-1]]) + 1
            if int(pol_state_n) != want:
                ctx.violation("policy-state-not-restarted-after-done" if prev[2] else "carried-policy-state-wrong",
                              {"got": int(pol_state_n), "want": want, **info, "env": e})
    nontrivial = (n_done > 0 and (ref.kind != "box" or n_oob > 0 or info.get("policy") == "MLPSACPolicy")) or bool(info.get("clock"))
    ctx.case({**info, "env": e, "stored": n, "position": pos, "cap": cap, "dones": n_done, "kinds": sorted(kinds),
              "oob": n_oob, "h": digest(ref.P, ref.R, buf["actions"], buf["dones"])},
             nontrivial=nontrivial, cls=f"{tag}/{'wrapped' if pos > cap else 'unwrapped'}/{'+'.join(sorted(kinds)) or 'no-done'}")
    ctx.monitor("streams_judged")


def _np_buffers(step_state, tl, E):
    b = step_state.buffer
    stateful = getattr(b.states, "n", None) is not None
    out = []
    for e in range(E):
        pk = (lambda x: np.asarray(x)) if E == 1 else (lambda x, e=e: np.asarray(x)[e])
        es = step_state.env_state
        inner = es.env_state if tl is not None else es
        fs = {"s": pk(inner.s), "t": pk(inner.t)}
        if tl is not None:
            fs["cnt"] = pk(es.step_count)
        out.append((dict(position=pk(b.position), obs=pk(b.observations), next_obs=pk(b.next_observations),
                         actions=pk(b.actions), rewards=pk(b.rewards), dones=pk(b.dones), timeouts=pk(b.timeouts),
                         states=pk(b.states.n) if stateful else None), fs,
                    pk(step_state.policy_state.n) if stateful else None))
    return out


def _run(ctx, algo_name, policy_name, n, never_ends=False):
    import equinox as eqx
    from jax import random as jr
    from lerax.algorithm import DQN, SAC
    from lerax.policy import MLPQPolicy, MLPSACPolicy
    from vlib.stubs import CountingQPolicy, WildSACPolicy

    for i in range(n):
        kind = "discrete" if algo_name == "DQN" else "box"
        env, ref, tl = _build(ctx, i, kind, never_ends=never_ends)
        E = int(ctx.rng.integers(1, 5))
        S = int(ctx.rng.integers(1, 7))
        bsize = int(ctx.rng.choice([5, 8, 13, 16, 31, 64]))
        if bsize // E < 2:
            bsize = 2 * E + 1
        cap = bsize if E == 1 else bsize // E
        ls = int(ctx.rng.choice([1, 2, 4, cap, cap + 3, 2 * cap + 1]))
        batch = max(1, min(4, min(ls, cap)))
        # a batch size larger than what warm-up plus one iteration stores is a legal constructor argument;
        # what reset() stores does not depend on it (only reset() is judged then, no update is run)
        big_batch = (i % 5 == 4)
        if big_batch:
            batch = (ls + S) * E + int(ctx.rng.integers(1, 9))
        info = {"algo": algo_name, "policy": policy_name, "E": E, "S": S, "buffer_size": bsize, "cap": cap,
                "learning_starts": ls, "tl": tl, "i": i, "clock": never_ends}
        if algo_name == "DQN":
            algo = DQN(buffer_size=bsize, learning_starts=ls, num_envs=E, num_steps=S, batch_size=batch,
                       target_update_interval=3, gamma=0.9)
            pol = (MLPQPolicy(env, key=ctx.key(i), width_size=8, epsilon=0.5) if policy_name == "MLPQPolicy"
                   else CountingQPolicy(env, key=ctx.key(i)))
        else:
            algo = SAC(buffer_size=bsize, learning_starts=ls, num_envs=E, num_steps=S, batch_size=batch,
                       q_width_size=8, q_depth=1, gamma=0.9)
            pol = (MLPSACPolicy(env, key=ctx.key(i), feature_size=4, width_size=8) if policy_name == "MLPSACPolicy"
                   else WildSACPolicy(env, planned=(i % 2 == 1)))
            info["planned"] = bool(getattr(pol, "planned", False))
            _PLAN["f"] = pol.plan if info["planned"] else None
        cb = algo.consolidate_callbacks(None)
        st = eqx.filter_jit(lambda k: algo.reset(env, pol, key=k, callback=cb))(ctx.key(1000 + i))
        for e, (bufd, fs, pn) in enumerate(_np_buffers(st.step_state, tl, E)):
            if bufd["rewards"].shape[0] != cap:
                ctx.violation("per-env-capacity-wrong", {"got": bufd["rewards"].shape[0], "want": cap, **info})
                continue
            _judge(ctx, f"{algo_name}/{policy_name}/warmup", ref, tl, bufd, fs, pn, ls, cap, e, {**info, "phase": "reset"}, True)
        K = int(ctx.rng.integers(1, 4))
        if big_batch:
            ctx.monitor("warmups_judged_with_batch_larger_than_stored")
            continue
        use_iteration = policy_name in ("MLPQPolicy", "MLPSACPolicy", "CountingQPolicy")
        if use_iteration:
            it = eqx.filter_jit(lambda s, k: algo.iteration(s, key=k, callback=cb))
        else:
            coll = eqx.filter_jit(lambda ss, k: (
                algo.collect_rollout(env, pol, ss, cb, k) if E == 1 else
                eqx.filter_vmap(algo.collect_rollout, in_axes=(None, None, eqx.if_array(0), None, 0))(
                    env, pol, ss, cb, jr.split(k, E))))
        ss = st.step_state
        for k in range(1, K + 1):
            if use_iteration:
                st = it(st, ctx.key(2000 + 10 * i + k))
                ss = st.step_state
                ctx.monitor("real_iterations")
            else:
                ss = coll(ss, ctx.key(2000 + 10 * i + k))
            for e, (bufd, fs, pn) in enumerate(_np_buffers(ss, tl, E)):
                _judge(ctx, f"{algo_name}/{policy_name}/iter", ref, tl, bufd, fs, pn, ls + k * S, cap, e,
                       {**info, "phase": f"iter{k}"}, True)
                if never_ends:
                    ctx.monitor("clock_checks")
                    if int(fs["t"]) != ls + k * S:
                        ctx.violation("environment-steps-per-iteration-wrong",
                                      {"clock": int(fs["t"]), "want": ls + k * S, **info, "env": e})


def run_unit(name, ctx):
    if name == "dqn":
        _run(ctx, "DQN", "MLPQPolicy", ctx.n(8, 60))
    elif name == "dqn_stateful":
        _run(ctx, "DQN", "CountingQPolicy", ctx.n(8, 60))
    elif name == "sac":
        _run(ctx, "SAC", "MLPSACPolicy", ctx.n(6, 40))
    elif name == "sac_wild":
        _run(ctx, "SAC", "WildSACPolicy", ctx.n(8, 60))
        ctx.require("chosen_actions_outside_bounds", 10)
        ctx.require("stored_actions_compared_with_the_policys_choice", 20)
        if ctx.monitors.get("stored_action_components_exactly_on_a_bound", 0) >= 3:
            ctx.violation("stored-actions-sit-exactly-on-the-bounds-clipped-before-storing",
                          {"components_on_a_bound": ctx.monitors["stored_action_components_exactly_on_a_bound"],
                           "policy": "WildSACPolicy: scale * normal(key), a continuous law"})
    elif name == "clock":
        _run(ctx, "DQN", "MLPQPolicy", ctx.n(4, 20), never_ends=True)
        _run(ctx, "SAC", "WildSACPolicy", ctx.n(3, 12), never_ends=True)
        ctx.require("clock_checks", 4)
    ctx.require("streams_judged", 4)
    if name != "clock":
        ctx.require("episode_end_rewards_with_a_successor_dependent_term_checked", 5)
