"""C06 Replay buffer keeps the most recent transitions and samples only stored ones."""

from __future__ import annotations

import numpy as np

RULE = ("cases = one real ReplayBuffer (or a jax.vmap-built stack of per-environment buffers) after a history of "
        "real add() calls in which every field of insertion k carries the id k (obs=k, next_obs=k+0.5, action=k, "
        "reward=k, done/timeout = bits 0/1 of k, policy state=k, next policy state=k+0.25; integer / boolean "
        "leaves carry 4k+code; vectorised: global id = env*10^4 + k), judged after every prefix of the history "
        "against a ring model (ids present == last min(n,C) ids, all fields of a slot decode to one id), and "
        "every batch returned by the real sample() for batch sizes <= stored count (ids subset of stored ids, no "
        "id twice, never a row that decodes to no id = unwritten filler). Modes: eager, eager with Python "
        "scalars, jitted add, lax.scan under jit, vmap with per-env active predicate (lax.cond / jnp.where), "
        "sample eager / jit / jit+vmap over keys. Box / Dict / Tuple / MultiBinary / MultiDiscrete spaces, policy "
        "state None / flat / nested. non-trivial = the history wrapped (n > C) or the buffer is partially filled "
        "(0 < n < C) when sampled; vectorised: fill levels differ between envs and some env has unwritten "
        "slots. distinct by (unit, config, capacity, n, batch, mode, key index). DQN leg: real DQN eager "
        "(jax.disable_jit) with recording post-conditions on add/sample judged against the recorded history, and "
        "real vectorised DQN states sampled at the API boundary.")
FLOOR = {"quick": 300, "thorough": 3000}
ASSUMPTIONS = [
    "ids < 2^22 are exact in float32 together with the +0.5 / +0.25 tags, so decoding is exact (no tolerance)",
    "an unwritten slot holds the constructor's filler: Box(-2.25, 1e6).canonical() = 499998.875, 0 for integer, "
    "False for boolean leaves, 0 reward, the state example -7; none of these decodes to an id >= 1",
    "sample() with batch_size > stored count is outside the property and never exercised; batch_size 0 is "
    "exercised for shape only",
    "reachability (every stored id is returned for some key) is judged only where a uniform sampler would miss "
    "an id with probability < 1e-9 per case; it comes from the docstring 'uniformly sampled', not from the "
    "property text, and has its own keys (*-never-sampled)",
    "histories longer than 2^31 insertions are produced by real add() calls (jitted fori_loop, labels "
    "((k-1) mod 2^20)+1 so that they stay exact in float32); violations there carry the prefix "
    "past-2^31-insertions-",
    "`position` / `current_size` are ring internals not named by the property: their agreement with the insertion "
    "count is recorded in the notes (first_position_differs, first_current_size_differs), never as a violation",
    "DQN leg: a slot counts as written iff its observation differs from the filler 0.5 (one-hot observations "
    "never equal 0.5)",
]

ENV_STRIDE = 10 ** 4
OBS_LOW, OBS_HIGH = -2.25, 1.0e6  # canonical() = 499998.875: decodes to no id
C_OBS, C_NEXT_OBS, C_ACT, C_STATE, C_NEXT_STATE = 0, 2, 0, 0, 1
FIELDS = (("observations", C_OBS), ("next_observations", C_NEXT_OBS), ("actions", C_ACT),
          ("states", C_STATE), ("next_states", C_NEXT_STATE))


def units(tier):
    return [{"name": "ring", "timeout": 2400}, {"name": "sample", "timeout": 2400},
            {"name": "sample_large", "timeout": 2400}, {"name": "sample_sparse", "timeout": 2400},
            {"name": "vector", "timeout": 2400},
            {"name": "vector_where", "timeout": 2400}, {"name": "algo", "timeout": 2400},
            {"name": "longrun", "timeout": 2400}]


# ------------------------------------------------------------------------------------------ configs
def _configs():
    import jax
    import jax.numpy as jnp
    from lerax.policy import AbstractPolicyState
    from lerax.space import Box, Dict, Discrete, MultiBinary, MultiDiscrete, Tuple

    class FlatState(AbstractPolicyState):
        h: jax.Array
        c: jax.Array

    class NestedState(AbstractPolicyState):
        inner: FlatState
        pair: tuple

    big = 2 ** 30
    flat = FlatState(jnp.full((3,), -7.0, jnp.float32), jnp.array(-7, jnp.int32))
    nested = NestedState(FlatState(jnp.full((2, 2), -7.0, jnp.float32), jnp.array([-7, -7], jnp.int32)),
                         (jnp.array(-7.0, jnp.float32), jnp.full((2,), -7.0, jnp.float32)))
    box = lambda *shape: Box(OBS_LOW, OBS_HIGH, shape=tuple(shape))  # noqa: E731
    return [
        {"name": "box3-disc-none", "obs": box(3), "act": Discrete(big), "state": None},
        {"name": "box0-box2-flat", "obs": box(), "act": box(2), "state": flat},
        {"name": "dict-disc-flat",
         "obs": Dict({"a": box(2), "b": Tuple((Discrete(big), MultiBinary(24)))}), "act": Discrete(big),
         "state": flat},
        {"name": "tuple-mdisc-nested", "obs": Tuple((box(2, 2), Discrete(big), Dict({"z": box()}))),
         "act": MultiDiscrete((big, big)), "state": nested},
        {"name": "mbin-mbin-none", "obs": MultiBinary(26), "act": MultiBinary(25), "state": None},
    ]


def _specs(cfg):
    return cfg["obs"].canonical(), cfg["act"].canonical(), cfg["state"]


def _mkbuf(cfg, C):
    from lerax.buffer import ReplayBuffer

    return ReplayBuffer(C, cfg["obs"], cfg["act"], cfg["state"])


# ------------------------------------------------------------------------------------------ codec
def _enc(spec, gid, code):
    """pytree with the structure of `spec` whose every leaf carries the id (jax; gid may be traced)."""
    import jax
    import jax.numpy as jnp

    if spec is None:
        return None
    gid = jnp.asarray(gid, jnp.int32)

    def leaf(ex):
        ex = jnp.asarray(ex)
        if jnp.issubdtype(ex.dtype, jnp.floating):
            return jnp.full(ex.shape, gid.astype(jnp.float32) + code / 4.0, jnp.float32)
        v = gid * 4 + code
        if ex.dtype == jnp.bool_:
            assert 24 <= ex.size <= 30
            return (((v >> jnp.arange(ex.size, dtype=jnp.int32)) & 1) == 1).reshape(ex.shape)
        return jnp.full(ex.shape, v, ex.dtype)

    return jax.tree.map(leaf, spec)


def _add_id(cfg, buf, gid, pyscalars=False):
    """One real add() of the transition whose every field says `gid`."""
    import jax.numpy as jnp

    o, a, s = _specs(cfg)
    gid_j = jnp.asarray(gid, jnp.int32)
    if pyscalars:
        g = int(gid)
        reward, done, timeout = float(g), bool(g & 1), bool((g >> 1) & 1)
    else:
        reward, done, timeout = gid_j.astype(jnp.float32), (gid_j & 1) == 1, ((gid_j >> 1) & 1) == 1
    return buf.add(_enc(o, gid_j, C_OBS), _enc(o, gid_j, C_NEXT_OBS), _enc(a, gid_j, C_ACT), reward, done, timeout,
                   _enc(s, gid_j, C_STATE), _enc(s, gid_j, C_NEXT_STATE))


class _Shape(Exception):
    pass


class _LeraxRaised(Exception):
    """the code under test raised; only calls wrapped in _lerax() are attributed to it"""


def _lerax(fn, *a, **k):
    try:
        return fn(*a, **k)
    except Exception as e:
        raise _LeraxRaised(repr(e)[:400]) from e


def _dec_leaf(a, code, N):
    a = np.asarray(a)
    if a.shape[:1] != (N,):
        raise _Shape(f"leaf leading shape {a.shape} != ({N},...)")
    v = a.reshape(N, -1)
    if v.shape[1] == 0:
        return None
    if a.dtype.kind == "f":
        same = (v == v[:, :1]).all(1)
        x = v[:, 0].astype(np.float64) - code / 4.0
        fin = np.isfinite(x)
        xs = np.where(fin, x, -1.0)
        ok = same & fin & (xs == np.floor(xs)) & (xs >= 1) & (xs < 2 ** 31)
        return np.where(ok, xs, -1).astype(np.int64)
    if a.dtype.kind == "b":
        w = (v.astype(np.int64) << np.arange(v.shape[1], dtype=np.int64)).sum(1)
        same = np.ones(N, bool)
    else:
        w = v[:, 0].astype(np.int64)
        same = (v == v[:, :1]).all(1)
    ok = same & (w - code >= 4) & ((w - code) % 4 == 0)
    return np.where(ok, (w - code) // 4, -1).astype(np.int64)


def _decode(buf, N):
    """-> leaf names, ids[N, L] (id >= 1 or -1 = decodes to no id), row id (>0 consistent, 0 no leaf decodes,
    -1 fields disagree)."""
    import jax

    names, cols = [], []
    for fname, code in FIELDS:
        sub = getattr(buf, fname)
        if sub is None:
            continue
        for path, leaf in jax.tree_util.tree_leaves_with_path(sub):
            col = _dec_leaf(leaf, code, N)
            if col is not None:
                names.append(fname + jax.tree_util.keystr(path))
                cols.append(col)
    names.append("rewards")
    cols.append(_dec_leaf(buf.rewards, 0, N))
    ids = np.stack(cols, 1)
    d, t = np.asarray(buf.dones), np.asarray(buf.timeouts)
    if d.shape != (N,) or t.shape != (N,) or d.dtype != bool or t.dtype != bool:
        raise _Shape(f"dones/timeouts {d.shape} {d.dtype} {t.shape} {t.dtype}")
    first = ids[:, 0]
    same = (ids == first[:, None]).all(1)
    row = np.where(same & (first > 0), first, np.where(same, 0, -1))
    bits_ok = (d == ((row & 1) == 1)) & (t == (((row >> 1) & 1) == 1))
    row = np.where((row > 0) & ~bits_ok, -1, row)
    names += ["dones", "timeouts"]
    ids = np.concatenate([ids, d[:, None].astype(np.int64), t[:, None].astype(np.int64)], 1)
    return names, ids, row


def _np(tree):
    import jax

    return jax.tree.map(lambda x: np.asarray(x) if hasattr(x, "shape") else x, tree)


def _flat_rows(buf, lead):
    """merge the first `lead` axes of every array leaf that has them (NumPy, harness side)."""
    import jax

    def f(x):
        x = np.asarray(x)
        if x.ndim < lead:
            return x
        return x.reshape((-1,) + x.shape[lead:])

    return jax.tree.map(f, buf)


def _take0(buf, i):
    import jax

    return jax.tree.map(lambda x: x[i], buf)


# ------------------------------------------------------------------------------------------ oracles
def _judge_contents(ctx, pre, names, ids, row, C, stored, info):
    """ids/row of the C slots of one buffer; `stored` = ids the ring model says are present."""
    ctx.monitor("contents_oracle_evaluations")
    ok = True
    mixed = np.where(row < 0)[0]
    if len(mixed):
        j = int(mixed[0])
        ctx.violation(pre + "add-slot-fields-from-different-insertions",
                      dict(info, slot=j, fields=dict(zip(names, ids[j].tolist()))))
        ok = False
    present = row[row > 0]
    got = set(int(x) for x in present)
    if got != stored or len(present) != len(got) or int((row == 0).sum()) != C - len(stored):
        ctx.violation(pre + "add-contents-not-most-recent",
                      dict(info, got_ids_by_slot=row.tolist(), want_ids=sorted(stored),
                           missing=sorted(stored - got)[:16], extra=sorted(got - stored)[:16]))
        ok = False
    return ok


def _observe_position(ctx, buf, n, C, info):
    """`position` / `current_size` are internals of the ring (nothing outside replay.py reads them) and the
    property does not mention them, so a disagreement with the insertion count is recorded as an observation in
    the evidence notes, never as a violation (a correct ring may keep its counter reduced)."""
    try:
        pos, cur = int(np.asarray(buf.position)), int(np.asarray(buf.current_size))
    except Exception:
        ctx.monitor("position_not_observable")
        return
    ctx.monitor("position_observed")
    if pos != n:
        ctx.monitor("position_differs_from_insertion_count")
        ctx.notes.setdefault("first_position_differs", dict(info, got=pos, want=n))
    if cur != min(n, C):
        ctx.monitor("current_size_differs_from_min_n_capacity")
        ctx.notes.setdefault("first_current_size_differs", dict(info, got=cur, want=min(n, C)))


def _judge_batches(ctx, pre, batch, K, b, stored, info, present=None):
    """`batch`: buffer whose leaves are (K, b, ...) (K keys). Returns list of per-key id sets, or None.
    `present`: ids actually decoded from the buffer, given only when the contents were already reported wrong,
    so that the sampler is still judged (against what is there) without repeating the contents finding."""
    if present is not None:
        stored = present
    try:
        names, ids, row = _decode(_flat_rows(batch, 2), K * b)
    except _Shape as e:
        ctx.violation(pre + "sample-batch-shape", dict(info, error=str(e), batch=b, keys=K))
        return None
    row = row.reshape(K, b)
    ids = ids.reshape(K, b, -1)
    out = []
    for k in range(K):
        ctx.monitor("sample_oracle_evaluations")
        ctx.monitor("sampled_rows_checked", b)
        r = row[k]
        bad = False
        if (r < 0).any():
            j = int(np.where(r < 0)[0][0])
            ctx.violation(pre + "sample-row-fields-from-different-insertions",
                          dict(info, key_index=k, row=j, fields=dict(zip(names, ids[k, j].tolist()))))
            bad = True
        if (r == 0).any():
            j = int(np.where(r == 0)[0][0])
            ctx.violation(pre + "sample-returns-unwritten-slot",
                          dict(info, key_index=k, row=j, batch_ids=r.tolist(), stored=sorted(stored)[:64],
                               fields=dict(zip(names, ids[k, j].tolist()))))
            bad = True
        pos = [int(x) for x in r[r > 0]]
        if any(x not in stored for x in pos):
            ctx.violation(pre + "sample-returns-transition-not-stored",
                          dict(info, key_index=k, batch_ids=r.tolist(), stored=sorted(stored)[:64]))
            bad = True
        if len(set(pos)) != len(pos):
            ctx.violation(pre + "sample-same-transition-twice-in-batch",
                          dict(info, key_index=k, batch_ids=r.tolist()))
            bad = True
        if b == len(stored) and not bad:
            ctx.monitor("full_draw_batches_equal_stored_set")
        out.append(None if bad else set(pos))
    return out


def _judge_reach(ctx, pre, seen_sets, b, stored, info):
    """every stored id is reachable; judged only if a uniform sampler misses with p < 1e-9."""
    m, K = len(stored), len(seen_sets)
    if m == 0 or b <= 0:
        return
    if any(x is None for x in seen_sets):  # already reported under its own key; ids of such batches are unusable
        ctx.monitor("reachability_skipped_batches_already_refuted")
        return
    if b < m and m * (1.0 - b / m) ** K >= 1e-9:
        return
    ctx.monitor("reachability_judged")
    seen = set().union(*seen_sets) if seen_sets else set()
    miss = stored - seen
    if miss:
        ctx.violation(pre + "stored-transition-never-sampled",
                      dict(info, never_sampled=sorted(miss)[:32], keys=K, batch=b, stored=m,
                           p_uniform=m * (1.0 - b / m) ** K))


# ------------------------------------------------------------------------------------------ drivers
def _scan_fill(cfg, mode="cond"):
    """jitted fn(buf, ids[T], active[T]) -> (final buffer, buffers after every step stacked on axis 0)."""
    import equinox as eqx
    import jax
    from jax import lax

    def body(buf, x):
        gid, act = x
        if mode == "cond":
            nb = lax.cond(act, lambda: _add_id(cfg, buf, gid), lambda: buf)
        else:
            import jax.numpy as jnp

            added = _add_id(cfg, buf, gid)
            nb = jax.tree.map(lambda n, o: jnp.where(act, n, o), added, buf)
        return nb, nb

    def run(buf, ids, active):
        return lax.scan(body, buf, (ids, active))

    return eqx.filter_jit(run), run


def _prefix_check(ctx, cfg, C, T, stacked, mode, pre="", base=0, id0=1, check_pos=True):
    """stacked: buffers after 1..T adds (leaves (T, C, ...)); ids id0..id0+T-1."""
    flat = _flat_rows(_np(stacked), 2)
    info0 = {"config": cfg["name"], "capacity": C, "mode": mode}
    try:
        names, ids, row = _decode(flat, T * C)
    except _Shape as e:
        ctx.violation(pre + "buffer-leaf-shape", dict(info0, error=str(e)))
        return
    row, ids = row.reshape(T, C), ids.reshape(T, C, -1)
    pos = np.asarray(stacked.position) if check_pos else None
    for t in range(T):
        n = t + 1
        stored = set(range(id0 + max(0, n - C), id0 + n))
        info = dict(info0, n=n)
        ctx.case(info, nontrivial=n > C, cls=f"contents/{mode}/" + ("wrapped" if n > C else "filling"))
        _judge_contents(ctx, pre, names, ids[t], row[t], C, stored, info)
        if check_pos:
            ctx.monitor("position_observed")
            if int(pos[t]) != base + n:
                ctx.monitor("position_differs_from_insertion_count")
                ctx.notes.setdefault("first_position_differs", dict(info, got=int(pos[t]), want=base + n))


def _pick_capacity(rng, i, hi=64):
    grid = [1, 2, 3, 4, 5, 7, 8, 16, 31, 33, 64]
    c = grid[i % len(grid)] if i % 2 == 0 else int(rng.integers(1, hi + 1))
    return min(c, hi)


# ------------------------------------------------------------------------------------------ unit: ring
def u_ring(ctx):
    import equinox as eqx
    import jax.numpy as jnp

    cfgs = _configs()
    rng = ctx.rng
    # (a) lax.scan under jit, every prefix judged
    n_scan = ctx.n(20, 120)
    for i in range(n_scan):
        cfg = cfgs[i % len(cfgs)]
        C = _pick_capacity(rng, i)
        T = int(min(10 * C, ctx.n(160, 640)))
        if i % 5 == 4:
            T = int(rng.integers(1, C + 1))  # never wraps
        try:
            fill, _ = _scan_fill(cfg)
            _, stacked = _lerax(fill, _lerax(_mkbuf, cfg, C), jnp.arange(1, T + 1, dtype=jnp.int32), jnp.ones(T, bool))
        except _LeraxRaised as e:  # construction / add raising is itself a refutation
            ctx.violation("add-raises", {"config": cfg["name"], "capacity": C, "mode": "scan-jit", "error": str(e)})
            continue
        _prefix_check(ctx, cfg, C, T, stacked, "scan-jit")
        ctx.monitor("histories_scan_jit")
    # (b) python loop of jitted add, (c) eager add, (d) eager add with Python scalars
    n_loop = ctx.n(12, 60)
    for i in range(n_loop):
        cfg = cfgs[(i + 2) % len(cfgs)]
        mode = ["jit-add", "eager", "eager-pyscalars"][i % 3]
        C = int(rng.integers(1, 9)) if mode != "jit-add" else _pick_capacity(rng, i, 24)
        T = int(min(rng.integers(C + 1, 4 * C + 3), ctx.n(30, 60) if mode != "jit-add" else ctx.n(60, 160)))
        info0 = {"config": cfg["name"], "capacity": C, "mode": mode}
        try:
            buf = _lerax(_mkbuf, cfg, C)
            init = _np(buf)
            names, ids, row = _decode(init, C)
            ctx.case(dict(info0, n=0), nontrivial=False, cls=f"contents/{mode}/empty")
            _judge_contents(ctx, "", names, ids, row, C, set(), dict(info0, n=0))
            _observe_position(ctx, buf, 0, C, dict(info0, n=0))
            addj = eqx.filter_jit(lambda b, g, cfg=cfg: _add_id(cfg, b, g))
            for n in range(1, T + 1):
                if mode == "jit-add":
                    buf = _lerax(addj, buf, jnp.asarray(n, jnp.int32))
                else:
                    buf = _lerax(_add_id, cfg, buf, n, pyscalars=(mode == "eager-pyscalars"))
                info = dict(info0, n=n)
                names, ids, row = _decode(_np(buf), C)
                ctx.case(info, nontrivial=n > C, cls=f"contents/{mode}/" + ("wrapped" if n > C else "filling"))
                _judge_contents(ctx, "", names, ids, row, C, set(range(max(0, n - C) + 1, n + 1)), info)
                _observe_position(ctx, buf, n, C, info)
            ctx.monitor("histories_" + mode.replace("-", "_"))
        except _Shape as e:
            ctx.violation("buffer-leaf-shape", dict(info0, error=str(e)))
        except _LeraxRaised as e:
            ctx.violation("add-raises", dict(info0, error=str(e)))
    # (e) immutability: add() returns a new buffer, the old one still holds its contents
    for i in range(ctx.n(4, 20)):
        cfg = cfgs[i % len(cfgs)]
        C = int(rng.integers(1, 6))
        buf = _mkbuf(cfg, C)
        olds = []
        for n in range(1, 2 * C + 2):
            olds.append((n - 1, buf))
            buf = _add_id(cfg, buf, n)
        for n, old in olds:
            names, ids, row = _decode(_np(old), C)
            info = {"config": cfg["name"], "capacity": C, "mode": "eager-old-version", "n": n}
            ctx.case(info, nontrivial=n > C, cls="contents/old-version-untouched")
            _judge_contents(ctx, "old-version-", names, ids, row, C, set(range(max(0, n - C) + 1, n + 1)), info)
    ctx.require("contents_oracle_evaluations", 200)
    ctx.require("histories_scan_jit", 5)
    ctx.require("histories_eager", 1)
    ctx.require("histories_jit_add", 1)


# ------------------------------------------------------------------------------------------ unit: sample
def _sample_fns(b):
    import equinox as eqx
    import jax

    one = eqx.filter_jit(lambda buf, key: buf.sample(b, key=key))
    keys = eqx.filter_jit(lambda buf, keys: jax.vmap(lambda k: buf.sample(b, key=k))(keys))
    grid = eqx.filter_jit(lambda bufs, keys: jax.vmap(lambda bf: jax.vmap(lambda k: bf.sample(b, key=k))(keys))(bufs))
    return one, keys, grid


def _add_lead(batch):
    import jax

    return jax.tree.map(lambda x: np.asarray(x)[None] if hasattr(x, "shape") else x, batch)


def u_sample(ctx):
    """small capacities exhaustively: every n in 0..3C+2, every batch size <= stored, many keys."""
    import jax
    import jax.numpy as jnp
    from jax import random as jr

    cfgs = _configs()
    Cmax = ctx.n(5, 10)
    K = ctx.n(24, 64)
    kbase = 0
    for C in range(1, Cmax + 1):
        cfg = cfgs[C % len(cfgs)]
        T = 3 * C + 2
        info0 = {"config": cfg["name"], "capacity": C}
        try:
            fill, _ = _scan_fill(cfg)
            _, stacked = _lerax(fill, _lerax(_mkbuf, cfg, C), jnp.arange(1, T + 1, dtype=jnp.int32), jnp.ones(T, bool))
        except _LeraxRaised as e:
            ctx.violation("add-raises", dict(info0, error=str(e)))
            continue
        _prefix_check(ctx, cfg, C, T, stacked, "scan-jit")
        for b in range(1, C + 1):
            one, _, grid = _sample_fns(b)
            ns = [n for n in range(1, T + 1) if min(n, C) >= b]
            sub = jax.tree.map(lambda x: x[np.array(ns) - 1], stacked)
            keys = jr.split(ctx.key(kbase), K)
            kbase += 1
            try:
                out = _np(_lerax(grid, sub, keys))  # leaves (len(ns), K, b, ...)
            except _LeraxRaised as e:
                ctx.violation("sample-raises", dict(info0, batch=b, mode="jit+vmap", error=str(e)))
                continue
            for j, n in enumerate(ns):
                stored = set(range(max(0, n - C) + 1, n + 1))
                info = dict(info0, n=n, batch=b, mode="jit+vmap")
                cls = "partial" if n < C else ("full" if n == C else "wrapped")
                for k in range(K):
                    ctx.case(dict(info, key=k), nontrivial=n != C, cls=f"sample/jit+vmap/{cls}")
                seen = _judge_batches(ctx, "", _take0(out, j), K, b, stored, info)
                if seen is not None:
                    _judge_reach(ctx, "", seen, b, stored, info)
            # single-call modes on a subset of fill levels: jit, eager
            for n in sorted(set([b, C, min(T, C + 1), T]) & set(ns)):
                buf = _take0(stacked, n - 1)
                stored = set(range(max(0, n - C) + 1, n + 1))
                cls = "partial" if n < C else ("full" if n == C else "wrapped")
                for mode in ("jit", "eager"):
                    nk = 3 if mode == "jit" else 2
                    for k in range(nk):
                        key = ctx.key(10_000 + kbase * 8 + k)
                        info = dict(info0, n=n, batch=b, mode=mode)
                        try:
                            bt = _lerax(one, buf, key) if mode == "jit" else _lerax(buf.sample, b, key=key)
                        except _LeraxRaised as e:
                            ctx.violation("sample-raises", dict(info, error=str(e)))
                            continue
                        ctx.case(dict(info, key=k), nontrivial=n != C, cls=f"sample/{mode}/{cls}")
                        _judge_batches(ctx, "", _add_lead(_np(bt)), 1, b, stored, info)
        # empty batch: shape only
        for n in (1, C, T):
            buf = _take0(stacked, n - 1)
            info = dict(info0, n=n, batch=0, mode="eager")
            try:
                bt = _np(_lerax(buf.sample, 0, key=ctx.key(77)))
            except _LeraxRaised as e:
                ctx.violation("sample-empty-batch-raises", dict(info, error=str(e)))
                continue
            ctx.case(info, nontrivial=False, cls="sample/empty-batch")
            ctx.monitor("empty_batches_checked")
            shapes = [np.asarray(x).shape for x in jax.tree.leaves((bt.observations, bt.next_observations, bt.actions,
                                                                    bt.rewards, bt.dones, bt.timeouts, bt.states,
                                                                    bt.next_states))]
            if any(sh[:1] != (0,) for sh in shapes):
                ctx.violation("sample-batch-shape", dict(info, shapes=[list(x) for x in shapes]))
    ctx.notes["exhaustive_capacities_upto"] = Cmax
    ctx.notes["keys_per_cell"] = K
    ctx.require("sample_oracle_evaluations", 500)
    ctx.require("full_draw_batches_equal_stored_set", 50)
    ctx.require("reachability_judged", 10)


def u_sample_large(ctx):
    """random capacities up to 64, histories up to 10x capacity, random batch sizes incl. exactly all stored."""
    import jax.numpy as jnp
    from jax import random as jr

    cfgs = _configs()
    rng = ctx.rng
    N = ctx.n(10, 90)
    K = ctx.n(16, 48)
    for i in range(N):
        cfg = cfgs[i % len(cfgs)]
        C = int(rng.integers(9, 65)) if i % 3 else [16, 32, 64, 63][i // 3 % 4]
        kind = ["partial", "full", "wrapped", "wrapped-exact-multiple", "wrapped"][i % 5]
        n = {"partial": int(rng.integers(1, C)), "full": C, "wrapped": int(rng.integers(C + 1, 10 * C + 1)),
             "wrapped-exact-multiple": C * int(rng.integers(2, 8))}[kind]
        info0 = {"config": cfg["name"], "capacity": C, "n": n}
        T = n
        try:
            # history length as a run-time mask so one compiled scan serves every n of this (config, capacity)
            Tpad = 10 * C
            fill, _ = _scan_fill(cfg)
            buf, _ = _lerax(fill, _lerax(_mkbuf, cfg, C), jnp.arange(1, Tpad + 1, dtype=jnp.int32), jnp.arange(Tpad) < T)
        except _LeraxRaised as e:
            ctx.violation("add-raises", dict(info0, error=str(e)))
            continue
        stored = set(range(max(0, n - C) + 1, n + 1))
        m = len(stored)
        try:
            names, ids, row = _decode(_np(buf), C)
        except _Shape as e:
            ctx.violation("buffer-leaf-shape", dict(info0, error=str(e)))
            continue
        ctx.case(dict(info0, mode="scan-jit-masked"), nontrivial=n > C, cls="contents/scan-jit-masked/" + kind)
        _judge_contents(ctx, "", names, ids, row, C, stored, dict(info0, mode="scan-jit-masked"))
        _observe_position(ctx, buf, n, C, info0)
        bs = sorted(set([1, m, max(1, m - 1), int(rng.integers(1, m + 1)), max(1, m // 2)]))
        for b in bs[: ctx.n(3, 5)]:
            one, keysfn, _ = _sample_fns(b)
            info = dict(info0, batch=b, mode="jit+vmap")
            try:
                out = _np(_lerax(keysfn, buf, jr.split(ctx.key(i * 100 + b), K)))
            except _LeraxRaised as e:
                ctx.violation("sample-raises", dict(info, error=str(e)))
                continue
            for k in range(K):
                ctx.case(dict(info, key=k), nontrivial=n != C, cls=f"sample/jit+vmap/{kind}")
            seen = _judge_batches(ctx, "", out, K, b, stored, info)
            if seen is not None:
                _judge_reach(ctx, "", seen, b, stored, info)
        # the full draw, always: the batch must be exactly the stored set
        for mode in ("jit", "eager"):
            info = dict(info0, batch=m, mode=mode)
            key = ctx.key(50_000 + i)
            try:
                bt = _lerax(_sample_fns(m)[0], buf, key) if mode == "jit" else _lerax(buf.sample, m, key=key)
            except _LeraxRaised as e:
                ctx.violation("sample-raises", dict(info, error=str(e)))
                continue
            ctx.case(info, nontrivial=n != C, cls=f"sample/{mode}/{kind}")
            _judge_batches(ctx, "", _add_lead(_np(bt)), 1, m, stored, info)
    ctx.require("sample_oracle_evaluations", 100)
    ctx.require("full_draw_batches_equal_stored_set", 10)


# ------------------------------------------------------------------------------------------ unit: vector
def _levels(rng, E, c, i):
    """per-env insertion counts; classes 0 / partial / exactly full / wrapped exact multiple / wrapped+rest."""
    def draw(kind):
        if kind == "empty":
            return 0
        if kind == "partial":
            return int(rng.integers(1, c)) if c > 1 else 0
        if kind == "full":
            return c
        if kind == "multiple":
            return c * int(rng.integers(2, 6))
        return int(rng.integers(c + 1, 8 * c + 2))

    kinds = ["empty", "partial", "full", "multiple", "wrapped"]
    if i % 6 == 5:  # lock-step, as the real algorithms fill them
        k = kinds[1 + (i // 6) % 4]
        n = draw(k)
        return [n] * E, [k] * E
    ks = [kinds[int(x)] for x in rng.integers(0, 5, size=E)]
    ks[int(rng.integers(0, E))] = "partial" if c > 1 else "empty"
    if i % 2 == 0:
        ks[-1] = "wrapped"  # last env full while an earlier one has unwritten slots (and vice versa below)
    if i % 4 == 1:
        ks[0] = "wrapped"
        ks[-1] = "empty"
    ns = [draw(k) for k in ks]
    if sum(min(n, c) for n in ns) == 0:
        ns[0], ks[0] = c, "full"
    return ns, ks


def _vector(ctx, how, N, k0=0):
    import equinox as eqx
    import jax
    import jax.numpy as jnp
    from jax import random as jr

    cfgs = _configs()
    rng = ctx.rng
    K = ctx.n(16, 40)
    pre = "vec-"
    for i in range(k0, k0 + N):
        cfg = cfgs[i % len(cfgs)]
        E = int(rng.integers(2, 7)) if i % 7 else 1
        c = [1, 2, 3, 5, 8, 13][i % 6] if i % 2 else int(rng.integers(1, 17))
        ns, ks = _levels(rng, E, c, i)
        T = max(max(ns), 1)
        info0 = {"config": cfg["name"], "envs": E, "capacity_per_env": c, "levels": ns, "how": how}
        gids = np.arange(E)[:, None] * ENV_STRIDE + np.arange(1, T + 1)[None, :]
        active = np.arange(T)[None, :] < np.asarray(ns)[:, None]
        try:
            # built as off_policy.reset() builds them: vmap of the constructor over envs
            bufs = _lerax(jax.vmap(lambda _: _mkbuf(cfg, c)), jnp.arange(E))
            if how in ("cond", "where"):
                _, raw = _scan_fill(cfg, how)
                vb, _ = _lerax(eqx.filter_jit(jax.vmap(raw)), bufs, jnp.asarray(gids, jnp.int32), jnp.asarray(active))
            else:  # python loop of vmapped add with a select on the whole buffer pytree
                vadd = eqx.filter_jit(jax.vmap(lambda b, g, a: jax.tree.map(
                    lambda n_, o_: jnp.where(a, n_, o_), _add_id(cfg, b, g), b)))
                vb = bufs
                for t in range(T):
                    vb = _lerax(vadd, vb, jnp.asarray(gids[:, t], jnp.int32), jnp.asarray(active[:, t]))
        except _LeraxRaised as e:
            ctx.violation(pre + "add-raises", dict(info0, error=str(e)))
            continue
        vnp = _np(vb)
        stored_e = [set(int(e * ENV_STRIDE + k) for k in range(max(0, n - c) + 1, n + 1)) for e, n in enumerate(ns)]
        stored = set().union(*stored_e)
        m = len(stored)
        differ = len(set(ns)) > 1
        unwritten = any(n < c for n in ns)
        nontrivial = differ and unwritten
        cls = "lockstep" if not differ else ("mixed-levels" if unwritten else "mixed-all-full")
        # per-env contents
        try:
            if tuple(np.asarray(vnp.rewards).shape) != (E, c):
                raise _Shape(f"rewards shape {np.asarray(vnp.rewards).shape} != {(E, c)}")
            for e in range(E):
                one = _take0(vnp, e)
                names, ids, row = _decode(one, c)
                info = dict(info0, env=e, n=ns[e])
                ctx.case(info, nontrivial=ns[e] > c, cls=f"vec-contents/{how}/{ks[e]}")
                _judge_contents(ctx, pre, names, ids, row, c, stored_e[e], info)
                _observe_position(ctx, one, ns[e], c, info)
        except _Shape as e:
            ctx.violation(pre + "buffer-leaf-shape", dict(info0, error=str(e)))
            continue
        # joint sampling through the real sample() on the stacked buffer, as DQN/SAC call it
        bs = sorted(set([m, 1, max(1, m - 1), int(rng.integers(1, m + 1))]), reverse=True)
        for b in bs[: ctx.n(3, 4)]:
            info = dict(info0, batch=b, stored=m)
            fn = eqx.filter_jit(lambda v, keys, b=b: jax.vmap(lambda k: v.sample(b, key=k))(keys))
            try:
                out = _np(_lerax(fn, vb, jr.split(ctx.key(i * 100 + b), K)))
            except _LeraxRaised as e:
                ctx.violation(pre + "sample-raises", dict(info, mode="jit+vmap-keys", error=str(e)))
                continue
            for k in range(K):
                ctx.case(dict(info, mode="jit+vmap-keys", key=k), nontrivial=nontrivial, cls=f"vec-sample/jit+vmap-keys/{cls}")
            if nontrivial:
                ctx.monitor("vec_batches_from_mixed_levels", K)
            seen = _judge_batches(ctx, pre, out, K, b, stored, dict(info, mode="jit+vmap-keys"))
            if seen is not None:
                _judge_reach(ctx, pre, seen, b, stored, info)
        for mode in ("eager", "jit"):
            for b in (m, max(1, m // 2)):
                info = dict(info0, batch=b, stored=m, mode=mode)
                key = ctx.key(70_000 + i * 10 + b)
                try:
                    if mode == "eager":
                        bt = _lerax(vb.sample, b, key=key)
                    else:
                        bt = _lerax(eqx.filter_jit(lambda v, k, b=b: v.sample(b, key=k)), vb, key)
                except _LeraxRaised as e:
                    ctx.violation(pre + "sample-raises", dict(info, error=str(e)))
                    continue
                ctx.case(info, nontrivial=nontrivial, cls=f"vec-sample/{mode}/{cls}")
                if nontrivial:
                    ctx.monitor("vec_batches_from_mixed_levels")
                _judge_batches(ctx, pre, _add_lead(_np(bt)), 1, b, stored, info)
    ctx.require("contents_oracle_evaluations", 8)
    ctx.require("vec_batches_from_mixed_levels", 50)
    ctx.require("full_draw_batches_equal_stored_set", 10)


def u_vector(ctx):
    _vector(ctx, "cond", ctx.n(9, 80))


def u_vector_where(ctx):
    _vector(ctx, "where", ctx.n(6, 50))
    _vector(ctx, "loop", ctx.n(3, 20), k0=500)


# ------------------------------------------------------------------------------------------ unit: algo
def _row_keys(buf, N):
    """bytes of every field of each of the N rows (harness side; exact)."""
    import jax

    leaves = []
    for f in ("observations", "next_observations", "actions"):
        leaves += [np.asarray(x) for x in jax.tree.leaves(getattr(buf, f))]
    leaves += [np.asarray(buf.rewards), np.asarray(buf.dones), np.asarray(buf.timeouts)]
    return [b"|".join(np.ascontiguousarray(x[j]).tobytes() for x in leaves) for j in range(N)]


def _written(buf, filler):
    import jax

    o = np.asarray(jax.tree.leaves(buf.observations)[0])
    return ~np.all(o.reshape(o.shape[0], -1) == filler, axis=1)


def u_algo(ctx):
    import collections

    import icontract
    import jax
    from lerax.algorithm import DQN
    from lerax.buffer import ReplayBuffer
    from lerax.policy import MLPQPolicy
    from lerax.wrapper import TimeLimit
    from vlib.common import PostBroken
    from vlib.mdp import FiniteMDP, random_tables

    rng = ctx.rng

    def mkenv():
        nS, nA = int(rng.integers(3, 7)), int(rng.integers(2, 4))
        tabs = random_tables(rng, nS, nA, p_term=0.3)
        env = FiniteMDP(tabs["P"], tabs["R"], tabs["term"], tabs["starts"], trunc=tabs["trunc"])
        return TimeLimit(env, int(rng.integers(2, 6)))

    # ---- (a) eager DQN, recording post-conditions on the real add / sample
    events = []
    orig_add, orig_sample = ReplayBuffer.add, ReplayBuffer.sample

    def add_post(self, observation, next_observation, action, reward, done, timeout, result):
        try:
            np.asarray(self.rewards), np.asarray(result.rewards)
        except Exception:
            events.append(("tracer",))
            return True
        events.append(("add", _np(self), (np.asarray(observation), np.asarray(next_observation), np.asarray(action),
                                          np.asarray(reward), np.asarray(done), np.asarray(timeout)), _np(result)))
        return True

    def sample_post(self, batch_size, result):
        try:
            np.asarray(self.rewards), np.asarray(result.rewards)
        except Exception:
            events.append(("tracer",))
            return True
        events.append(("sample", _np(self), int(batch_size), _np(result)))
        return True

    runs = ctx.n(2, 8)
    for i in range(runs):
        env = mkenv()
        steps = int(rng.integers(2, 5))
        if i % 2 == 0:  # first training batches drawn from a partially filled buffer, wraps later
            ls = int(rng.integers(2, 4))
            C = ls + 2 * steps + 1
        else:
            C = int(rng.integers(4, 9))
            ls = int(rng.integers(2, C))
        bsz = int(rng.integers(1, ls + 1))
        iters = ctx.n(3, 4)
        algo = DQN(buffer_size=C, learning_starts=ls, num_envs=1, num_steps=steps, batch_size=bsz,
                   target_update_interval=2)
        pol = MLPQPolicy(env, key=ctx.key(100 + i), width_size=8, depth=1, epsilon=0.5)
        info0 = {"run": i, "capacity": C, "learning_starts": ls, "batch": bsz, "num_steps": steps}
        events.clear()
        ReplayBuffer.add = icontract.ensure(add_post, error=PostBroken)(orig_add)
        ReplayBuffer.sample = icontract.ensure(sample_post, error=PostBroken)(orig_sample)
        try:
            with jax.disable_jit():
                cb = algo.consolidate_callbacks(None)
                st = algo.reset(env, pol, key=ctx.key(200 + i), callback=cb)
                for it in range(iters):
                    st = algo.iteration(st, key=ctx.key(300 + 10 * i + it), callback=cb)
        except Exception as e:
            ctx.inconc(f"eager DQN run crashed outside the buffer oracle: {e!r}"[:300])
            continue
        finally:
            ReplayBuffer.add, ReplayBuffer.sample = orig_add, orig_sample
        filler = 0.5
        hist, prev = [], None
        for ev in events:
            if ev[0] == "tracer":
                ctx.monitor("dqn_contract_tracer_calls")
                continue
            if ev[0] == "add":
                _, before, args, after = ev
                ctx.monitor("dqn_add_contract_concrete")
                n0 = len(hist)
                dt = np.asarray(before.actions).dtype
                rec = b"|".join(np.ascontiguousarray(x).tobytes() for x in (
                    args[0].astype(np.float32), args[1].astype(np.float32), args[2].astype(dt),
                    args[3].astype(np.float32), args[4].astype(bool), args[5].astype(bool)))
                hist.append(rec)
                n = n0 + 1
                info = dict(info0, n=n)
                ctx.case(info, nontrivial=n > C, cls="dqn-eager/add/" + ("wrapped" if n > C else "filling"))
                if prev is not None and collections.Counter(_row_keys(before, C)) != collections.Counter(_row_keys(prev, C)):
                    ctx.inconc("eager DQN: add() was not called on the buffer returned by the previous add()")
                prev = after
                w = _written(after, filler)
                got = collections.Counter(k for k, ww in zip(_row_keys(after, C), w) if ww)
                want = collections.Counter(hist[-min(n, C):])
                if got != want:
                    ctx.violation("dqn-eager-add-contents-not-most-recent",
                                  dict(info, written_slots=int(w.sum()), want=min(n, C),
                                       missing=sum((want - got).values()), extra=sum((got - want).values())))
            else:
                _, before, b, res = ev
                ctx.monitor("dqn_sample_contract_concrete")
                n = len(hist)
                info = dict(info0, n=n, batch=b)
                ctx.case(info, nontrivial=n != C, cls="dqn-eager/sample/" + ("partial" if n < C else "full-or-wrapped"))
                if b > min(n, C):
                    ctx.inconc("eager DQN sampled more than stored (outside the property)")
                    continue
                if np.asarray(res.rewards).shape != (b,):
                    ctx.violation("dqn-eager-sample-batch-shape", dict(info, got=np.asarray(res.rewards).shape))
                    continue
                w = _written(before, filler)
                have = collections.Counter(k for k, ww in zip(_row_keys(before, C), w) if ww)
                got = collections.Counter(_row_keys(res, b))
                if not _written(res, filler).all():
                    ctx.violation("dqn-eager-sample-returns-unwritten-slot", info)
                elif got - have:
                    ctx.violation("dqn-eager-sample-row-not-stored-or-twice",
                                  dict(info, surplus=sum((got - have).values())))
    ctx.require("dqn_add_contract_concrete", 10)
    ctx.require("dqn_sample_contract_concrete", 2)

    # ---- (b) vectorised real DQN state, sampled at the API boundary exactly as dqn_train does
    runs = ctx.n(3, 12)
    for i in range(runs):
        env = mkenv()
        E = int(rng.integers(2, 5))
        c = int(rng.integers(4, 10))
        ls = int(rng.integers(1, c))
        steps = int(rng.integers(1, 4))
        algo = DQN(buffer_size=E * c + int(rng.integers(0, E)), learning_starts=ls, num_envs=E, num_steps=steps,
                   batch_size=min(2, ls * E))
        pol = MLPQPolicy(env, key=ctx.key(500 + i), width_size=8, depth=1, epsilon=0.5)
        info0 = {"run": i, "envs": E, "capacity_per_env": c, "learning_starts": ls, "num_steps": steps}
        try:
            cb = algo.consolidate_callbacks(None)
            st = algo.reset(env, pol, key=ctx.key(600 + i), callback=cb)
            states = [(ls, st)]
            for it in range(ctx.n(2, 4)):
                st = algo.iteration(st, key=ctx.key(700 + 10 * i + it), callback=cb)
                states.append((ls + (it + 1) * steps, st))
        except Exception as e:
            ctx.inconc(f"vectorised DQN run crashed outside the buffer oracle: {e!r}"[:300])
            continue
        for n, s in states:
            vb = s.step_state.buffer
            vnp = _np(vb)
            if np.asarray(vnp.rewards).shape != (E, c):
                ctx.violation("dqn-vec-buffer-shape", dict(info0, got=np.asarray(vnp.rewards).shape, want=(E, c)))
                continue
            flat = _flat_rows(vnp, 2)
            w = _written(flat, 0.5)
            per_env = w.reshape(E, c).sum(1)
            info = dict(info0, n_per_env=n)
            ctx.monitor("dqn_vec_states_checked")
            if not np.all(per_env == min(n, c)):
                ctx.violation("dqn-vec-written-count-not-min-n-capacity", dict(info, got=per_env, want=min(n, c)))
            have = collections.Counter(k for k, ww in zip(_row_keys(flat, E * c), w) if ww)
            m = int(w.sum())
            for b in sorted(set([1, m, max(1, m // 2)])):
                for k in range(ctx.n(4, 10)):
                    try:
                        bt = _np(vb.sample(b, key=ctx.key(900 + 1000 * i + 10 * b + k)))
                    except Exception as e:
                        ctx.violation("vec-sample-raises", dict(info, batch=b, error=repr(e)[:300]))
                        break
                    ctx.case(dict(info, batch=b, key=k), nontrivial=n < c, cls="dqn-vec/sample/" + ("partial" if n < c else "full"))
                    ctx.monitor("dqn_vec_batches_checked")
                    if np.asarray(bt.rewards).shape != (b,):
                        ctx.violation("dqn-vec-sample-batch-shape", dict(info, batch=b, got=np.asarray(bt.rewards).shape))
                        continue
                    got = collections.Counter(_row_keys(bt, b))
                    if not _written(bt, 0.5).all():
                        ctx.violation("dqn-vec-sample-returns-unwritten-slot", dict(info, batch=b, key=k))
                    elif got - have:
                        ctx.violation("dqn-vec-sample-row-not-stored-or-twice", dict(info, batch=b, key=k))
    ctx.require("dqn_vec_batches_checked", 20)


# ------------------------------------------------------------------------------------------ unit: longrun
LABELS = 2 ** 20  # long histories label insertion k with ((k-1) mod 2^20) + 1, exact in float32 with the tags


def _label(k):
    return (k - 1) % LABELS + 1


def u_longrun(ctx):
    """genuinely long histories by real add() calls in a jitted fori_loop (about 10-30 ns per add):
    (a) wrap 10^5..10^7 times; (b) insertion count crossing 2^31."""
    import equinox as eqx
    import jax.numpy as jnp
    from jax import lax
    from jax import random as jr

    cfgs = _configs()
    rng = ctx.rng

    def mkrun(cfg):
        @eqx.filter_jit
        def run(buf, l0, count):
            return lax.fori_loop(0, count, lambda j, b: _add_id(cfg, b, (l0 + j) % LABELS + 1), buf)

        return run

    def checkpoint(pre, cfg, C, buf, n, info0, cls, reach=False):
        stored = set(_label(k) for k in range(max(1, n - C + 1), n + 1))
        info = dict(info0, insertions=n, want_labels=sorted(stored))
        names, ids, row = _decode(_np(buf), C)
        ctx.case(dict(info0, insertions=n), nontrivial=True, cls=f"contents/{cls}")
        ok = _judge_contents(ctx, pre, names, ids, row, C, stored, info)
        _observe_position(ctx, buf, n, C, dict(info0, insertions=n))
        present = None if ok else set(int(x) for x in row[row > 0])
        m = len(stored) if ok else len(present)
        for b in sorted(set([m, 1, max(1, m // 2)])):
            if b < 1:
                continue
            bi = dict(info0, insertions=n, batch=b)
            try:
                bt = _np(_lerax(buf.sample, b, key=ctx.key(n % 100_003 * 10 + b)))
            except _LeraxRaised as e:
                ctx.violation(pre + "sample-raises", dict(bi, error=str(e)))
                continue
            ctx.case(bi, nontrivial=True, cls=f"sample/eager/{cls}")
            _judge_batches(ctx, pre, _add_lead(bt), 1, b, stored, bi, present=present)
        if reach and m >= 2:
            b, K = max(1, m // 2), 64
            bi = dict(info0, insertions=n, batch=b, mode="jit+vmap")
            try:
                out = _np(_lerax(_sample_fns(b)[1], buf, jr.split(ctx.key(n % 100_003 + 5), K)))
            except _LeraxRaised as e:
                ctx.violation(pre + "sample-raises", dict(bi, error=str(e)))
                return ok
            for k in range(K):
                ctx.case(dict(bi, key=k), nontrivial=True, cls=f"sample/jit+vmap/{cls}")
            seen = _judge_batches(ctx, pre, out, K, b, stored, bi, present=present)
            if seen is not None:
                _judge_reach(ctx, pre, seen, b, stored if ok else present, bi)
        return ok

    # (a) wrap very many times, judged at chunk boundaries
    total = ctx.n(20_000_000, 300_000_000)
    for i, C in enumerate([3, 64, 7, 33, 10][: ctx.n(2, 5)]):
        cfg = cfgs[i % len(cfgs)]
        info0 = {"config": cfg["name"], "capacity": C, "mode": "fori-jit"}
        run, n, chunks = mkrun(cfg), 0, 6
        try:
            buf = _lerax(_mkbuf, cfg, C)
            for ch in range(chunks):
                cnt = int(rng.integers(total // (2 * chunks), total // chunks))
                buf = _lerax(run, buf, jnp.asarray((n + 1 - 1) % LABELS, jnp.int32), jnp.asarray(cnt, jnp.int32))
                n += cnt
                ctx.monitor("long_history_checkpoints")
                checkpoint("", cfg, C, buf, n, info0, "fori-jit/wrapped-many-times")
        except _Shape as e:
            ctx.violation("buffer-leaf-shape", dict(info0, error=str(e)))
        except _LeraxRaised as e:
            ctx.violation("add-raises", dict(info0, insertions=n, error=str(e)))
        ctx.notes[f"long_history_C{C}"] = n
    ctx.require("long_history_checkpoints", 6)

    # (b) histories longer than 2^31 insertions: all by real add() calls
    pre = "past-2^31-insertions-"
    LIM = 2 ** 31
    plan = [(0, 3), (1, 5), (4, 7), (3, 4), (2, 6)][: ctx.n(1, 5)]
    for ci, C in plan:
        cfg = cfgs[ci]
        info0 = {"config": cfg["name"], "capacity": C, "mode": "fori-jit then jit-add"}
        run = mkrun(cfg)
        addj = eqx.filter_jit(lambda b, g, cfg=cfg: _add_id(cfg, b, g))
        n = 0
        try:
            buf = _lerax(_mkbuf, cfg, C)
            target = LIM - 2 - int(rng.integers(0, 3))
            while n < target:
                cnt = min(2 ** 29 + int(rng.integers(0, 1000)), target - n)
                buf = _lerax(run, buf, jnp.asarray(n % LABELS, jnp.int32), jnp.asarray(cnt, jnp.int32))
                n += cnt
                ctx.monitor("near_2^31_checkpoints_before")
                checkpoint("", cfg, C, buf, n, info0, "fori-jit/approaching-2^31")
            # one add at a time across the boundary
            for _ in range(3 * C + 6):
                n += 1
                buf = _lerax(addj, buf, jnp.asarray(_label(n), jnp.int32))
                if n >= LIM:
                    ctx.monitor("cases_past_2^31_insertions")
                checkpoint(pre if n >= LIM else "", cfg, C, buf, n, info0,
                           "jit-add/past-2^31" if n >= LIM else "jit-add/approaching-2^31", reach=True)
            # and a further compiled stretch
            cnt = int(rng.integers(1000, 5000))
            buf = _lerax(run, buf, jnp.asarray(n % LABELS, jnp.int32), jnp.asarray(cnt, jnp.int32))
            n += cnt
            ctx.monitor("cases_past_2^31_insertions")
            checkpoint(pre, cfg, C, buf, n, info0, "fori-jit/past-2^31", reach=True)
        except _Shape as e:
            ctx.violation(pre + "buffer-leaf-shape", dict(info0, error=str(e)))
        except _LeraxRaised as e:
            ctx.violation((pre if n >= LIM else "") + "add-raises", dict(info0, insertions=n, error=str(e)))
        ctx.notes[f"history_past_2^31_{cfg['name']}_C{C}"] = n
        ctx.notes["position_dtype"] = str(buf.position.dtype)
    ctx.require("cases_past_2^31_insertions", 8)


def u_sample_sparse(ctx):
    """Large, barely filled buffers (capacity 2^17 .. 2^20, 1..48 transitions stored by the real add()), as right
    after a short warm-up with the default buffer_size: batches up to exactly all stored, many keys. Every sampled
    row must be a stored transition (never one of the ~10^5..10^6 unwritten slots) and occur once."""
    import equinox as eqx
    import jax
    import jax.numpy as jnp
    from jax import lax
    from jax import random as jr

    cfgs = _configs()
    rng = ctx.rng
    K = ctx.n(24, 64)
    caps = [2**17, 100_000] if ctx.quick else [2**17, 100_000, 2**20, 1_000_000, 2**18 + 1]
    Tpad = 48
    for i in range(ctx.n(4, 15)):
        cfg = cfgs[(i * 5 + 1) % len(cfgs)]
        C = caps[i % len(caps)]
        n = [32, int(rng.integers(1, Tpad + 1)), 1, Tpad, int(rng.integers(2, 12))][i % 5]
        info0 = {"config": cfg["name"], "capacity": C, "n": n, "fill": round(n / C, 8)}

        def fill(buf, ids, active):
            def body(b, x):
                gid, act = x
                return lax.cond(act, lambda: _add_id(cfg, b, gid), lambda: b), None
            return lax.scan(body, buf, (ids, active))[0]

        try:
            buf = _lerax(eqx.filter_jit(fill), _lerax(_mkbuf, cfg, C), jnp.arange(1, Tpad + 1, dtype=jnp.int32),
                         jnp.arange(Tpad) < n)
        except _LeraxRaised as e:
            ctx.violation("add-raises", dict(info0, error=str(e)))
            continue
        stored = set(range(1, n + 1))
        for b in sorted({n, max(1, n - 1), max(1, n // 2), 1}):
            info = dict(info0, batch=b, mode="jit+vmap")
            try:
                out = _np(_lerax(_sample_fns(b)[1], buf, jr.split(ctx.key(i * 100 + b), K)))
            except _LeraxRaised as e:
                ctx.violation("sample-raises", dict(info, error=str(e)))
                continue
            for k in range(K):
                ctx.case(dict(info, key=k), nontrivial=True, cls=f"sample-sparse/cap{C}/{'all-stored' if b == n else 'part'}")
            ctx.monitor("sparse_buffer_batches_checked", K)
            ctx.monitor("unwritten_slots_a_sampler_could_have_hit", (C - n))
            seen = _judge_batches(ctx, "", out, K, b, stored, info)
            if seen is not None:
                _judge_reach(ctx, "", seen, b, stored, info)
        del buf
        jax.clear_caches()
    ctx.require("sparse_buffer_batches_checked", 100)


def run_unit(name, ctx):
    if name == "sample_sparse":
        return u_sample_sparse(ctx)
    {"ring": u_ring, "sample": u_sample, "sample_large": u_sample_large, "vector": u_vector,
     "vector_where": u_vector_where, "algo": u_algo, "longrun": u_longrun}[name](ctx)
