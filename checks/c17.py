"""C17 Built-in environments realise their Gymnasium reference MDPs.

Classic control is decided here; unit names starting with "mj-" are delegated to
checks/c17_mujoco.py (three monitors per MuJoCo environment)."""

from __future__ import annotations

import numpy as np

RULE = ("classic control: cases = one (state, action) over the whole state box incl. goal region and limits, pushed "
        "through lerax dynamics/clip/reward/terminal and through Gymnasium 1.3.0's own step/_dsdt driven to the same "
        "state (Gymnasium is the oracle); initial-state support over many keys/seeds; CartPole+Euler trajectories step "
        "for step. MuJoCo: cases = one (reset or rollout state, in-range action) judged by model identity, by "
        "Gymnasium's own step() computing obs/reward/terminated/info from lerax's simulation data, and by the real C "
        "engine on contact-free steps. non-trivial = state in the goal/limit region or successor terminal (classic), "
        "any judged step (MuJoCo); distinct by hash of (env, state, action)")
FLOOR = {"quick": 200, "thorough": 2000}
ASSUMPTIONS = ["Gymnasium 1.3.0 / MuJoCo 3.13 C engine are the reference MDPs",
               "classic vector fields are recovered from one Gymnasium update away from clipping (float64)",
               "ContinuousMountainCar actions are taken inside the action space (Gymnasium penalises the raw action)"]

CLASSIC = ["cartpole", "mountaincar", "continuous_mountaincar", "acrobot", "cartpole_euler_trajectories", "initial_support",
           "physical_constants"]


def units(tier):
    us = [{"name": n, "timeout": 1800} for n in CLASSIC]
    try:
        from checks.c17_mujoco import mujoco_units

        us += mujoco_units(tier)
    except ImportError:
        pass
    return us


def _close(a, b, rtol=1e-5, atol=1e-6):
    return bool(np.all(np.abs(np.asarray(a, np.float64) - np.asarray(b, np.float64)) <= atol + rtol * np.abs(np.asarray(b, np.float64))))


def _jit_env(env):
    import equinox as eqx
    import jax
    from jax import random as jr

    k = jr.key(0)
    dyn = eqx.filter_jit(jax.vmap(lambda y, a: env.dynamics(0.0, y, a)))
    clip = eqx.filter_jit(jax.vmap(env.clip))

    def rt(y0, a, y1):
        s0 = type_state(env)(y=y0, t=0.0)
        s1 = type_state(env)(y=y1, t=0.0)
        return env.reward(s0, a, s1, key=k), env.terminal(s1, key=k)

    return dyn, clip, eqx.filter_jit(jax.vmap(rt))


def type_state(env):
    import jax.numpy as jnp
    from jax import random as jr

    cls = type(env.initial(key=jr.key(0)))
    return lambda y, t: cls(y=jnp.asarray(y), t=jnp.asarray(t, dtype=float))


# --------------------------------------------------------------------------------------------- cartpole
def u_cartpole(ctx):
    import gymnasium as gym
    import jax.numpy as jnp
    from lerax.env.classic_control import CartPole

    env = CartPole()
    g = gym.make("CartPole-v1").unwrapped
    g.reset(seed=0)
    dyn, clip, rt = _jit_env(env)
    N = ctx.n(600, 6000)
    Y = np.column_stack([ctx.rng.uniform(-2.6, 2.6, N), ctx.rng.normal(0, 2, N), ctx.rng.uniform(-0.3, 0.3, N), ctx.rng.normal(0, 2, N)])
    # limits: exactly on and just beyond the thresholds
    thr_x, thr_t = float(g.x_threshold), float(g.theta_threshold_radians)
    edge = np.array([[thr_x, 0, 0, 0], [-thr_x, 0, 0, 0], [np.nextafter(np.float32(thr_x), np.float32(9)), 0, 0, 0],
                     [0, 0, thr_t, 0], [0, 0, -thr_t, 0], [0, 0, np.nextafter(np.float32(thr_t), np.float32(9)), 0]])
    Y = np.vstack([Y, edge]).astype(np.float32)
    A = ctx.rng.integers(0, 2, len(Y))
    F = np.asarray(dyn(jnp.asarray(Y), jnp.asarray(A)), np.float64)
    tau = float(g.tau)
    succ = np.zeros_like(Y, dtype=np.float64)
    gterm = np.zeros(len(Y), bool)
    grew = np.zeros(len(Y))
    for i in range(len(Y)):
        g.state = np.array(Y[i], dtype=np.float64)
        g.steps_beyond_terminated = None
        o, r, term, _, _ = g.step(int(A[i]))
        s1 = np.asarray(g.state, np.float64)
        succ[i], gterm[i], grew[i] = s1, term, r
        want = (s1 - Y[i].astype(np.float64)) / tau
        near_limit = bool(abs(Y[i][0]) > 2.3 or abs(Y[i][2]) > 0.19)
        ctx.case({"env": "CartPole", "y": Y[i], "a": int(A[i])}, nontrivial=near_limit or term, cls="cartpole/field")
        ctx.monitor("classic_states_judged")
        if not _close(F[i], want, rtol=2e-4, atol=2e-4):
            ctx.violation("cartpole-vector-field-differs-from-gymnasium", {"y": Y[i], "a": int(A[i]), "got": F[i], "want": want})
    R, T = rt(jnp.asarray(Y), jnp.asarray(A), jnp.asarray(succ, jnp.float32))
    R, T = np.asarray(R), np.asarray(T)
    s32 = succ.astype(np.float32)
    # decide termination on the float32 successor lerax actually sees
    want_T = (s32[:, 0] < -np.float32(thr_x)) | (s32[:, 0] > np.float32(thr_x)) | (s32[:, 2] < -np.float32(thr_t)) | (s32[:, 2] > np.float32(thr_t))
    amb = (np.abs(np.abs(succ[:, 0]) - thr_x) < 1e-6) | (np.abs(np.abs(succ[:, 2]) - thr_t) < 1e-7)
    for i in range(len(Y)):
        if not amb[i] and bool(T[i]) != bool(gterm[i]):
            ctx.violation("cartpole-termination-differs-from-gymnasium", {"succ": succ[i], "got": bool(T[i]), "want": bool(gterm[i])})
        if amb[i] and bool(T[i]) != bool(want_T[i]):
            ctx.violation("cartpole-termination-threshold-not-inclusive", {"succ": s32[i], "got": bool(T[i])})
        if abs(float(R[i]) - grew[i]) > 1e-6:
            ctx.violation("cartpole-reward-differs-from-gymnasium", {"succ": succ[i], "got": float(R[i]), "want": grew[i]})
    C = np.asarray(clip(jnp.asarray(Y)))
    if not np.array_equal(C, Y):
        ctx.violation("cartpole-state-limits-differ-from-gymnasium", {"note": "Gymnasium applies no state clipping"})
    ctx.monitor("cartpole_terminal_successors", int(gterm.sum()))
    ctx.require("cartpole_terminal_successors", 20)


# ------------------------------------------------------------------------------------------ mountain cars
def _mc_common(ctx, env, g, name, continuous):
    import jax.numpy as jnp

    dyn, clip, rt = _jit_env(env)
    N = ctx.n(600, 6000)
    lo_x, hi_x, ms = float(g.min_position), float(g.max_position), float(g.max_speed)
    X = ctx.rng.uniform(lo_x, hi_x, N)
    V = ctx.rng.uniform(-ms, ms, N)
    # goal region and walls
    k = N // 4
    X[:k] = ctx.rng.uniform(0.35, hi_x, k)
    V[:k] = ctx.rng.uniform(0.0, ms, k)
    X[k:k + k // 2] = ctx.rng.uniform(lo_x, lo_x + 0.05, k // 2)
    V[k:k + k // 2] = ctx.rng.uniform(-ms, 0.0, k // 2)
    Y = np.column_stack([X, V]).astype(np.float32)
    if continuous:
        A = ctx.rng.uniform(-1, 1, (len(Y),)).astype(np.float32)
        A[::7] = ctx.rng.choice([-1.0, 1.0, 0.0], size=len(A[::7]))
        A_l = jnp.asarray(A)[:, None] if env.action_space.shape == (1,) else jnp.asarray(A)
    else:
        A = ctx.rng.integers(0, 3, len(Y))
        A_l = jnp.asarray(A)
    F = np.asarray(dyn(jnp.asarray(Y), A_l), np.float64)
    succ = np.zeros((len(Y), 2))
    gterm, grew = np.zeros(len(Y), bool), np.zeros(len(Y))
    for i in range(len(Y)):
        g.state = np.array(Y[i], dtype=np.float64 if not continuous else np.float32)
        act = np.array([A[i]], dtype=np.float32) if continuous else int(A[i])
        o, r, term, _, _ = g.step(act)
        s1 = np.asarray(g.state, np.float64)
        succ[i], gterm[i], grew[i] = s1, term, r
        x0, v0 = float(Y[i][0]), float(Y[i][1])
        # acceleration from the velocity update, valid when neither velocity clip nor wall rule was active
        raw_v = s1[1]
        interior = abs(raw_v) < ms * (1 - 1e-6) and s1[0] > lo_x + 1e-9 and s1[0] < hi_x - 1e-9
        goalish = x0 > 0.35
        ctx.case({"env": name, "y": Y[i], "a": float(A[i])}, nontrivial=goalish or bool(term) or x0 < lo_x + 0.05,
                 cls=f"{name}/field")
        ctx.monitor("classic_states_judged")
        if interior:
            acc = raw_v - v0
            if abs(F[i][1] - acc) > 1e-6 + 1e-3 * abs(acc) or abs(F[i][0] - v0) > 1e-7:
                ctx.violation(f"{name}-vector-field-differs-from-gymnasium", {"y": Y[i], "a": float(A[i]), "got": F[i], "want": [v0, acc]})
    R, T = rt(jnp.asarray(Y), A_l, jnp.asarray(succ, jnp.float32))
    R, T = np.asarray(R, np.float64), np.asarray(T)
    gp, gv = float(g.goal_position), float(g.goal_velocity)
    for i in range(len(Y)):
        amb = abs(succ[i][0] - gp) < 1e-6 or abs(succ[i][1] - gv) < 1e-9 and succ[i][0] >= gp - 1e-6
        if not amb and bool(T[i]) != bool(gterm[i]):
            ctx.violation(f"{name}-termination-differs-from-gymnasium", {"succ": succ[i], "got": bool(T[i]), "want": bool(gterm[i])})
        if not amb and abs(R[i] - grew[i]) > 1e-5 + 1e-5 * abs(grew[i]):
            key = f"{name}-reward-differs-from-gymnasium"
            if gterm[i] and abs((grew[i] - R[i]) - 100.0) < 1e-3:
                key = f"{name}-goal-reward-never-paid"
            ctx.violation(key, {"y": Y[i], "a": float(A[i]), "succ": succ[i], "got": R[i], "want": grew[i], "terminated": bool(gterm[i])})
    ctx.monitor(f"{name}_goal_transitions", int(gterm.sum()))
    # state limits: Gymnasium's rules applied to raw integrated states (velocity limit, position limit, left wall)
    M = ctx.n(400, 4000)
    RX = ctx.rng.uniform(lo_x - 0.3, hi_x + 0.3, M)
    RV = ctx.rng.uniform(-2 * ms, 2 * ms, M)
    RX[: M // 4] = lo_x - ctx.rng.uniform(0, 0.2, M // 4)  # beyond the left wall, moving either way
    raw = np.column_stack([RX, RV]).astype(np.float32)
    C = np.asarray(clip(jnp.asarray(raw)), np.float64)
    # Gymnasium's rules evaluated in float32, the precision lerax holds its state in
    v = np.clip(raw[:, 1], np.float32(-ms), np.float32(ms))
    x = np.clip(raw[:, 0], np.float32(lo_x), np.float32(hi_x))
    v = np.where((x == np.float32(lo_x)) & (v < 0), np.float32(0.0), v).astype(np.float64)
    x = x.astype(np.float64)
    for i in range(M):
        ctx.monitor("classic_limit_states_judged")
        if abs(C[i][0] - x[i]) > 1e-6 or abs(C[i][1] - v[i]) > 1e-7:
            key = f"{name}-state-limits-differ-from-gymnasium"
            if x[i] == np.float32(lo_x) and raw[i][1] < 0 and abs(C[i][0] - x[i]) <= 1e-6:
                key = f"{name}-left-wall-does-not-stop-the-car"
            ctx.violation(key, {"raw": raw[i], "got": C[i], "want": [x[i], v[i]]})
    # end to end at the wall: same pre-state in both, successor must be (min_position, 0)
    import equinox as eqx
    from jax import random as jr

    tr = eqx.filter_jit(lambda y, a: env.transition(type_state(env)(y, 0.0), a, key=jr.key(0)).y)
    for j in range(ctx.n(10, 60)):
        y0 = np.array([lo_x + ctx.rng.uniform(0, 0.01), -ms * ctx.rng.uniform(0.6, 1.0)], np.float32)
        a = (np.array([-1.0], np.float32) if continuous else 0)
        g.state = np.array(y0, dtype=np.float64 if not continuous else np.float32)
        g.step(a)
        want = np.asarray(g.state, np.float64)
        a_l = (jnp.asarray(a) if env.action_space.shape == (1,) else jnp.asarray(a[0])) if continuous else jnp.asarray(a)
        got = np.asarray(tr(jnp.asarray(y0), a_l), np.float64)
        ctx.case({"env": name, "wall": True, "y": y0}, nontrivial=True, cls=f"{name}/wall")
        ctx.monitor("wall_transitions")
        if abs(got[0] - want[0]) > 1e-6 or abs(got[1] - want[1]) > 1e-6:
            ctx.violation(f"{name}-left-wall-does-not-stop-the-car", {"y": y0, "got": got, "want": want})
    ctx.require(f"{name}_goal_transitions", 10)


def u_mountaincar(ctx):
    import gymnasium as gym
    from lerax.env.classic_control import MountainCar

    g = gym.make("MountainCar-v0").unwrapped
    g.reset(seed=0)
    _mc_common(ctx, MountainCar(), g, "mountaincar", False)


def u_cmc(ctx):
    import gymnasium as gym
    from lerax.env.classic_control import ContinuousMountainCar

    g = gym.make("MountainCarContinuous-v0").unwrapped
    g.reset(seed=0)
    _mc_common(ctx, ContinuousMountainCar(), g, "continuous-mountaincar", True)


# --------------------------------------------------------------------------------------------- acrobot
def u_acrobot(ctx):
    import gymnasium as gym
    import jax.numpy as jnp
    from lerax.env.classic_control import Acrobot

    env = Acrobot()
    g = gym.make("Acrobot-v1").unwrapped
    g.reset(seed=0)
    dyn, clip, rt = _jit_env(env)
    N = ctx.n(600, 6000)
    Y = np.column_stack([ctx.rng.uniform(-np.pi, np.pi, N), ctx.rng.uniform(-np.pi, np.pi, N),
                         ctx.rng.uniform(-4 * np.pi, 4 * np.pi, N), ctx.rng.uniform(-9 * np.pi, 9 * np.pi, N)])
    Y[: N // 4, 0] = np.pi + ctx.rng.normal(0, 0.5, N // 4)  # upright region -> goal
    Y[: N // 4, 1] = ctx.rng.normal(0, 0.5, N // 4)
    Y = Y.astype(np.float32)
    A = ctx.rng.integers(0, 3, N)
    F = np.asarray(dyn(jnp.asarray(Y), jnp.asarray(A)), np.float64)
    succ = np.zeros((N, 4))
    gterm, grew = np.zeros(N, bool), np.zeros(N)
    for i in range(N):
        torque = g.AVAIL_TORQUE[int(A[i])]
        want = np.asarray(g._dsdt(np.append(Y[i].astype(np.float64), torque)))[:4]
        g.state = np.array(Y[i], dtype=np.float64)
        o, r, term, _, _ = g.step(int(A[i]))
        succ[i], gterm[i], grew[i] = np.asarray(g.state, np.float64), term, r
        ctx.case({"env": "Acrobot", "y": Y[i], "a": int(A[i])}, nontrivial=bool(term) or i < N // 4, cls="acrobot/field")
        ctx.monitor("classic_states_judged")
        sc = max(1.0, float(np.max(np.abs(want))))
        if not np.all(np.abs(F[i] - want) <= 2e-4 * sc):
            ctx.violation("acrobot-vector-field-differs-from-gymnasium", {"y": Y[i], "a": int(A[i]), "got": F[i], "want": want})
    R, T = rt(jnp.asarray(Y), jnp.asarray(A), jnp.asarray(succ, jnp.float32))
    R, T = np.asarray(R, np.float64), np.asarray(T)
    h = -np.cos(succ[:, 0]) - np.cos(succ[:, 1] + succ[:, 0])
    for i in range(N):
        if abs(h[i] - 1.0) < 1e-5:
            continue  # float32 vs float64 at the goal line
        if bool(T[i]) != bool(gterm[i]):
            ctx.violation("acrobot-termination-differs-from-gymnasium", {"succ": succ[i], "got": bool(T[i]), "want": bool(gterm[i])})
        if abs(R[i] - grew[i]) > 1e-6:
            ctx.violation("acrobot-reward-differs-from-gymnasium", {"succ": succ[i], "got": R[i], "want": grew[i]})
    ctx.monitor("acrobot_goal_transitions", int(gterm.sum()))
    # state limits: wrap to [-pi, pi), bound velocities
    M = ctx.n(400, 4000)
    raw = np.column_stack([ctx.rng.uniform(-12, 12, M), ctx.rng.uniform(-12, 12, M), ctx.rng.uniform(-20, 20, M), ctx.rng.uniform(-40, 40, M)]).astype(np.float32)
    C = np.asarray(clip(jnp.asarray(raw)), np.float64)
    from gymnasium.envs.classic_control.acrobot import bound, wrap

    for i in range(M):
        w = [wrap(float(raw[i][0]), -np.pi, np.pi), wrap(float(raw[i][1]), -np.pi, np.pi),
             bound(float(raw[i][2]), -g.MAX_VEL_1, g.MAX_VEL_1), bound(float(raw[i][3]), -g.MAX_VEL_2, g.MAX_VEL_2)]
        ctx.monitor("classic_limit_states_judged")
        # angles are compared on the circle (wrap conventions at exactly +-pi are equivalent)
        da = [abs(np.angle(np.exp(1j * (C[i][j] - w[j])))) for j in range(2)]
        if max(da) > 1e-4 or abs(C[i][2] - w[2]) > 1e-5 or abs(C[i][3] - w[3]) > 1e-5 or np.any(np.abs(C[i][:2]) > np.pi + 1e-6):
            ctx.violation("acrobot-state-limits-differ-from-gymnasium", {"raw": raw[i], "got": C[i], "want": w})
    ctx.require("acrobot_goal_transitions", 10)


# --------------------------------------------------------------------------------------- euler trajectories
def u_cartpole_traj(ctx):
    import diffrax
    import equinox as eqx
    import gymnasium as gym
    import jax.numpy as jnp
    from jax import random as jr
    from lerax.env.classic_control import CartPole

    env = CartPole(solver=diffrax.Euler())
    g = gym.make("CartPole-v1").unwrapped
    step = eqx.filter_jit(lambda s, a: (lambda n: (n, env.reward(s, a, n, key=jr.key(0)), env.terminal(n, key=jr.key(0))))(
        env.transition(s, a, key=jr.key(0))))
    mk = type_state(env)
    for ep in range(ctx.n(20, 200)):
        o, _ = g.reset(seed=int(ctx.rng.integers(0, 2**31)))
        y = np.asarray(g.state, np.float64)
        s = mk(y.astype(np.float32), 0.0)
        n_steps = 0
        for t in range(200):
            a = int(ctx.rng.integers(0, 2)) if ep % 3 else int(t % 2)
            # re-synchronise lerax to Gymnasium's float64 state each step: one-step agreement, no float32 drift
            s = mk(np.asarray(g.state, np.float32), s.t)
            go, gr, gt, _, _ = g.step(a)
            ns, r, term = step(s, jnp.asarray(a))
            want = np.asarray(g.state, np.float64)
            got = np.asarray(ns.y, np.float64)
            ctx.monitor("euler_steps_compared")
            n_steps += 1
            if not np.all(np.abs(got - want) <= 1e-5 + 1e-5 * np.abs(want)):
                ctx.violation("cartpole-euler-step-differs-from-gymnasium", {"state": np.asarray(s.y), "a": a, "got": got, "want": want})
                break
            margin = min(abs(abs(want[0]) - 2.4), abs(abs(want[2]) - float(g.theta_threshold_radians)))
            if margin > 1e-5 and bool(term) != bool(gt):
                ctx.violation("cartpole-termination-differs-from-gymnasium", {"succ": want, "got": bool(term), "want": bool(gt)})
            if abs(float(r) - gr) > 1e-6:
                ctx.violation("cartpole-reward-differs-from-gymnasium", {"got": float(r), "want": gr})
            if gt:
                break
        ctx.case({"env": "CartPole-Euler", "episode": ep, "steps": n_steps}, nontrivial=True, cls="cartpole/euler-trajectory")
    # free-running lerax trajectory (no re-synchronisation) stays within float32 drift of Gymnasium for short horizons
    for ep in range(ctx.n(5, 40)):
        g.reset(seed=int(ctx.rng.integers(0, 2**31)))
        s = mk(np.asarray(g.state, np.float32), 0.0)
        for t in range(30):
            a = int(ctx.rng.integers(0, 2))
            _, _, gt, _, _ = g.step(a)
            s, _, term = step(s, jnp.asarray(a))
            if gt or bool(term):
                break
            if not np.all(np.abs(np.asarray(s.y, np.float64) - np.asarray(g.state, np.float64)) <= 2e-4):
                ctx.violation("cartpole-euler-trajectory-diverges-from-gymnasium", {"t": t, "got": np.asarray(s.y), "want": np.asarray(g.state)})
                break
        ctx.case({"env": "CartPole-Euler-free", "episode": ep}, nontrivial=True, cls="cartpole/euler-free-run")
    ctx.require("euler_steps_compared", 200)


# --------------------------------------------------------------------------------------- initial support
def u_initial(ctx):
    import equinox as eqx
    import gymnasium as gym
    import jax
    from jax import random as jr
    from lerax.env.classic_control import Acrobot, CartPole, ContinuousMountainCar, MountainCar

    pairs = [("cartpole", CartPole(), "CartPole-v1"), ("mountaincar", MountainCar(), "MountainCar-v0"),
             ("continuous-mountaincar", ContinuousMountainCar(), "MountainCarContinuous-v0"), ("acrobot", Acrobot(), "Acrobot-v1")]
    K = ctx.n(1000, 8000)
    for name, env, gid in pairs:
        g = gym.make(gid).unwrapped
        G = []
        for sd in range(ctx.n(300, 1000)):
            g.reset(seed=int(ctx.rng.integers(0, 2**31)))
            G.append(np.asarray(g.state, np.float64))
        G = np.array(G)
        ys = np.asarray(eqx.filter_jit(jax.vmap(lambda k: env.initial(key=k).y))(jr.split(ctx.key(hash(name) % 1000), K)), np.float64)
        ts = np.asarray(eqx.filter_jit(jax.vmap(lambda k: env.initial(key=k).t))(jr.split(ctx.key(1), 8)))
        ctx.case({"env": name, "keys": K}, nontrivial=True, cls=f"{name}/initial")
        ctx.monitor("initial_states_sampled", K)
        glo, ghi = G.min(axis=0), G.max(axis=0)
        # documented Gymnasium ranges (checked against the sampled Gymnasium resets first)
        doc = {"cartpole": ([-0.05] * 4, [0.05] * 4), "mountaincar": ([-0.6, 0.0], [-0.4, 0.0]),
               "continuous-mountaincar": ([-0.6, 0.0], [-0.4, 0.0]), "acrobot": ([-0.1] * 4, [0.1] * 4)}[name]
        lo, hi = np.array(doc[0]), np.array(doc[1])
        if np.any(glo < lo - 1e-9) or np.any(ghi > hi + 1e-9):
            ctx.inconc(f"{name}: Gymnasium resets left the documented range (reference assumption broken)")
            continue
        if np.any(ys < lo - 1e-7) or np.any(ys > hi + 1e-7):
            ctx.violation(f"{name}-initial-state-outside-gymnasium-range", {"min": ys.min(axis=0), "max": ys.max(axis=0), "lo": lo, "hi": hi})
        width = hi - lo
        cover = (ys.max(axis=0) - ys.min(axis=0))
        if np.any(cover < 0.95 * width - 1e-12):
            ctx.violation(f"{name}-initial-state-range-narrower-than-gymnasium", {"covered": cover, "width": width})
        if ys.shape[0] > 1 and np.all(ys == ys[0]):
            ctx.violation(f"{name}-initial-state-not-random", {})
        if np.any(ts != 0):
            ctx.violation(f"{name}-initial-clock-not-zero", {"t": ts})


# ----------------------------------------------------------------- vector fields with other physical constants
def u_constants(ctx):
    """The physical constants are constructor arguments on the lerax side and instance attributes on the Gymnasium
    side: with the same non-default constants on both sides the vector fields must still coincide (with the
    defaults several of them are equal to one another, so a formula that uses the wrong one goes unnoticed)."""
    import equinox as eqx
    import gymnasium as gym
    import jax
    import jax.numpy as jnp
    from lerax.env.classic_control import Acrobot, CartPole, MountainCar

    u = lambda lo, hi: float(np.round(ctx.rng.uniform(lo, hi), 3))  # noqa: E731
    dyn = eqx.filter_jit(lambda env, Y, A: jax.vmap(lambda y, a: env.dynamics(0.0, y, a))(Y, A))
    N = ctx.n(150, 1000)
    for rep in range(ctx.n(4, 20)):
        # Acrobot
        kw = dict(link_length_1=u(0.6, 1.6), link_length_2=u(0.6, 1.6), link_mass_1=u(0.5, 2.0), link_mass_2=u(0.5, 2.0),
                  link_com_pos_1=u(0.3, 0.7), link_com_pos_2=u(0.3, 0.7), link_moi=u(0.5, 2.0))
        env = Acrobot(**kw)
        g = gym.make("Acrobot-v1").unwrapped
        g.reset(seed=0)
        g.LINK_LENGTH_1, g.LINK_LENGTH_2, g.LINK_MASS_1, g.LINK_MASS_2 = kw["link_length_1"], kw["link_length_2"], kw["link_mass_1"], kw["link_mass_2"]
        g.LINK_COM_POS_1, g.LINK_COM_POS_2, g.LINK_MOI = kw["link_com_pos_1"], kw["link_com_pos_2"], kw["link_moi"]
        Y = np.column_stack([ctx.rng.uniform(-np.pi, np.pi, N), ctx.rng.uniform(-np.pi, np.pi, N),
                             ctx.rng.uniform(-4 * np.pi, 4 * np.pi, N), ctx.rng.uniform(-9 * np.pi, 9 * np.pi, N)]).astype(np.float32)
        A = ctx.rng.integers(0, 3, N)
        F = np.asarray(dyn(env, jnp.asarray(Y), jnp.asarray(A)), np.float64)
        for i in range(N):
            want = np.asarray(g._dsdt(np.append(Y[i].astype(np.float64), g.AVAIL_TORQUE[int(A[i])])))[:4]
            ctx.monitor("nondefault_constant_states_judged")
            sc = max(1.0, float(np.max(np.abs(want))))
            if not np.all(np.abs(F[i] - want) <= 5e-4 * sc):
                ctx.violation("acrobot-vector-field-differs-from-gymnasium", {"constants": kw, "y": Y[i], "a": int(A[i]), "got": F[i], "want": want})
                break
        ctx.case({"env": "Acrobot", "constants": kw}, nontrivial=True, cls="constants/acrobot")
        # CartPole
        kw = dict(gravity=u(5.0, 15.0), cart_mass=u(0.5, 2.0), pole_mass=u(0.05, 0.5), half_length=u(0.25, 1.0), force_mag=u(5.0, 20.0))
        env = CartPole(**kw)
        g = gym.make("CartPole-v1").unwrapped
        g.reset(seed=0)
        g.gravity, g.masscart, g.masspole, g.length, g.force_mag = kw["gravity"], kw["cart_mass"], kw["pole_mass"], kw["half_length"], kw["force_mag"]
        g.total_mass, g.polemass_length = g.masspole + g.masscart, g.masspole * g.length
        Y = np.column_stack([ctx.rng.uniform(-2.0, 2.0, N), ctx.rng.normal(0, 2, N), ctx.rng.uniform(-0.2, 0.2, N), ctx.rng.normal(0, 2, N)]).astype(np.float32)
        A = ctx.rng.integers(0, 2, N)
        F = np.asarray(dyn(env, jnp.asarray(Y), jnp.asarray(A)), np.float64)
        tau = float(g.tau)
        for i in range(N):
            g.state = np.array(Y[i], dtype=np.float64)
            g.steps_beyond_terminated = None
            g.step(int(A[i]))
            want = (np.asarray(g.state, np.float64) - Y[i].astype(np.float64)) / tau
            ctx.monitor("nondefault_constant_states_judged")
            if not _close(F[i], want, rtol=5e-4, atol=5e-4):
                ctx.violation("cartpole-vector-field-differs-from-gymnasium", {"constants": kw, "y": Y[i], "a": int(A[i]), "got": F[i], "want": want})
                break
        ctx.case({"env": "CartPole", "constants": kw}, nontrivial=True, cls="constants/cartpole")
        # MountainCar: force and gravity
        kw = dict(force=u(0.0005, 0.003), gravity=u(0.001, 0.005))
        env = MountainCar(**kw)
        g = gym.make("MountainCar-v0").unwrapped
        g.reset(seed=0)
        g.force, g.gravity = kw["force"], kw["gravity"]
        Y = np.column_stack([ctx.rng.uniform(-1.1, 0.4, N), ctx.rng.uniform(-0.03, 0.03, N)]).astype(np.float32)
        A = ctx.rng.integers(0, 3, N)
        F = np.asarray(dyn(env, jnp.asarray(Y), jnp.asarray(A)), np.float64)
        for i in range(N):
            g.state = np.array(Y[i], dtype=np.float64)
            g.step(int(A[i]))
            s1 = np.asarray(g.state, np.float64)
            if abs(s1[1]) >= 0.07 * (1 - 1e-6) or not (-1.2 + 1e-9 < s1[0] < 0.6 - 1e-9):
                continue  # velocity clip or wall rule active: the update is not the plain field
            acc = s1[1] - float(Y[i][1])
            ctx.monitor("nondefault_constant_states_judged")
            if abs(F[i][1] - acc) > 1e-6 + 1e-3 * abs(acc):
                ctx.violation("mountaincar-vector-field-differs-from-gymnasium", {"constants": kw, "y": Y[i], "a": int(A[i]), "got": F[i], "want": [float(Y[i][1]), acc]})
                break
        ctx.case({"env": "MountainCar", "constants": kw}, nontrivial=True, cls="constants/mountaincar")
    ctx.require("nondefault_constant_states_judged", 500)


def run_unit(name, ctx):
    if name == "physical_constants":
        return u_constants(ctx)
    if name.startswith("mj-"):
        from checks.c17_mujoco import run_mujoco_unit

        return run_mujoco_unit(name, ctx)
    {"cartpole": u_cartpole, "mountaincar": u_mountaincar, "continuous_mountaincar": u_cmc, "acrobot": u_acrobot,
     "cartpole_euler_trajectories": u_cartpole_traj, "initial_support": u_initial}[name](ctx)
