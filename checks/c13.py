"""C13 Wrappers and adapters change only what they declare; TimeLimit is exact."""

from __future__ import annotations

import numpy as np

EPS = float(np.finfo(np.float32).eps)
LIP = 10.0  # bound on the sensitivity of every base-env output to the action it receives

RULE = ("cases = one judged execution of a real wrapper stack / adapter against a Python reference: "
        "(a) every documented wrapper alone and type-directed random stacks (depth <= 4) over the harness "
        "ProbeEnv (all components depend on state, action-as-given, next state and key; state remembers the "
        "action `transition` received), FiniteMDP (masked Discrete, Box) and Pendulum / ContinuousMountainCar / "
        "CartPole / MountainCar (Acrobot in thorough), driven along trajectories with random and corner actions "
        "(at, beyond and far beyond bounds); reference = base env called with the float64-composed action map, "
        "outputs post-processed by composed observation / reward maps, min of time limits; all nine functional "
        "components, spaces, unwrapped env/state, name, renderer; eager and jit; (b) rescale: new bounds onto "
        "old bounds and interior affinity on random bounded boxes; (c) TimeLimit(N) for N=1..8 x inner episode "
        "length 1..10 x inner end kind through `step` for >= 3 episodes, functional API, nested, vmapped; "
        "(d) the four adapters vs twin environments. non-trivial = the declared change was active on the case "
        "(mapped action != action, mapped observation != observation, mapped reward != reward, permuted mask, "
        "limit decided the truncation flag) or, for TimeLimit/adapter cases, an episode boundary was crossed; "
        "distinct by hash of (stack, step, action, state digest)")
FLOOR = {"quick": 300, "thorough": 3000}
ASSUMPTIONS = [
    "ProbeEnv / FiniteMDP (harness code) and the un-wrapped lerax base envs are the 'inner environment'; the reference "
    "calls them directly with the reference-mapped action (wrappers are the code under test, base envs are not)",
    "float64 NumPy composition of clip / affine / table maps is the declared semantics; float32 evaluation error is "
    "propagated as an explicit bound (8 eps per affine op) and base-env outputs get 2e-5*(1+|ref|) + 10*tol_action",
    "rescale: bounded boxes with high > low and max > min only; 'exactly onto' is read as within 8 eps32 * "
    "(|low|+|high|+(|min|+|max|)*(high-low)/(max-min)) for actions and 8 eps32 * (|min|+|max|+(|low|+|high|)*"
    "(max-min)/(high-low)) for observations (float32 rounding of the affine formula); how many mapped bounds are "
    "bit-exact / fall outside the inner box is recorded as a note, not judged",
    "FiniteMDP-Box cases whose mapped action is within 1e-3 of an interior bin edge are skipped when the map is inexact",
    "ProbeEnv terminal cases with |margin| < 1e-4 are skipped (threshold flip under jit re-association)",
    "adapters: twin = the adapted env's own functional API / an identically seeded Gymnasium / Gymnax twin; "
    "classic-control transitions are deterministic given state and action",
    "documented wrapper = concrete class exported by lerax.wrapper.__all__",
]

KINDS = ["identity", "timelimit", "clip_action", "rescale_action", "transform_action", "clip_obs",
         "rescale_obs", "flatten_obs", "transform_obs", "clip_reward", "transform_reward"]
CLS = {"identity": "Identity", "timelimit": "TimeLimit", "clip_action": "ClipAction",
       "rescale_action": "RescaleAction", "transform_action": "TransformAction",
       "clip_obs": "ClipObservation", "rescale_obs": "RescaleObservation",
       "flatten_obs": "FlattenObservation", "transform_obs": "TransformObservation",
       "clip_reward": "ClipReward", "transform_reward": "TransformReward"}


def units(tier):
    return [{"name": n, "timeout": 1500} for n in
            ("single", "stacks", "classic_box", "classic_disc", "rescale", "timelimit",
             "lerax2gym", "gym2lerax", "lerax2gymnax", "gymnax2lerax")]


# ------------------------------------------------------------------ reference spaces
def _sp(space):
    from lerax.space import Box, Dict, Discrete

    if isinstance(space, Box):
        return ("box", np.array(space.low, np.float32), np.array(space.high, np.float32))
    if isinstance(space, Discrete):
        return ("discrete", int(space.n))
    if isinstance(space, Dict):
        return ("dict", [(k, _sp(v)) for k, v in space.spaces.items()])
    return ("other", type(space).__name__)


def _sp_eq(a, b):
    if a[0] != b[0]:
        return False
    if a[0] == "box":
        return a[1].shape == b[1].shape and np.array_equal(a[1], b[1]) and np.array_equal(a[2], b[2])
    if a[0] == "dict":
        return len(a[1]) == len(b[1]) and all(ka == kb and _sp_eq(sa, sb) for (ka, sa), (kb, sb) in zip(a[1], b[1]))
    return a[1] == b[1]


def _sp_lerax(sp):
    from collections import OrderedDict

    from lerax.space import Box, Dict, Discrete

    if sp[0] == "box":
        return Box(sp[1], sp[2])
    if sp[0] == "discrete":
        return Discrete(sp[1])
    return Dict(OrderedDict((k, _sp_lerax(v)) for k, v in sp[1]))


def _sp_desc(sp):
    if sp[0] == "box":
        fin = bool(np.all(np.isfinite(sp[1])) and np.all(np.isfinite(sp[2])))
        return f"box{tuple(sp[1].shape)}{'' if fin else 'inf'}"
    if sp[0] == "dict":
        return "dict(" + ",".join(k for k, _ in sp[1]) + ")"
    return f"{sp[0]}({sp[1]})"


def _flat_size(sp):
    if sp[0] == "box":
        return int(np.prod(sp[1].shape)) if sp[1].shape else 1
    if sp[0] == "dict":
        return sum(_flat_size(v) for _, v in sp[1])
    return 1


def _flatten(sp, o):
    if sp[0] == "dict":
        return np.concatenate([_flatten(v, o[k]) for k, v in sp[1]])
    return np.asarray(o, np.float64).ravel()


def _finite_box(sp):
    return (sp[0] == "box" and bool(np.all(np.isfinite(sp[1])) and np.all(np.isfinite(sp[2]))
                                    and np.all(sp[2] > sp[1])))


def _amax(x):
    import jax

    ls = [np.abs(np.asarray(v, np.float64)) for v in jax.tree.leaves(x)]
    ls = [v[np.isfinite(v)] for v in ls]
    return max([float(v.max()) for v in ls if v.size] + [0.0])


# ------------------------------------------------------------------ layers
class _Layer:
    def __init__(self, kind):
        self.kind, self.cls = kind, CLS[kind]
        self.tag = self.cls
        self.f = self.g = self.h = self.m = None
        self.ftol = self.gtol = self.htol = lambda x, tol: tol
        self.N = None
        self.build = None
        self.act = self.obs = None


def _rescale_params(rng, shape):
    if shape and rng.random() < 0.5:
        mn = rng.uniform(-3, 1, size=shape)
        mx = mn + rng.uniform(0.3, 4, size=shape)
    else:
        mn = np.asarray(rng.uniform(-3, 1))
        mx = mn + np.asarray(rng.uniform(0.3, 4))
    return mn.astype(np.float32), mx.astype(np.float32)


def _mk_layer(kind, rng, act, obs):
    """Layer of the given kind on top of advertised spaces (act, obs), or None if it does not apply."""
    import jax.numpy as jnp
    from lerax import wrapper as lw

    L = _Layer(kind)
    L.act, L.obs = act, obs
    if kind == "identity":
        L.build = lambda e: lw.Identity(e)
    elif kind == "timelimit":
        L.N = int(rng.integers(1, 6))
        L.tag = f"TimeLimit({L.N})"
        L.build = lambda e: lw.TimeLimit(e, L.N)
    elif kind == "clip_action":
        if act[0] != "box":
            return None
        lo, hi = act[1].astype(np.float64), act[2].astype(np.float64)
        L.f = lambda a: np.clip(a, lo, hi)
        L.act = ("box", np.full(lo.shape, -np.inf, np.float32), np.full(lo.shape, np.inf, np.float32))
        L.build = lambda e: lw.ClipAction(e)
    elif kind == "rescale_action":
        if not _finite_box(act):
            return None
        lo, hi = act[1].astype(np.float64), act[2].astype(np.float64)
        mn, mx = _rescale_params(rng, lo.shape)
        mn64, mx64 = np.broadcast_to(mn, lo.shape).astype(np.float64), np.broadcast_to(mx, lo.shape).astype(np.float64)
        grad = (mx64 - mn64) / (hi - lo)
        L.f = lambda a: lo + (a - mn64) / grad
        L.ftol = lambda a, tol: float(np.max((tol + 8 * EPS * (np.abs(a) + np.abs(mn64) + np.abs(lo * grad))) / grad
                                             + 8 * EPS * (np.abs(lo) + np.abs(hi) + np.abs((a - mn64) / grad))))
        L.act = ("box", mn64.astype(np.float32), mx64.astype(np.float32))
        L.tag = f"RescaleAction({'vec' if mn.shape else 'scalar'})"
        L.build = lambda e: lw.RescaleAction(e, jnp.asarray(mn), jnp.asarray(mx))
    elif kind == "transform_action":
        if act[0] == "box":
            var = ["neg", "affine", "disc2box"][int(rng.integers(3))]
            lo, hi = act[1], act[2]
            if var == "neg":
                L.f = lambda a: -a
                L.act = ("box", -hi, -lo)
                L.build = lambda e: lw.TransformAction(e, lambda a: -a, _sp_lerax(L.act))
            elif var == "affine":
                c, b = float(rng.choice([0.5, 2.0])), float(np.float32(rng.uniform(-0.5, 0.5)))
                L.f = lambda a: c * a + b
                L.ftol = lambda a, tol: float(c * tol + 4 * EPS * (c * np.max(np.abs(a), initial=0.0) + abs(b)))
                L.act = ("box", np.full(lo.shape, -3, np.float32), np.full(lo.shape, 3, np.float32))
                L.build = lambda e: lw.TransformAction(e, lambda a: c * a + b, _sp_lerax(L.act))
            else:
                m = int(rng.integers(2, 5))
                T = rng.uniform(-3, 3, size=(m,) + lo.shape).astype(np.float32)
                Tj = jnp.asarray(T)
                L.f = lambda a: T[int(a)].astype(np.float64)
                L.act = ("discrete", m)
                L.build = lambda e: lw.TransformAction(e, lambda a: Tj[a], _sp_lerax(L.act))
            L.tag = f"TransformAction({var})"
        elif act[0] == "discrete":
            n = act[1]
            P = np.roll(np.arange(n), 1 + int(rng.integers(max(1, n - 1))))  # never the identity
            Pj = jnp.asarray(P)
            L.f = lambda a: int(P[int(a)])
            L.m = lambda mask: np.asarray(mask)[P]
            L.tag = "TransformAction(perm)"
            L.build = lambda e: lw.TransformAction(e, lambda a: Pj[a], _sp_lerax(act), lambda mk: mk[Pj])
        else:
            return None
    elif kind == "clip_obs":
        if obs[0] != "box":
            return None
        lo, hi = obs[1].astype(np.float64), obs[2].astype(np.float64)
        L.g = lambda o: np.clip(np.asarray(o, np.float64), lo, hi)
        L.build = lambda e: lw.ClipObservation(e)
    elif kind == "rescale_obs":
        if not _finite_box(obs):
            return None
        lo, hi = obs[1].astype(np.float64), obs[2].astype(np.float64)
        mn, mx = _rescale_params(rng, lo.shape)
        mn64, mx64 = np.broadcast_to(mn, lo.shape).astype(np.float64), np.broadcast_to(mx, lo.shape).astype(np.float64)
        grad = (mx64 - mn64) / (hi - lo)
        L.g = lambda o: mn64 + (np.asarray(o, np.float64) - lo) * grad
        L.gtol = lambda o, tol: float(np.max(grad * tol + 8 * EPS * (np.abs(grad * np.asarray(o, np.float64))
                                                                    + np.abs(mn64) + 2 * np.abs(lo * grad))))
        L.obs = ("box", mn64.astype(np.float32), mx64.astype(np.float32))
        L.tag = f"RescaleObservation({'vec' if mn.shape else 'scalar'})"
        L.build = lambda e: lw.RescaleObservation(e, jnp.asarray(mn), jnp.asarray(mx))
    elif kind == "flatten_obs":
        n = _flat_size(obs)
        L.g = lambda o: _flatten(obs, o)
        L.obs = ("box", np.full((n,), -np.inf, np.float32), np.full((n,), np.inf, np.float32))
        L.build = lambda e: lw.FlattenObservation(e)
    elif kind == "transform_obs":
        if obs[0] == "box":
            var = ["neg", "affine", "head"][int(rng.integers(3))]
            lo, hi = obs[1], obs[2]
            if var == "head" and lo.size < 2:
                var = "neg"
            if var == "neg":
                L.g = lambda o: -np.asarray(o, np.float64)
                L.obs = ("box", -hi, -lo)
                fn = lambda o: -o  # noqa: E731
            elif var == "affine":
                L.g = lambda o: 2.0 * np.asarray(o, np.float64) + 1.0
                L.gtol = lambda o, tol: float(2 * tol + 4 * EPS * (2 * _amax(o) + 1))
                L.obs = ("box", (2 * lo + 1).astype(np.float32), (2 * hi + 1).astype(np.float32))
                fn = lambda o: 2.0 * o + 1.0  # noqa: E731
            else:
                L.g = lambda o: np.asarray(o, np.float64).ravel()[:2]
                L.obs = ("box", lo.ravel()[:2].copy(), hi.ravel()[:2].copy())
                fn = lambda o: o.ravel()[:2]  # noqa: E731
        elif obs[0] == "dict":
            var = "pick"
            k0, sub = obs[1][int(rng.integers(len(obs[1])))]
            L.g = lambda o: np.asarray(o[k0], np.float64)
            L.obs = sub
            fn = lambda o: o[k0]  # noqa: E731
        else:
            return None
        L.tag = f"TransformObservation({var})"
        L.build = lambda e: lw.TransformObservation(e, fn, _sp_lerax(L.obs))
    elif kind == "clip_reward":
        mn, mx = float(np.float32(rng.uniform(-1.5, -0.1))), float(np.float32(rng.uniform(0.1, 1.5)))
        L.h = lambda r: float(np.clip(r, mn, mx))
        if rng.random() < 0.3:
            mn, mx = -1.0, 1.0
            L.build = lambda e: lw.ClipReward(e)
            L.tag = "ClipReward(default)"
        else:
            L.build = lambda e: lw.ClipReward(e, mn, mx)
    elif kind == "transform_reward":
        var = ["x2", "neg", "sq", "tanh"][int(rng.integers(4))]
        if var == "x2":
            L.h, fn = (lambda r: 2.0 * r), (lambda r: 2.0 * r)
            L.htol = lambda r, tol: 2 * tol + 4 * EPS * abs(r)
        elif var == "neg":
            L.h, fn = (lambda r: -r), (lambda r: -r)
        elif var == "sq":
            L.h, fn = (lambda r: 0.25 * r * r), (lambda r: 0.25 * r * r)
            L.htol = lambda r, tol: 0.5 * (abs(r) + tol) * tol + 4 * EPS * r * r
        else:
            L.h, fn = (lambda r: float(np.tanh(r))), (lambda r: jnp.tanh(r))
            L.htol = lambda r, tol: tol + 8 * EPS
        L.tag = f"TransformReward({var})"
        L.build = lambda e: lw.TransformReward(e, fn)
    return L


class _Stack:
    def __init__(self, base, base_name, layers):
        self.base, self.base_name, self.layers = base, base_name, layers
        self.base_act, self.base_obs = _sp(base.action_space), _sp(base.observation_space)
        self.act = layers[-1].act if layers else self.base_act
        self.obs = layers[-1].obs if layers else self.base_obs
        self.desc = base_name + "".join(">" + L.tag for L in layers)
        ns = [L.N for L in layers if L.N is not None]
        self.limit = min(ns) if ns else None

    def map_action(self, a):
        tol = 0.0
        if self.act[0] == "box":
            a = np.asarray(a, np.float64)
        for L in reversed(self.layers):
            if L.f is not None:
                tol = L.ftol(a, tol)
                a = L.f(a)
        return a, float(tol)

    def map_obs(self, o, tol):
        import jax

        o = jax.tree.map(lambda x: np.asarray(x, np.float64), o)
        for L in self.layers:
            if L.g is not None:
                tol = L.gtol(o, tol)
                o = L.g(o)
        return o, float(tol)

    def map_rew(self, r, tol):
        r = float(r)
        for L in self.layers:
            if L.h is not None:
                tol = L.htol(r, tol)
                r = L.h(r)
        return r, float(tol)

    def map_mask(self, m):
        if m is None:
            return None
        m = np.asarray(m)
        for L in self.layers:
            if L.m is not None:
                m = L.m(m)
        return m


def _random_layers(rng, act, obs, depth, must=()):
    layers, must = [], list(must)
    for _ in range(depth):
        L = None
        if must:
            L = _mk_layer(must[0], rng, act, obs)
            if L is not None:
                must.pop(0)
        for _try in range(20):
            if L is not None:
                break
            L = _mk_layer(KINDS[int(rng.integers(len(KINDS)))], rng, act, obs)
        if L is None:
            break
        layers.append(L)
        act, obs = L.act, L.obs
    return layers


def _build(ctx, base, layers):
    env = base
    for L in layers:
        try:
            env = L.build(env)
        except Exception as e:  # a documented wrapper that cannot be constructed is a refutation, not a crash
            ctx.violation(f"wrapper-not-constructible-{L.cls}",
                          {"wrapper": L.tag, "inner": type(env).__name__, "error": f"{type(e).__name__}: {e}"[:400]})
            return None
        ctx.monitor(f"constructed_{L.cls}")
    return env


# ------------------------------------------------------------------ observing a stack
def _comps(env, s, a, keys):
    ns = env.transition(s, a, key=keys[0])
    return dict(ns=ns, obs=env.observation(s, key=keys[1]), rew=env.reward(s, a, ns, key=keys[2]),
                term=env.terminal(ns, key=keys[3]), trunc=env.truncate(ns), sinfo=env.state_info(ns),
                tinfo=env.transition_info(s, a, ns), mask=env.action_mask(s, key=keys[4]),
                inner_s=s.unwrapped, inner_ns=ns.unwrapped)


def _base_comps(env, s, a, nbs, keys):
    """Inner environment called with the reference-mapped action; everything downstream of the
    transition is evaluated on the next inner state the real stack produced (nbs)."""
    ns = env.transition(s, a, key=keys[0])
    out = dict(ns=ns, obs=env.observation(s, key=keys[1]), rew=env.reward(s, a, nbs, key=keys[2]),
               term=env.terminal(nbs, key=keys[3]), trunc=env.truncate(nbs), sinfo=env.state_info(nbs),
               tinfo=env.transition_info(s, a, nbs), mask=env.action_mask(s, key=keys[4]))
    if hasattr(env, "term_margin"):
        out["margin"] = env.term_margin(nbs, key=keys[3])
    return out


_JIT = {}


def _fns(mode):
    import equinox as eqx

    if mode == "eager":
        return _comps, _base_comps
    if not _JIT:
        _JIT["c"], _JIT["b"] = eqx.filter_jit(_comps), eqx.filter_jit(_base_comps)
    return _JIT["c"], _JIT["b"]


def _tree_diff(real, ref, tol):
    """None if equal (floats within tol, everything else exactly), else a short description."""
    import jax

    lr, tr = jax.tree.flatten(real)
    lf, tf = jax.tree.flatten(ref)
    if len(lr) != len(lf) or (tr != tf and str(tr) != str(tf)):
        return f"structure {str(tr)[:120]} != {str(tf)[:120]}"
    for i, (x, y) in enumerate(zip(lr, lf)):
        x, y = np.asarray(x), np.asarray(y)
        if x.shape != y.shape:
            return f"leaf {i}: shape {x.shape} != {y.shape}"
        kx, ky = x.dtype.kind, y.dtype.kind
        if (kx == "f") != (ky == "f") or (kx == "b") != (ky == "b"):
            return f"leaf {i}: dtype {x.dtype} vs {y.dtype}"
        if kx == "f":
            x64, y64 = x.astype(np.float64), y.astype(np.float64)
            same = (x64 == y64) | (np.isnan(x64) & np.isnan(y64))
            with np.errstate(invalid="ignore"):
                ok = same | (np.abs(x64 - y64) <= tol)
            if not np.all(ok):
                j = int(np.argmax(~ok.ravel()))
                return f"leaf {i}[{j}]: got {x64.ravel()[j]!r} want {y64.ravel()[j]!r} tol {tol:.3g}"
        elif not np.array_equal(x, y):
            return f"leaf {i}: got {x.tolist()} want {y.tolist()}"
    return None


def _tb(ref, extra=0.0):
    return 2e-5 * (1.0 + _amax(ref)) + extra


def _gen_action(rng, act, i):
    if act[0] == "discrete":
        return int(rng.integers(act[1]))
    low, high = act[1].astype(np.float64), act[2].astype(np.float64)
    fin_l, fin_h = np.isfinite(low), np.isfinite(high)
    lo, hi = np.where(fin_l, low, -3.0), np.where(fin_h, high, 3.0)
    w = hi - lo
    shape = low.shape
    mode = i % 6
    if mode == 0:
        a = rng.uniform(lo, hi)
    elif mode == 1:
        a = np.where(fin_l, low, -5.0)
    elif mode == 2:
        a = np.where(fin_h, high, 5.0)
    elif mode == 3:
        side = rng.random(shape) < 0.5
        a = np.where(side, hi + rng.uniform(0.05, 3, shape) * w, lo - rng.uniform(0.05, 3, shape) * w)
    elif mode == 4:
        pick = rng.integers(0, 3, size=shape)
        a = np.where(pick == 0, lo, np.where(pick == 1, hi, rng.uniform(lo, hi)))
    else:
        a = rng.normal(0, 1, size=shape) * 3 * w
    return np.asarray(a, np.float32)


def _to_jax_action(a, sp):
    import jax.numpy as jnp

    if sp[0] == "discrete":
        return jnp.asarray(int(a), jnp.int32)
    return jnp.asarray(np.asarray(a, np.float32).reshape(sp[1].shape))


def _static_checks(ctx, S, W, pre):
    """Advertised spaces, unwrapped env, name, renderer pass-through."""
    ctx.monitor("static_stack_checks")
    try:
        if not _sp_eq(_sp(W.action_space), S.act):
            ctx.violation(f"{pre}-action-space-mismatch", {"stack": S.desc, "got": repr(W.action_space)[:300],
                                                          "want": [S.act[0], S.act[1], S.act[2] if len(S.act) > 2 else None]})
        if not _sp_eq(_sp(W.observation_space), S.obs):
            ctx.violation(f"{pre}-observation-space-mismatch",
                          {"stack": S.desc, "got": repr(W.observation_space)[:300], "want": str(S.obs)[:300]})
        if W.unwrapped is not S.base:
            ctx.violation(f"{pre}-unwrapped-env-not-base", {"stack": S.desc, "got": type(W.unwrapped).__name__})
        if W.name != S.base.name:
            ctx.violation(f"{pre}-name-not-passed-through", {"stack": S.desc, "got": W.name, "want": S.base.name})
    except Exception as e:
        ctx.violation(f"{pre}-attribute-access-raises", {"stack": S.desc, "error": f"{type(e).__name__}: {e}"[:300]})


def _render_check(ctx, S, W, ws, pre):
    from vlib.c13_helpers import PROBE_RENDERER

    try:
        ctx.monitor("renderer_passthrough_checks")
        if W.default_renderer() is not PROBE_RENDERER:
            ctx.violation(f"{pre}-default-renderer-not-passed-through", {"stack": S.desc})
        rec = []
        W.render(ws, rec)
        if len(rec) != 1 or not np.array_equal(rec[0][1], np.asarray(ws.unwrapped.x)):
            ctx.violation(f"{pre}-render-not-on-unwrapped-state", {"stack": S.desc, "calls": len(rec)})
    except Exception as e:
        ctx.violation(f"{pre}-render-raises", {"stack": S.desc, "error": f"{type(e).__name__}: {e}"[:300]})


def _check_initial(ctx, S, W, key, pre):
    """W.initial(key) wraps exactly base.initial(key)."""
    ws = W.initial(key=key)
    bs = S.base.initial(key=key)
    ctx.monitor("initial_checks")
    inner = ws.unwrapped
    if type(inner).__name__ != type(bs).__name__:
        ctx.violation(f"{pre}-unwrapped-state-not-base-state",
                      {"stack": S.desc, "where": "initial", "got": type(inner).__name__, "want": type(bs).__name__})
        return ws, None
    d = _tree_diff(inner, bs, 0.0)
    if d:
        ctx.violation(f"{pre}-initial-state-mismatch", {"stack": S.desc, "diff": d})
    return ws, inner


def _judge(ctx, S, real, ref, a, a_ref, tol_a, t_ep, pre, extra_cls):
    """Compare one observed step of the real stack with the reference semantics. Returns active?"""
    from vlib.common import digest

    bad = []

    def viol(key, detail):
        bad.append(key)
        ctx.violation(f"{pre}-{key}", dict(detail, stack=S.desc, action=a, mapped_action_want=a_ref, t_episode=t_ep))

    exact = tol_a == 0.0
    # --- the inner state after the transition (includes the action the inner transition received)
    inner = real["inner_ns"]
    if type(inner).__name__ != type(ref["ns"]).__name__:
        viol("unwrapped-state-not-base-state", {"got": type(inner).__name__, "want": type(ref["ns"]).__name__})
    else:
        ctx.monitor("transition_checks")
        if hasattr(inner, "a_tr"):
            got = np.asarray(inner.a_tr, np.float64)
            want = np.asarray(a_ref, np.float64).reshape(got.shape)
            if not np.all(np.abs(got - want) <= tol_a):
                viol("transition-receives-wrong-action", {"got": got, "want": want, "tol": tol_a})
        d = _tree_diff(inner, ref["ns"], _tb(ref["ns"], LIP * tol_a))
        if d and "transition-receives-wrong-action" not in bad:
            viol("transition-inner-state-mismatch", {"diff": d})
    # --- observation
    o_ref, tol_o = S.map_obs(ref["obs"], 0.0)
    ctx.monitor("observation_checks")
    d = _tree_diff(real["obs"], o_ref, tol_o + 1e-6 * (1 + _amax(o_ref)))
    if d:
        viol("observation-mismatch", {"diff": d, "inner_obs": ref["obs"]})
    # --- reward
    r_in = float(ref["rew"])
    r_ref, tol_r = S.map_rew(r_in, _tb(r_in, LIP * tol_a) if not exact else 1e-6 * (1 + abs(r_in)))
    ctx.monitor("reward_checks")
    r_got = np.asarray(real["rew"])
    if r_got.shape != () or not abs(float(r_got) - r_ref) <= tol_r + 1e-6:
        viol("reward-mismatch", {"got": r_got, "want": r_ref, "inner_reward": r_in, "tol": tol_r})
    # --- terminal / truncate
    margin = float(ref["margin"]) if "margin" in ref else 1.0
    if margin < 1e-4:
        ctx.monitor("terminal_margin_skipped")
    else:
        ctx.monitor("terminal_checks")
        if bool(real["term"]) != bool(ref["term"]) or np.asarray(real["term"]).dtype != np.bool_:
            viol("terminal-mismatch", {"got": real["term"], "want": ref["term"]})
    by_limit = S.limit is not None and t_ep + 1 >= S.limit
    want_trunc = bool(ref["trunc"]) or by_limit
    ctx.monitor("truncate_checks")
    if by_limit and not bool(ref["trunc"]):
        ctx.monitor("truncation_decided_by_limit")
    if bool(real["trunc"]) != want_trunc:
        k = "truncate-mismatch"
        if S.limit is not None and not bool(ref["trunc"]):
            k = "timelimit-truncates-early" if bool(real["trunc"]) else "timelimit-truncates-late"
        viol(k, {"got": real["trunc"], "want": want_trunc, "limit": S.limit, "inner_truncate": ref["trunc"]})
    # --- infos
    ctx.monitor("info_checks")
    d = _tree_diff(real["sinfo"], ref["sinfo"], _tb(ref["sinfo"]))
    if d:
        viol("state-info-mismatch", {"diff": d})
    if isinstance(real["tinfo"], dict) and "a" in real["tinfo"] and "a" in ref["tinfo"]:
        got, want = np.asarray(real["tinfo"]["a"], np.float64), np.asarray(ref["tinfo"]["a"], np.float64)
        if got.shape != want.shape or not np.all(np.abs(got - want) <= tol_a):
            viol("transition-info-receives-wrong-action", {"got": got, "want": want, "tol": tol_a})
    d = _tree_diff(real["tinfo"], ref["tinfo"], _tb(ref["tinfo"], LIP * tol_a))
    if d and "transition-info-receives-wrong-action" not in bad:
        viol("transition-info-mismatch", {"diff": d})
    # --- mask
    m_ref = S.map_mask(ref["mask"])
    ctx.monitor("mask_checks")
    if (real["mask"] is None) != (m_ref is None) or (m_ref is not None and not np.array_equal(np.asarray(real["mask"]), m_ref)):
        viol("action-mask-mismatch", {"got": real["mask"], "want": m_ref})
    if m_ref is not None:
        ctx.monitor("mask_checks_with_mask")
    # --- was the declared change active?
    act_active = S.act[0] != S.base_act[0] or not np.array_equal(np.asarray(a, np.float64).ravel(),
                                                                 np.asarray(a_ref, np.float64).ravel())
    o_in = [np.asarray(x, np.float64) for x in __import__("jax").tree.leaves(ref["obs"])]
    o_out = [np.asarray(x, np.float64) for x in __import__("jax").tree.leaves(o_ref)]
    obs_active = len(o_in) != len(o_out) or any(x.shape != y.shape or not np.array_equal(x, y) for x, y in zip(o_in, o_out))
    rew_active = r_ref != r_in
    mask_active = m_ref is not None and not np.array_equal(m_ref, np.asarray(ref["mask"]))
    lim_active = by_limit and not bool(ref["trunc"])
    for nm, fl in (("action", act_active), ("observation", obs_active), ("reward", rew_active),
                   ("mask", mask_active), ("limit", lim_active)):
        if fl:
            ctx.monitor(f"active_{nm}_change")
    active = act_active or obs_active or rew_active or mask_active or lim_active
    ctx.case({"stack": S.desc, "t": t_ep, "a": digest(np.asarray(a)), "s": digest(*__import__("jax").tree.leaves(real["inner_s"]))},
             nontrivial=bool(active), cls=extra_cls)
    for L in S.layers:
        ctx.monitor(f"layer_cases_{L.cls}")
    return bad


def _run_stack(ctx, S, W, n_steps, mode, pre, cls, kbase):
    """Drive the real stack along a trajectory (functional API), judging every step."""
    from jax import random as jr

    comps, bcomps = _fns(mode)
    _static_checks(ctx, S, W, pre)
    ws, bs = _check_initial(ctx, S, W, ctx.key(kbase), pre)
    if bs is None:
        return
    if hasattr(S.base, "term_margin") and mode == "eager":
        _render_check(ctx, S, W, ws, pre)
    t_ep, episodes = 0, 0
    for i in range(n_steps):
        a = _gen_action(ctx.rng, S.act, i + int(ctx.rng.integers(6)) * (i >= 6))
        try:
            a_ref, tol_a = S.map_action(a)
        except Exception as e:
            ctx.inconc(f"reference action map failed on {S.desc}: {e}")
            return
        if S.base_name.startswith("fmdp-box") and tol_a > 0:
            nA, lo, hi = S.base.nA, S.base.low, S.base.high
            pos = (float(np.asarray(a_ref).ravel()[0]) - lo) / (hi - lo) * nA
            if 0.5 < pos < nA - 0.5 and abs(pos - round(pos)) < 1e-3 * nA:
                ctx.monitor("ambiguous_bin_boundary_skipped")
                continue
        keys = jr.split(ctx.key(kbase + 1 + i), 5)
        try:
            real = comps(W, ws, _to_jax_action(a, S.act), keys)
        except Exception as e:
            ctx.violation(f"{pre}-component-raises", {"stack": S.desc, "action": a, "error": f"{type(e).__name__}: {e}"[:500]})
            return
        nbs = real["inner_ns"]
        if type(nbs).__name__ != type(bs).__name__:
            ctx.violation(f"{pre}-unwrapped-state-not-base-state",
                          {"stack": S.desc, "where": "transition", "got": type(nbs).__name__, "want": type(bs).__name__})
            return
        ref = bcomps(S.base, bs, _to_jax_action(a_ref, S.base_act), nbs, keys)
        bad = _judge(ctx, S, real, ref, a, a_ref, tol_a, t_ep, pre, cls)
        if any(b.startswith("transition") or b.startswith("unwrapped") for b in bad):
            return  # the trajectory has left the reference; later steps would only echo this
        if bool(ref["term"]) or bool(ref["trunc"]) or (S.limit is not None and t_ep + 1 >= S.limit):
            episodes += 1
            ws, bs = _check_initial(ctx, S, W, ctx.key(kbase + 500 + i), pre)
            if bs is None:
                return
            t_ep = 0
        else:
            ws, bs, t_ep = real["ns"], nbs, t_ep + 1
    ctx.monitor("episodes_restarted", episodes)


# ------------------------------------------------------------------ base environments
def _probe_base(rng, variant):
    from vlib.c13_helpers import ProbeEnv

    t_inner = int(rng.choice([0, 0, 4]))
    if variant == "probe-box":
        return ProbeEnv(rng, act_shape=(2,), obs_kind="box", t_inner=t_inner, thr=2.6)
    if variant == "probe-scalar":
        return ProbeEnv(rng, act_shape=(), obs_kind="box2d", t_inner=t_inner, thr=2.6)
    if variant == "probe-dict":
        return ProbeEnv(rng, act_shape=(3,), obs_kind="dict", t_inner=t_inner, thr=2.6)
    if variant == "probe-inf":
        olow = -rng.uniform(0.5, 1.5, size=6)
        ohigh = rng.uniform(0.5, 1.5, size=6)
        olow[[1, 3]] = -np.inf
        ohigh[[1, 4]] = np.inf
        return ProbeEnv(rng, act_shape=(2, 2), obs_kind="box", olow=olow, ohigh=ohigh, t_inner=t_inner, thr=2.6)
    raise ValueError(variant)


def _fmdp_base(rng, variant):
    from vlib.mdp import FiniteMDP, random_tables

    if variant == "fmdp-masked":
        tabs = random_tables(rng, 6, 3, p_term=0.15, p_trunc=0.1, with_masks=True)
        return FiniteMDP(tabs["P"], tabs["R"], tabs["term"], tabs["starts"], trunc=tabs["trunc"], masks=tabs["masks"])
    tabs = random_tables(rng, 6, 4, p_term=0.15, p_trunc=0.1)
    return FiniteMDP(tabs["P"], tabs["R"], tabs["term"], tabs["starts"], trunc=tabs["trunc"], kind="box",
                     box_dim=2, low=-1.5, high=0.5, obs_kind="dict" if variant == "fmdp-box-dict" else "onehot")


def _base(rng, variant):
    return _probe_base(rng, variant) if variant.startswith("probe") else _fmdp_base(rng, variant)


PROBE_VARIANTS = ["probe-box", "probe-scalar", "probe-dict", "probe-inf"]
ALL_VARIANTS = PROBE_VARIANTS + ["fmdp-masked", "fmdp-box", "fmdp-box-dict"]


def u_single(ctx):
    """Every documented wrapper alone, over every base it applies to; violation keys carry the class."""
    import lerax.wrapper as lw

    documented = [n for n in lw.__all__ if not n.startswith("Abstract")]
    ctx.notes["documented_wrappers"] = documented
    unknown = sorted(set(documented) - set(CLS.values()))
    if unknown:
        ctx.inconc(f"documented wrappers without a reference semantics in this check: {unknown}")
    reps = ctx.n(1, 6)
    steps = ctx.n(10, 18)
    k = 0
    for kind in KINDS:
        for variant in ALL_VARIANTS:
            for rep in range(reps + 2 * (kind == "transform_action" and variant == "fmdp-masked")):
                base = _base(ctx.rng, variant)
                L = _mk_layer(kind, ctx.rng, _sp(base.action_space), _sp(base.observation_space))
                if L is None:
                    continue
                S = _Stack(base, variant, [L])
                W = _build(ctx, base, [L])
                k += 1
                if W is None:
                    continue
                mode = "jit" if (k % 3 == 0) else "eager"
                _run_stack(ctx, S, W, steps, mode, L.cls.lower(), f"single/{L.cls}/{mode}", 1000 * k)
    for c in CLS.values():
        ctx.require(f"layer_cases_{c}", 5)
    for m in ("transition_checks", "observation_checks", "reward_checks", "terminal_checks", "truncate_checks",
              "info_checks", "mask_checks_with_mask", "truncation_decided_by_limit", "renderer_passthrough_checks",
              "active_action_change", "active_observation_change", "active_reward_change", "active_mask_change"):
        ctx.require(m, 3)


def u_stacks(ctx):
    """Type-directed random stacks of depth 2..4."""
    n = ctx.n(33, 330)
    steps = ctx.n(10, 16)
    for i in range(n):
        variant = ALL_VARIANTS[i % len(ALL_VARIANTS)]
        base = _base(ctx.rng, variant)
        depth = 2 + i % 3
        must = [KINDS[i % len(KINDS)]]
        if i % 4 == 0:
            must.append("timelimit")
        layers = _random_layers(ctx.rng, _sp(base.action_space), _sp(base.observation_space), depth, must)
        if len(layers) < 2:
            continue
        S = _Stack(base, variant, layers)
        W = _build(ctx, base, layers)
        if W is None:
            continue
        mode = "jit" if i % 2 else "eager"
        _run_stack(ctx, S, W, steps, mode, "stack", f"stack/depth{len(layers)}/{mode}", 1000 * (i + 1))
    for c in CLS.values():
        ctx.require(f"layer_cases_{c}", 5)
    for m in ("transition_checks", "truncation_decided_by_limit", "mask_checks_with_mask", "active_action_change",
              "active_observation_change", "active_reward_change"):
        ctx.require(m, 3)


def _classic(ctx, envs, per_env):
    """Stacks over the built-in classic-control environments (jit only: diffrax)."""
    steps = ctx.n(10, 24)
    k = 0
    for name, mk in envs:
        base = mk()
        for j in range(per_env):
            k += 1
            depth = 2 + (j % 3)
            must = []
            if _sp(base.action_space)[0] == "box":
                must = [["clip_action", "rescale_action"], ["rescale_action", "clip_action"], ["transform_action"]][j % 3]
            else:
                must = [["transform_action"], ["timelimit"], ["clip_obs"]][j % 3]
            must = must + [["timelimit"], ["clip_reward"], ["flatten_obs"]][(j + k) % 3]
            layers = _random_layers(ctx.rng, _sp(base.action_space), _sp(base.observation_space), max(depth, len(must)), must)
            S = _Stack(base, name, layers)
            W = _build(ctx, base, layers)
            if W is None:
                continue
            _run_stack(ctx, S, W, steps, "jit", "stack", f"classic/{name}", 1000 * k)
            ctx.monitor(f"classic_stacks_{name}")
    ctx.require("transition_checks", 10)
    ctx.require("active_action_change", 3)


def u_classic_box(ctx):
    from lerax.env.classic_control import ContinuousMountainCar, Pendulum

    _classic(ctx, [("Pendulum", Pendulum), ("ContinuousMountainCar", ContinuousMountainCar)], ctx.n(3, 8))


def u_classic_disc(ctx):
    from lerax.env.classic_control import Acrobot, CartPole, MountainCar

    envs = [("CartPole", CartPole), ("MountainCar", MountainCar)]
    if not ctx.quick:
        envs.append(("Acrobot", Acrobot))
    _classic(ctx, envs, ctx.n(3, 8))


# ------------------------------------------------------------------ rescale
def _rand_box(rng, shape):
    scale = 10.0 ** rng.uniform(-2, 3, size=shape)
    center = rng.normal(0, 1, size=shape) * scale * (rng.random(shape) < 0.7)
    low = (center - scale * rng.uniform(0.1, 1, size=shape)).astype(np.float32)
    high = (center + scale * rng.uniform(0.1, 1, size=shape)).astype(np.float32)
    return np.asarray(low), np.asarray(high)


def _rand_minmax(rng, shape, i):
    if i % 5 == 0:
        return None, None  # documented defaults -1, 1
    s2 = 1.0 if i % 2 else 10.0 ** rng.uniform(-1, 2)
    sh = shape if (shape and i % 3 == 0) else ()
    mn = np.asarray(rng.uniform(-3, 1, size=sh) * s2, np.float32)
    mx = (mn + np.asarray(rng.uniform(0.3, 4, size=sh) * s2, np.float32)).astype(np.float32)
    return mn, mx


def _points(rng, shape, k):
    """lambda in [0,1]^shape: all-zero, all-one, mixed corners, interior."""
    pts = [np.zeros(shape), np.ones(shape)]
    for _ in range(k):
        pts.append((rng.random(shape) < 0.5).astype(np.float64))
        pts.append(rng.uniform(0, 1, size=shape))
    return pts


def u_rescale(ctx):
    import equinox as eqx
    import jax.numpy as jnp
    from jax import random as jr
    from lerax import wrapper as lw
    from lerax.space import Box
    from lerax.wrapper.utils import rescale_box
    from vlib.c13_helpers import ProbeEnv
    from vlib.common import digest

    n = ctx.n(60, 500)
    stats = {"bounds": 0, "bit_exact": 0, "outside_inner_box": 0, "max_err_over_tol": 0.0}

    def judge(kind, key_pre, got, want, tol, lam, desc, scale_desc):
        got = np.asarray(got, np.float64).reshape(np.shape(want))
        corner = bool(np.all((lam == 0) | (lam == 1)))
        ctx.monitor(f"rescale_{kind}_{'bound' if corner else 'interior'}_points")
        err = np.abs(got - want)
        if corner:
            stats["bounds"] += got.size
            stats["bit_exact"] += int(np.sum(got.astype(np.float32) == want.astype(np.float32)))
        with np.errstate(divide="ignore", invalid="ignore"):
            stats["max_err_over_tol"] = max(stats["max_err_over_tol"], float(np.max(err / tol)))
        ctx.case(dict(desc, kind=kind, lam=digest(lam)), nontrivial=True, cls=f"rescale/{kind}/{'bound' if corner else 'interior'}")
        if not np.all(err <= tol):
            ctx.violation(f"{key_pre}-{'bounds-not-onto-bounds' if corner else 'not-affine'}",
                          dict(scale_desc, got=got, want=want, tol=tol, lam=lam))

    for i in range(n):
        shape = [(), (1,), (3,), (2, 2)][i % 4]
        low, high = _rand_box(ctx.rng, shape)
        mn, mx = _rand_minmax(ctx.rng, shape, i)
        mn_e = np.float32(-1.0) if mn is None else mn
        mx_e = np.float32(1.0) if mx is None else mx
        mnb = np.broadcast_to(mn_e, shape).astype(np.float64)
        mxb = np.broadcast_to(mx_e, shape).astype(np.float64)
        lo, hi = low.astype(np.float64), high.astype(np.float64)
        ratio = (hi - lo) / (mxb - mnb)
        tol_back = 8 * EPS * (np.abs(lo) + np.abs(hi) + (np.abs(mnb) + np.abs(mxb)) * ratio)
        tol_fwd = 8 * EPS * (np.abs(mnb) + np.abs(mxb) + (np.abs(lo) + np.abs(hi)) / ratio)
        sd = {"low": low, "high": high, "min": mn_e, "max": mx_e}
        desc = {"i": i, "shape": list(shape), "h": digest(low, high, mnb)}
        pts = _points(ctx.rng, shape, 2)
        # --- A: the helper itself
        try:
            res = rescale_box(Box(low, high), jnp.asarray(mn_e), jnp.asarray(mx_e))
            if not _sp_eq(_sp(res.box), ("box", mnb.astype(np.float32), mxb.astype(np.float32))):
                ctx.violation("rescale-box-space-mismatch", dict(sd, got=repr(res.box)))
            for lam in pts:
                judge("box_forward", "rescale-box-forward", res.forward(jnp.asarray((lo + lam * (hi - lo)).astype(np.float32))),
                      mnb + ((lo + lam * (hi - lo)).astype(np.float32).astype(np.float64) - lo) / ratio, tol_fwd, lam, desc, sd)
                x = (mnb + lam * (mxb - mnb)).astype(np.float32)
                judge("box_backward", "rescale-box-backward", res.backward(jnp.asarray(x)),
                      lo + (x.astype(np.float64) - mnb) * ratio, tol_back, lam, desc, sd)
        except Exception as e:
            ctx.violation("rescale-box-raises", dict(sd, error=f"{type(e).__name__}: {e}"[:300]))
        # --- B: RescaleAction, action received by the inner transition / info / reward
        try:
            base = ProbeEnv(ctx.rng, act_shape=shape, alow=low, ahigh=high)
            W = lw.RescaleAction(base) if mn is None else lw.RescaleAction(base, jnp.asarray(mn), jnp.asarray(mx))
            ctx.monitor("constructed_RescaleAction")
            if not _sp_eq(_sp(W.action_space), ("box", mnb.astype(np.float32), mxb.astype(np.float32))):
                ctx.violation("rescaleaction-space-mismatch", dict(sd, got=repr(W.action_space)))
            ws = W.initial(key=ctx.key(10 * i))
            for j, lam in enumerate(pts):
                x = (mnb + lam * (mxb - mnb)).astype(np.float32)
                want = lo + (x.astype(np.float64) - mnb) * ratio
                k1, k2 = jr.split(ctx.key(10 * i + 1 + j))
                ns = W.transition(ws, jnp.asarray(x), key=k1)
                got = np.asarray(ns.unwrapped.a_tr, np.float64).reshape(shape)
                judge("action_transition", "rescaleaction-transition", got, want, tol_back, lam, desc, sd)
                judge("action_info", "rescaleaction-transition-info", W.transition_info(ws, jnp.asarray(x), ns)["a"],
                      want, tol_back, lam, desc, sd)
                if np.all((lam == 0) | (lam == 1)):
                    stats["outside_inner_box"] += int(np.sum((got.astype(np.float32) < low) | (got.astype(np.float32) > high)))
                r = float(W.reward(ws, jnp.asarray(x), ns, key=k2))
                r_ref = float(base.reward(ws.unwrapped, jnp.asarray(want.astype(np.float32)), ns.unwrapped, key=k2))
                ctx.monitor("rescale_reward_points")
                if abs(r - r_ref) > 2e-5 * (1 + abs(r_ref)) + float(np.sum(np.abs(np.asarray(base.u)).reshape(-1) * tol_back.reshape(-1))):
                    ctx.violation("rescaleaction-reward-uses-other-action", dict(sd, action=x, got=r, want=r_ref))
        except Exception as e:
            ctx.violation("rescaleaction-raises", dict(sd, error=f"{type(e).__name__}: {e}"[:300]))
        # --- C: RescaleObservation on a 6-vector / 2x3 observation box
        try:
            oshape, okind = ((6,), "box") if i % 2 else ((2, 3), "box2d")
            olow, ohigh = _rand_box(ctx.rng, (6,))
            omn, omx = _rand_minmax(ctx.rng, oshape, i + 1)
            omn_e = np.float32(-1.0) if omn is None else omn
            omx_e = np.float32(1.0) if omx is None else omx
            omnb = np.broadcast_to(omn_e, oshape).astype(np.float64)
            omxb = np.broadcast_to(omx_e, oshape).astype(np.float64)
            olo, ohi = olow.reshape(oshape).astype(np.float64), ohigh.reshape(oshape).astype(np.float64)
            grad = (omxb - omnb) / (ohi - olo)
            tol_o = 8 * EPS * (np.abs(omnb) + np.abs(omxb) + (np.abs(olo) + np.abs(ohi)) * grad)
            base = ProbeEnv(ctx.rng, obs_kind=okind, olow=olow, ohigh=ohigh, obs_noise=0.0)
            W = lw.RescaleObservation(base) if omn is None else lw.RescaleObservation(base, jnp.asarray(omn), jnp.asarray(omx))
            ctx.monitor("constructed_RescaleObservation")
            osd = {"low": olow, "high": ohigh, "min": omn_e, "max": omx_e}
            if not _sp_eq(_sp(W.observation_space), ("box", omnb.astype(np.float32), omxb.astype(np.float32))):
                ctx.violation("rescaleobservation-space-mismatch", dict(osd, got=repr(W.observation_space)))
            ws = W.initial(key=ctx.key(10 * i + 7))
            for lam in _points(ctx.rng, oshape, 2):
                x = (olo + lam * (ohi - olo)).astype(np.float32)
                ws2 = eqx.tree_at(lambda s: s.env_state.x, ws, jnp.asarray(x.reshape(6)))
                got = W.observation(ws2, key=ctx.key(3))
                want = omnb + (x.astype(np.float64) - olo) * grad
                judge("observation", "rescaleobservation", got, want, tol_o, lam, {"i": i, "o": digest(olow, ohigh, omnb)}, osd)
        except Exception as e:
            ctx.violation("rescaleobservation-raises", {"error": f"{type(e).__name__}: {e}"[:300]})
    # --- built-in bounded observation boxes with the documented defaults
    from lerax.env.classic_control import Acrobot, MountainCar, Pendulum

    for mk in (MountainCar, Pendulum, Acrobot):
        try:
            base = mk()
            W = lw.RescaleObservation(base)
            sp = _sp(base.observation_space)
            lo, hi = sp[1].astype(np.float64), sp[2].astype(np.float64)
            for j in range(ctx.n(4, 20)):
                ws = W.initial(key=ctx.key(900 + j))
                o = np.asarray(base.observation(ws.unwrapped, key=ctx.key(1)), np.float64)
                want = -1.0 + (o - lo) * 2.0 / (hi - lo)
                got = np.asarray(W.observation(ws, key=ctx.key(1)), np.float64)
                ctx.monitor("rescale_builtin_observation_points")
                ctx.case({"env": base.name, "j": j, "o": digest(o)}, nontrivial=True, cls=f"rescale/builtin/{base.name}")
                if not np.all(np.abs(got - want) <= 8 * EPS * (2 + (np.abs(lo) + np.abs(hi)) * 2 / (hi - lo))):
                    ctx.violation("rescaleobservation-not-affine", {"env": base.name, "obs": o, "got": got, "want": want})
        except Exception as e:
            ctx.violation("rescaleobservation-raises", {"env": mk.__name__, "error": f"{type(e).__name__}: {e}"[:300]})
    # --- target ranges given as whole numbers (Python ints, integer arrays): the same affine map as with floats
    from lerax.env.classic_control import ContinuousMountainCar

    for mk in (Pendulum, Acrobot, MountainCar, ContinuousMountainCar):
        for how in ("py-int", "int-array", "np-int"):
            a, b = int(ctx.rng.integers(-5, 1)), int(ctx.rng.integers(2, 11))
            cast = {"py-int": lambda v: v, "int-array": lambda v: jnp.asarray(v), "np-int": lambda v: np.int64(v)}[how]
            try:
                base = mk()
                Wi, Wf = lw.RescaleObservation(base, cast(a), cast(b)), lw.RescaleObservation(base, float(a), float(b))
                sp = _sp(base.observation_space)
                lo, hi = sp[1].astype(np.float64), sp[2].astype(np.float64)
                if not _sp_eq(_sp(Wi.observation_space), _sp(Wf.observation_space)):
                    ctx.violation("rescaleobservation-space-mismatch", {"env": base.name, "min": a, "max": b, "bounds_given_as": how,
                                                                        "got": repr(Wi.observation_space)})
                for j in range(ctx.n(2, 8)):
                    ws = Wi.initial(key=ctx.key(950 + j))
                    o = np.asarray(base.observation(ws.unwrapped, key=ctx.key(1)), np.float64)
                    want = a + (o - lo) * (b - a) / (hi - lo)
                    got = np.asarray(Wi.observation(ws, key=ctx.key(1)), np.float64)
                    ctx.monitor("rescale_integer_bounds_points")
                    ctx.case({"env": base.name, "j": j, "min": a, "max": b, "as": how}, nontrivial=True, cls=f"rescale/integer-bounds/{base.name}/{how}")
                    if not np.all(np.abs(got - want) <= 8 * EPS * (abs(a) + abs(b) + (np.abs(lo) + np.abs(hi)) * (b - a) / (hi - lo))):
                        ctx.violation("rescaleobservation-not-affine", {"env": base.name, "obs": o, "got": got, "want": want,
                                                                        "min": a, "max": b, "bounds_given_as": how})
                if mk in (Pendulum, ContinuousMountainCar):
                    Ai = lw.RescaleAction(base, cast(a), cast(b))
                    asp = _sp(base.action_space)
                    alo, ahi = asp[1].astype(np.float64), asp[2].astype(np.float64)
                    ws = Ai.initial(key=ctx.key(960))
                    for lam in (0.0, 0.3, 1.0):
                        x = np.full(alo.shape, a + lam * (b - a), np.float32)
                        want_a = alo + (x.astype(np.float64) - a) * (ahi - alo) / (b - a)
                        ref_state = base.transition(ws.unwrapped, jnp.asarray(want_a.astype(np.float32)), key=ctx.key(2))
                        got_state = Ai.transition(ws, jnp.asarray(x), key=ctx.key(2)).unwrapped
                        ctx.monitor("rescale_integer_bounds_points")
                        d = _tree_diff(got_state, ref_state, 1e-5)
                        if d:
                            ctx.violation("rescaleaction-transition", {"env": base.name, "min": a, "max": b, "bounds_given_as": how,
                                                                       "action": x, "inner_action_wanted": want_a, "diff": d})
            except Exception as e:
                ctx.violation("rescale-integer-bounds-raises", {"env": mk.__name__, "bounds_given_as": how, "min": a, "max": b,
                                                                "error": f"{type(e).__name__}: {e}"[:300]})
    ctx.require("rescale_integer_bounds_points", 20)
    ctx.notes["rescale_bound_stats"] = stats
    for m in ("rescale_box_forward_bound_points", "rescale_box_backward_bound_points", "rescale_action_transition_bound_points",
              "rescale_action_info_bound_points", "rescale_observation_bound_points", "rescale_action_transition_interior_points",
              "rescale_observation_interior_points", "rescale_reward_points"):
        ctx.require(m, 20)


# ------------------------------------------------------------------ TimeLimit
NS_CHAIN = 12


def _chain(L, kind, two_starts, starts=None):
    """Chain MDP 0 -> 1 -> ... whose inner episode ends (terminal or inner truncation) on entering state L."""
    from vlib.mdp import FiniteMDP

    P = np.minimum(np.arange(NS_CHAIN)[:, None] + 1, NS_CHAIN - 1).repeat(2, axis=1)
    R = np.arange(NS_CHAIN * 2, dtype=np.float32).reshape(NS_CHAIN, 2) / 10
    end = np.zeros(NS_CHAIN, bool)
    end[L] = True
    none = np.zeros(NS_CHAIN, bool)
    if starts is None:
        starts = [0, 1] if (two_starts and L >= 2) else [0, 0]
    return FiniteMDP(P, R, end if kind == "terminal" else none, starts, trunc=end if kind == "truncate" else none)


def _tl_episode_walk(ctx, W, N, L, kind, wrap, n_eps, key0, inner_of=lambda s: s.unwrapped):
    """Drive W through `step`; W = (wrappers around) TimeLimit(chain(L, kind), N). One case per episode."""
    import jax.numpy as jnp

    def counts(state):
        out, s = [], state
        while hasattr(s, "env_state"):
            if hasattr(s, "step_count"):
                out.append(int(s.step_count))
            s = s.env_state
        return out

    state, _, _ = W.reset(key=ctx.key(key0))
    ctx.monitor("timelimit_resets")
    ep, t, k = 0, 0, 0
    s_in = int(inner_of(state).s)
    start = s_in
    if any(c != 0 for c in counts(state)):
        ctx.violation("timelimit-count-not-zero-after-reset", {"N": N, "counts": counts(state)})
    ok = True
    while ep < n_eps and k < 200:
        k += 1
        state, _, r, term, trunc, _ = W.step(state, jnp.asarray(k % 2, jnp.int32), key=ctx.key(key0 + k))
        ctx.monitor("timelimit_steps")
        t += 1
        s_next = s_in + 1
        inner_end = s_next == L
        want_term = inner_end and kind == "terminal"
        want_trunc = (inner_end and kind == "truncate") or t >= N
        if bool(term) != want_term:
            ok = False
            ctx.violation("timelimit-changes-termination", {"N": N, "L": L, "kind": kind, "wrap": wrap, "episode": ep,
                                                            "step_in_episode": t, "got": bool(term), "want": want_term})
        if bool(trunc) != want_trunc:
            ok = False
            if bool(trunc) and t < N:
                key = "timelimit-truncates-early"
            elif not bool(trunc) and t >= N:
                key = "timelimit-truncates-late"
            else:
                key = "timelimit-drops-inner-truncation"
            ctx.violation(key, {"N": N, "L": L, "inner_end": kind, "wrap": wrap, "episode": ep, "start": start,
                                "step_in_episode": t, "got": bool(trunc), "want": want_trunc})
        if not ok:
            break  # reference and real env disagree about the episode boundary: later steps would only echo this
        if t >= N and not (inner_end):
            ctx.monitor("timelimit_limit_decided")
        if inner_end and t < N:
            ctx.monitor("timelimit_inner_end_before_limit")
        if want_term or want_trunc:
            # `step` has reset: the returned state is the start of a fresh episode
            ctx.case({"N": N, "L": L, "inner_end": kind, "wrap": wrap, "episode": ep, "start": start, "len": t},
                     nontrivial=True, cls=f"timelimit/{wrap}/{'limit' if t >= N else 'inner'}-ends")
            cs, inner = counts(state), inner_of(state)
            if any(c != 0 for c in cs) or int(inner.t) != 0:
                ok = False
                ctx.violation("timelimit-count-not-restarted-on-reset", {"N": N, "L": L, "episode": ep, "counts": cs,
                                                                         "inner_t": int(inner.t)})
            ctx.monitor("timelimit_episode_boundaries")
            ep, t = ep + 1, 0
            s_in = start = int(inner.s)
        else:
            s_in = s_next
            cs = counts(state)
            if any(c != t for c in cs):
                ok = False
                ctx.violation("timelimit-count-wrong-mid-episode", {"N": N, "L": L, "t": t, "counts": cs})
        if not ok:
            break
    return ok


def u_timelimit(ctx):
    import equinox as eqx
    import jax
    import jax.numpy as jnp
    from jax import random as jr
    from lerax import wrapper as lw

    n_eps = ctx.n(3, 5)
    # --- A: N x L x inner end kind through `step`, >= 3 consecutive episodes
    kb = 0
    for N in range(1, 9):
        for L in range(1, 11):
            for kind in ("terminal", "truncate"):
                kb += 1
                env = _chain(L, kind, two_starts=(N + L) % 2 == 0)
                try:
                    W = lw.TimeLimit(env, N)
                except Exception as e:
                    ctx.violation("wrapper-not-constructible-TimeLimit", {"N": N, "error": f"{type(e).__name__}: {e}"[:300]})
                    continue
                ctx.monitor("constructed_TimeLimit")
                _tl_episode_walk(ctx, W, N, L, kind, "plain", n_eps, 300 * kb)
    # --- B: TimeLimit inside / outside other wrappers, nested limits
    wraps = {
        "identity-outside": lambda e, N: lw.Identity(lw.TimeLimit(e, N)),
        "identity-inside": lambda e, N: lw.TimeLimit(lw.Identity(e), N),
        "reward-obs-outside": lambda e, N: lw.ClipObservation(lw.TransformReward(lw.TimeLimit(e, N), lambda r: -r)),
        "nested-looser-outside": lambda e, N: lw.TimeLimit(lw.TimeLimit(e, N), N + 2),
        "nested-tighter-outside": lambda e, N: lw.TimeLimit(lw.TimeLimit(e, N + 3), N),
    }
    for wname, mk in wraps.items():
        for N, L, kind in [(1, 3, "terminal"), (2, 5, "truncate"), (3, 3, "terminal"), (4, 2, "terminal"),
                           (5, 9, "truncate"), (7, 10, "terminal")][: ctx.n(4, 6)]:
            kb += 1
            try:
                W = mk(_chain(L, kind, True), N)
            except Exception as e:
                ctx.violation("timelimit-stack-not-constructible", {"wrap": wname, "error": f"{type(e).__name__}: {e}"[:300]})
                continue
            _tl_episode_walk(ctx, W, N, L, kind, wname, n_eps, 300 * kb)
    # --- C: functional API: truncate(state after k transitions) is (k >= N), on an env that never ends by itself
    env = _chain(NS_CHAIN - 1, "terminal", False)
    for N in range(1, ctx.n(6, 9)):
        W = lw.TimeLimit(env, N)
        s = W.initial(key=ctx.key(9000 + N))
        for k in range(0, N + 1):
            got = bool(W.truncate(s))
            ctx.monitor("timelimit_functional_truncate_checks")
            ctx.case({"api": "functional", "N": N, "k": k}, nontrivial=(k >= N - 1), cls="timelimit/functional")
            if got != (k >= N):
                ctx.violation("timelimit-truncates-early" if got else "timelimit-truncates-late",
                              {"api": "functional", "N": N, "transitions": k, "got": got, "step_count": int(s.step_count)})
            if int(s.step_count) != k:
                ctx.violation("timelimit-count-wrong-mid-episode", {"api": "functional", "N": N, "k": k, "count": int(s.step_count)})
            s = W.transition(s, jnp.asarray(0), key=ctx.key(k))
    # --- D: vmapped environments keep their own counters (episodes de-synchronise through two start states)
    E = 6
    for N, L, st in [(4, 5, [0, 3]), (2, 4, [0, 3]), (3, 6, [0, 4])][: ctx.n(2, 3)]:
        W = lw.TimeLimit(_chain(L, "terminal", True, starts=st), N)
        states = jax.vmap(lambda k: W.initial(key=k))(jr.split(ctx.key(9500 + N), E))
        vstep = eqx.filter_jit(jax.vmap(lambda s, a, k: W.step(s, a, key=k)))
        t = np.zeros(E, int)
        s_in = np.asarray(states.env_state.s).copy()
        for k in range(ctx.n(20, 40)):
            states, _, _, term, trunc, _ = vstep(states, jnp.zeros(E, jnp.int32), jr.split(ctx.key(9600 + 50 * N + k), E))
            t += 1
            s_in = s_in + 1
            want_term = s_in == L
            want_trunc = t >= N
            ctx.monitor("timelimit_vmap_steps", E)
            if not np.array_equal(np.asarray(trunc), want_trunc) or not np.array_equal(np.asarray(term), want_term):
                ctx.violation("timelimit-vmap-per-env-flags-wrong", {"N": N, "L": L, "k": k, "trunc": np.asarray(trunc),
                                                                  "want_trunc": want_trunc, "term": np.asarray(term), "want_term": want_term})
                break
            done = want_term | want_trunc
            if done.any() and not done.all():
                ctx.monitor("timelimit_vmap_desynchronised_boundaries")
            t[done] = 0
            s_in = np.where(done, np.asarray(states.env_state.s), s_in)
            ctx.case({"api": "vmap", "N": N, "L": L, "k": k}, nontrivial=bool(done.any()), cls="timelimit/vmap")
    for m, k in (("timelimit_limit_decided", 50), ("timelimit_inner_end_before_limit", 50), ("timelimit_episode_boundaries", 200),
                 ("timelimit_functional_truncate_checks", 10), ("timelimit_vmap_desynchronised_boundaries", 1)):
        ctx.require(m, k)


# ------------------------------------------------------------------ adapters
def _twin_fns():
    import equinox as eqx

    if "twin" not in _JIT:
        def twin(env, s, a, key):
            ns = env.transition(s, a, key=key)
            return dict(ns=ns, rew=env.reward(s, a, ns, key=key), term=env.terminal(ns, key=key),
                        trunc=env.truncate(ns), obs_n=env.observation(ns, key=key))

        _JIT["twin"] = eqx.filter_jit(twin)
        _JIT["obs"] = eqx.filter_jit(lambda env, s, key: env.observation(s, key=key))
    return _JIT["twin"], _JIT["obs"]


def _lerax_adaptees(ctx, thorough_extra=True):
    """(name, env, fresh(state) -> bool: is this the first state of an episode)"""
    from lerax import wrapper as lw
    from lerax.env.classic_control import Acrobot, CartPole, ContinuousMountainCar, MountainCar, Pendulum

    classic_fresh = lambda s: float(s.unwrapped.t) == 0.0  # noqa: E731
    out = [("CartPole", CartPole(), classic_fresh),
           ("TimeLimit(Pendulum,5)", lw.TimeLimit(Pendulum(), 5), classic_fresh),
           ("TimeLimit(MountainCar,4)", lw.TimeLimit(MountainCar(), 4), classic_fresh),
           ("TimeLimit(chain,3)", lw.TimeLimit(_chain(5, "terminal", True, starts=[0, 3]), 3),
            lambda s: int(s.unwrapped.t) == 0 and int(s.unwrapped.s) in (0, 3))]
    if not ctx.quick and thorough_extra:
        out += [("TimeLimit(ContinuousMountainCar,6)", lw.TimeLimit(ContinuousMountainCar(), 6), classic_fresh),
                ("TimeLimit(Acrobot,6)", lw.TimeLimit(Acrobot(), 6), classic_fresh),
                ("MountainCar", MountainCar(), classic_fresh)]
    return out


def _adaptee_action(rng, sp, i):
    if sp[0] == "discrete":
        return int(rng.integers(sp[1]))
    return _gen_action(rng, sp, i % 4)  # inside, at the bounds, beyond the bounds


def _space_vs_foreign(ctx, key, lerax_sp, foreign, name):
    """Foreign (Gymnasium / Gymnax) space advertises the same set as the lerax space."""
    ctx.monitor("adapter_space_checks")
    ok = True
    if lerax_sp[0] == "discrete":
        ok = type(foreign).__name__ == "Discrete" and int(foreign.n) == lerax_sp[1]
    elif lerax_sp[0] == "box":
        ok = (type(foreign).__name__ == "Box" and tuple(foreign.shape) == lerax_sp[1].shape
              and np.array_equal(np.broadcast_to(np.asarray(foreign.low, np.float32), lerax_sp[1].shape), lerax_sp[1])
              and np.array_equal(np.broadcast_to(np.asarray(foreign.high, np.float32), lerax_sp[2].shape), lerax_sp[2]))
    if not ok:
        ctx.violation(key, {"env": name, "got": repr(foreign)[:200], "want": _sp_desc(lerax_sp)})


def u_lerax2gym(ctx):
    """LeraxToGymEnv vs the adapted env's own functional API, stepped from the adapter's state."""
    import jax.numpy as jnp
    from jax import random as jr
    from lerax.compatibility.gym import LeraxToGymEnv
    from vlib.common import digest

    twin, obs_of = _twin_fns()
    n_steps = ctx.n(40, 150)
    kk = jr.key(0)
    for name, env, fresh in _lerax_adaptees(ctx):
        pre = "lerax-to-gym"
        try:
            g = LeraxToGymEnv(env)
        except Exception as e:
            ctx.violation(f"{pre}-not-constructible", {"env": name, "error": f"{type(e).__name__}: {e}"[:300]})
            continue
        asp, osp = _sp(env.action_space), _sp(env.observation_space)
        _space_vs_foreign(ctx, f"{pre}-action-space-mismatch", asp, g.action_space, name)
        _space_vs_foreign(ctx, f"{pre}-observation-space-mismatch", osp, g.observation_space, name)
        try:
            seed = int(ctx.rng.integers(1, 2**30))
            o, info = g.reset(seed=seed)
            first = np.asarray(o).copy()
            o_b, _ = g.reset(seed=seed)
            o_c, _ = g.reset(seed=seed + 1)
            ctx.monitor("adapter_seed_checks")
            if not np.array_equal(first, np.asarray(o_b)):
                ctx.violation(f"{pre}-reset-seed-not-reproducible", {"env": name, "seed": seed, "a": first, "b": o_b})
            if not name.startswith("TimeLimit(chain") and np.array_equal(first, np.asarray(o_c)):
                ctx.violation(f"{pre}-reset-seed-ignored", {"env": name, "seed": seed, "obs": first})
            o, info = g.reset(seed=seed)
            s = g.state
            if not isinstance(o, np.ndarray) or not fresh(s):
                ctx.violation(f"{pre}-reset-output-wrong", {"env": name, "type": type(o).__name__, "fresh": bool(fresh(s))})
            d = _tree_diff(o, obs_of(env, s, kk), 1e-6 * (1 + _amax(o)))
            if d:
                ctx.violation(f"{pre}-reset-observation-not-of-state", {"env": name, "diff": d})
            eps = 0
            restarts = []
            for i in range(n_steps):
                a = _adaptee_action(ctx.rng, asp, i)
                ref = twin(env, s, _to_jax_action(a, asp), kk)
                o, r, te, tr, info = g.step(a if asp[0] == "discrete" else np.asarray(a, np.float32))
                ctx.monitor("adapter_steps")
                done_ref = bool(ref["term"]) or bool(ref["trunc"])
                ctx.case({"adapter": "LeraxToGymEnv", "env": name, "i": i, "a": digest(np.asarray(a)),
                          "s": digest(*__import__("jax").tree.leaves(s))}, nontrivial=done_ref, cls=f"lerax2gym/{name}")
                if not (isinstance(r, float) and isinstance(te, bool) and isinstance(tr, bool) and isinstance(o, np.ndarray)):
                    ctx.violation(f"{pre}-step-output-types", {"env": name, "types": [type(x).__name__ for x in (o, r, te, tr)]})
                if te != bool(ref["term"]) or tr != bool(ref["trunc"]):
                    ctx.violation(f"{pre}-done-flags-mismatch", {"env": name, "i": i, "action": a, "got": [te, tr],
                                                                 "want": [bool(ref["term"]), bool(ref["trunc"])]})
                    break
                if abs(r - float(ref["rew"])) > 1e-5 * (1 + abs(float(ref["rew"]))):
                    ctx.violation(f"{pre}-reward-mismatch", {"env": name, "i": i, "action": a, "got": r, "want": float(ref["rew"])})
                if done_ref:
                    eps += 1
                    ctx.monitor("adapter_episode_boundaries")
                    s = g.state
                    restarts.append(digest(*__import__("jax").tree.leaves(s.unwrapped)))
                    if not fresh(s):
                        ctx.violation(f"{pre}-no-fresh-episode-after-done", {"env": name, "i": i})
                    d = _tree_diff(o, obs_of(env, s, kk), 1e-6 * (1 + _amax(o)))
                    if d:
                        ctx.violation(f"{pre}-post-reset-observation-not-of-state", {"env": name, "i": i, "diff": d})
                else:
                    d = _tree_diff(g.state, ref["ns"], _tb(ref["ns"])) or _tree_diff(o, ref["obs_n"], _tb(ref["obs_n"]))
                    if d:
                        ctx.violation(f"{pre}-trajectory-diverges-from-twin", {"env": name, "i": i, "action": a, "diff": d})
                        break
                    s = g.state
            # the adapter's hidden key must advance: with a continuous initial law the episodes it restarts on its
            # own (no reset() in between) begin in pairwise different states, as the adapted env's do under new keys
            own = [digest(*__import__("jax").tree.leaves(env.initial(key=jr.key(1000 + j)).unwrapped)) for j in range(8)]
            if len(set(own)) == len(own) and len(restarts) >= 3:
                ctx.monitor("adapter_restart_sets_judged")
                if len(set(restarts)) < len(restarts):
                    ctx.violation(f"{pre}-auto-restarted-episodes-begin-in-identical-states",
                                  {"env": name, "restarts": len(restarts), "distinct": len(set(restarts))})
            # re-seeding a *used* adapter, including the seed 0 (falsy) and the same seed twice in a row
            for sd in (0, 1, 0, seed, 0):
                oa, _ = g.reset(seed=sd)
                oa = np.asarray(oa).copy()
                for _ in range(3):
                    a = _adaptee_action(ctx.rng, asp, 0)
                    g.step(a if asp[0] == "discrete" else np.asarray(a, np.float32))
                ob, _ = g.reset(seed=sd)
                of, _ = LeraxToGymEnv(env).reset(seed=sd)
                ctx.monitor("used_adapter_reseed_checks")
                if not np.array_equal(oa, np.asarray(ob)) or not np.array_equal(oa, np.asarray(of)):
                    ctx.violation(f"{pre}-reset-seed-not-reproducible",
                                  {"env": name, "seed": sd, "used_adapter_first": oa, "used_adapter_second": ob, "fresh_adapter": of})
                    break
        except Exception as e:
            ctx.violation(f"{pre}-raises", {"env": name, "error": f"{type(e).__name__}: {e}"[:400]})
    ctx.require("adapter_steps", 100)
    ctx.require("adapter_episode_boundaries", 10)
    ctx.require("used_adapter_reseed_checks", 5)
    ctx.require("adapter_restart_sets_judged", 2)


def u_lerax2gymnax(ctx):
    """LeraxToGymnaxEnv vs the adapted env's own functional API, stepped from the adapter's state."""
    from jax import random as jr
    from lerax.compatibility.gymnax import LeraxToGymnaxEnv
    from vlib.common import digest

    twin, obs_of = _twin_fns()
    n_steps = ctx.n(40, 150)
    kk = jr.key(0)
    pre = "lerax-to-gymnax"
    for ei, (name, env, fresh) in enumerate(_lerax_adaptees(ctx)):
        try:
            g = LeraxToGymnaxEnv(env)
            params = g.default_params
        except Exception as e:
            ctx.violation(f"{pre}-not-constructible", {"env": name, "error": f"{type(e).__name__}: {e}"[:300]})
            continue
        asp, osp = _sp(env.action_space), _sp(env.observation_space)
        try:
            _space_vs_foreign(ctx, f"{pre}-action-space-mismatch", asp, g.action_space(params), name)
            _space_vs_foreign(ctx, f"{pre}-observation-space-mismatch", osp, g.observation_space(params), name)
            if g.name != env.name:
                ctx.violation(f"{pre}-name-mismatch", {"got": g.name, "want": env.name})
            k0 = ctx.key(100 * ei)
            o, st = g.reset(k0, params)
            o2, st2 = g.reset(k0, params)
            o3, _ = g.reset(ctx.key(100 * ei + 1), params)
            ctx.monitor("adapter_seed_checks")
            if _tree_diff((o, st.env_state), (o2, st2.env_state), 0.0):
                ctx.violation(f"{pre}-reset-key-not-reproducible", {"env": name})
            if not name.startswith("TimeLimit(chain") and np.array_equal(np.asarray(o), np.asarray(o3)):
                ctx.violation(f"{pre}-reset-key-ignored", {"env": name})
            if not fresh(st.env_state) or int(st.time) != 0:
                ctx.violation(f"{pre}-reset-output-wrong", {"env": name, "time": int(st.time)})
            d = _tree_diff(o, obs_of(env, st.env_state, kk), 1e-6 * (1 + _amax(o)))
            if d:
                ctx.violation(f"{pre}-reset-observation-not-of-state", {"env": name, "diff": d})
            for i in range(n_steps):
                a = _adaptee_action(ctx.rng, asp, i)
                aj = _to_jax_action(a, asp)
                ref = twin(env, st.env_state, aj, kk)
                o, st_n, r, done, info = g.step(ctx.key(100 * ei + 2 + i), st, aj, params)
                ctx.monitor("adapter_steps")
                done_ref = bool(ref["term"]) or bool(ref["trunc"])
                ctx.case({"adapter": "LeraxToGymnaxEnv", "env": name, "i": i, "a": digest(np.asarray(a)),
                          "s": digest(*__import__("jax").tree.leaves(st.env_state))}, nontrivial=done_ref, cls=f"lerax2gymnax/{name}")
                if bool(done) != done_ref:
                    ctx.violation(f"{pre}-done-flag-mismatch", {"env": name, "i": i, "action": a, "got": bool(done),
                                                                "want_term_trunc": [bool(ref["term"]), bool(ref["trunc"])]})
                    break
                if abs(float(r) - float(ref["rew"])) > 1e-5 * (1 + abs(float(ref["rew"]))):
                    ctx.violation(f"{pre}-reward-mismatch", {"env": name, "i": i, "action": a, "got": float(r), "want": float(ref["rew"])})
                if done_ref:
                    ctx.monitor("adapter_episode_boundaries")
                    if not fresh(st_n.env_state) or int(st_n.time) != 0:
                        ctx.violation(f"{pre}-no-fresh-episode-after-done", {"env": name, "i": i, "time": int(st_n.time)})
                    d = _tree_diff(o, obs_of(env, st_n.env_state, kk), 1e-6 * (1 + _amax(o)))
                    if d:
                        ctx.violation(f"{pre}-post-reset-observation-not-of-state", {"env": name, "i": i, "diff": d})
                else:
                    d = (_tree_diff(st_n.env_state, ref["ns"], _tb(ref["ns"])) or _tree_diff(o, ref["obs_n"], _tb(ref["obs_n"])))
                    if d:
                        ctx.violation(f"{pre}-trajectory-diverges-from-twin", {"env": name, "i": i, "action": a, "diff": d})
                        break
                    if int(st_n.time) != int(st.time) + 1:
                        ctx.violation(f"{pre}-time-not-incremented", {"env": name, "i": i, "time": int(st_n.time)})
                    go = g.get_obs(st_n, params)
                    if _tree_diff(go, ref["obs_n"], _tb(ref["obs_n"])):
                        ctx.violation(f"{pre}-get-obs-mismatch", {"env": name, "i": i})
                    if bool(g.is_terminal(st_n, params)) != bool(ref["term"]):
                        ctx.violation(f"{pre}-is-terminal-mismatch", {"env": name, "i": i})
                st = st_n
        except Exception as e:
            ctx.violation(f"{pre}-raises", {"env": name, "error": f"{type(e).__name__}: {e}"[:400]})
    ctx.require("adapter_steps", 100)
    ctx.require("adapter_episode_boundaries", 10)


def _gym_action(rng, space, i):
    import gymnasium as gym

    if isinstance(space, gym.spaces.Discrete):
        return int(rng.integers(space.n))
    lo, hi = np.asarray(space.low, np.float64), np.asarray(space.high, np.float64)
    return rng.uniform(lo, hi).astype(np.float32)


def u_gym2lerax(ctx):
    """GymToLeraxEnv vs (a) a log of what the adapted Gymnasium env itself returned and (b) an identically
    seeded twin Gymnasium env."""
    import gymnasium as gym
    import jax.numpy as jnp
    from lerax.compatibility.gym import GymToLeraxEnv
    from vlib.common import digest

    class Rec(gym.Wrapper):
        def __init__(self, env):
            super().__init__(env)
            self.log = []

        def reset(self, *, seed=None, options=None):
            o, info = self.env.reset(seed=seed, options=options)
            self.log.append(("reset", seed, np.asarray(o).copy()))
            return o, info

        def step(self, action):
            o, r, te, tr, info = self.env.step(action)
            self.log.append(("step", np.asarray(action).copy(), np.asarray(o).copy(), float(r), bool(te), bool(tr)))
            return o, r, te, tr, info

    ids = [("CartPole-v1", 9), ("MountainCar-v0", 5), ("Pendulum-v1", 4), ("Acrobot-v1", 6), ("FrozenLake-v1", 6)]
    if not ctx.quick:
        ids += [("MountainCarContinuous-v0", 7), ("CartPole-v1", 500), ("CliffWalking-v1", 8)]
    n_steps = ctx.n(40, 150)
    pre = "gym-to-lerax"
    for ei, (gid, M) in enumerate(ids):
        name = f"{gid}[max{M}]"
        for api in ("functional", "step"):
            try:
                genv = Rec(gym.make(gid, max_episode_steps=M))
                twin = gym.make(gid, max_episode_steps=M)
                env = GymToLeraxEnv(genv)
            except Exception as e:
                ctx.violation(f"{pre}-not-constructible", {"env": name, "error": f"{type(e).__name__}: {e}"[:300]})
                continue
            try:
                _space_vs_foreign(ctx, f"{pre}-action-space-mismatch", _sp(env.action_space), twin.action_space, name)
                _space_vs_foreign(ctx, f"{pre}-observation-space-mismatch", _sp(env.observation_space), twin.observation_space, name)
                seed = int(ctx.rng.integers(1, 2**30))
                st = env.initial(key=ctx.key(50 * ei), seed=seed)
                o2, _ = twin.reset(seed=seed)
                ctx.monitor("adapter_seed_checks")
                if genv.log[-1][0] != "reset" or genv.log[-1][1] != seed:
                    ctx.violation(f"{pre}-seed-not-forwarded", {"env": name, "want": seed, "log": str(genv.log[-1][:2])})
                if not np.array_equal(np.asarray(env.observation(st, key=ctx.key(0))), np.asarray(o2).astype(np.asarray(st.observation).dtype)):
                    ctx.violation(f"{pre}-initial-observation-mismatch", {"env": name, "got": st.observation, "want": o2})
                nlog = len(genv.log)
                for i in range(n_steps):
                    a = _gym_action(ctx.rng, twin.action_space, i)
                    aj = jnp.asarray(a)
                    k = ctx.key(50 * ei + 1 + i)
                    if api == "functional":
                        nst = env.transition(st, aj, key=k)
                        obs, r = env.observation(nst, key=k), env.reward(st, aj, nst, key=k)
                        te, tr = env.terminal(nst, key=k), env.truncate(nst)
                    else:
                        nst, obs, r, te, tr, _ = env.step(st, aj, key=k)
                    o2, r2, te2, tr2, _ = twin.step(a)
                    ctx.monitor("adapter_steps")
                    done = bool(te2 or tr2)
                    ctx.case({"adapter": "GymToLeraxEnv", "env": name, "api": api, "i": i, "a": digest(np.asarray(a)), "o": digest(np.asarray(o2))},
                             nontrivial=done, cls=f"gym2lerax/{gid}/{api}")
                    steps = [e for e in genv.log[nlog:] if e[0] == "step"]
                    resets = [e for e in genv.log[nlog:] if e[0] == "reset"]
                    nlog = len(genv.log)
                    if len(steps) != 1 or not np.array_equal(np.asarray(steps[0][1]).ravel(), np.asarray(a).ravel()):
                        ctx.violation(f"{pre}-adapted-env-not-stepped-once-with-action", {"env": name, "api": api, "i": i, "n": len(steps)})
                        break
                    if bool(te) != bool(te2) or bool(tr) != bool(tr2):
                        ctx.violation(f"{pre}-done-flags-mismatch", {"env": name, "api": api, "i": i, "got": [bool(te), bool(tr)], "want": [te2, tr2]})
                        break
                    if float(r) != float(np.float32(r2)):
                        ctx.violation(f"{pre}-reward-mismatch", {"env": name, "api": api, "i": i, "got": float(r), "want": float(r2)})
                    want_o = np.asarray(o2)
                    if done:
                        ctx.monitor("adapter_episode_boundaries")
                        if api == "functional":
                            if resets:
                                ctx.violation(f"{pre}-unexpected-reset", {"env": name, "i": i})
                            seed = int(ctx.rng.integers(1, 2**30))
                            nst = env.initial(key=k, seed=seed)
                            want_next = twin.reset(seed=seed)[0]
                            nlog = len(genv.log)
                        else:
                            # `step` has reset the adapted env with a seed of its own choosing: read it from the log
                            if len(resets) != 1 or resets[0][1] is None:
                                ctx.violation(f"{pre}-auto-reset-missing-or-unseeded", {"env": name, "i": i, "resets": len(resets)})
                                break
                            want_next = twin.reset(seed=int(resets[0][1]))[0]
                            want_o = np.asarray(want_next)
                        if not np.array_equal(np.asarray(env.observation(nst, key=k)), np.asarray(want_next).astype(np.asarray(nst.observation).dtype)):
                            ctx.violation(f"{pre}-post-reset-observation-mismatch", {"env": name, "api": api, "i": i})
                            break
                    elif resets:
                        ctx.violation(f"{pre}-unexpected-reset", {"env": name, "api": api, "i": i})
                    if not np.array_equal(np.asarray(obs), want_o.astype(np.asarray(obs).dtype)):
                        ctx.violation(f"{pre}-observation-mismatch", {"env": name, "api": api, "i": i, "got": obs, "want": want_o})
                        break
                    st = nst
            except Exception as e:
                key, detail = f"{pre}-raises", {"env": name, "api": api, "error": f"{type(e).__name__}: {e}"[-300:]}
                if "unhashable type" in str(e):
                    # the adapted env's own step() raised on the 0-d ndarray the adapter hands it for a Discrete action
                    key = f"{pre}-discrete-action-passed-as-ndarray"
                    try:
                        twin.reset(seed=1)
                        twin.step(0)
                        detail["twin_stepped_with_python_int"] = "ok"
                    except Exception as e2:
                        detail["twin_stepped_with_python_int"] = f"{type(e2).__name__}: {e2}"[:200]
                    detail["adapter_passes"] = "np.asarray(action) (0-d integer ndarray)"
                ctx.violation(key, detail)
            finally:
                try:
                    genv.close()
                    twin.close()
                except Exception:
                    pass
    ctx.require("adapter_steps", 100)
    ctx.require("adapter_episode_boundaries", 10)


def u_gymnax2lerax(ctx):
    """GymnaxToLeraxEnv vs the Gymnax env's own reset_env / step_env with the same keys."""
    import gymnax
    import jax.numpy as jnp
    from lerax.compatibility.gymnax import GymnaxToLeraxEnv
    from vlib.common import digest

    ids = [("CartPole-v1", 9), ("Pendulum-v1", 4), ("MountainCar-v0", 5), ("Acrobot-v1", 6)]
    if not ctx.quick:
        ids += [("MountainCarContinuous-v0", 7), ("Catch-bsuite", None), ("CartPole-v1", 500)]
    n_steps = ctx.n(40, 150)
    pre = "gymnax-to-lerax"
    for ei, (gid, M) in enumerate(ids):
        name = f"{gid}[max{M}]"
        try:
            genv, params = gymnax.make(gid)
            if M is not None:
                params = params.replace(max_steps_in_episode=M)
            env = GymnaxToLeraxEnv(genv, params)
        except Exception as e:
            ctx.violation(f"{pre}-not-constructible", {"env": name, "error": f"{type(e).__name__}: {e}"[:300]})
            continue
        asp = _sp(env.action_space)
        for api in ("functional", "step"):
            try:
                _space_vs_foreign(ctx, f"{pre}-action-space-mismatch", asp, genv.action_space(params), name)
                _space_vs_foreign(ctx, f"{pre}-observation-space-mismatch", _sp(env.observation_space), genv.observation_space(params), name)
                k0 = ctx.key(1000 * ei)
                st = env.initial(key=k0)
                o_t, s_t = genv.reset_env(k0, params)
                ctx.monitor("adapter_seed_checks")
                if _tree_diff(env.observation(st, key=k0), o_t, 0.0):
                    ctx.violation(f"{pre}-initial-observation-mismatch", {"env": name})
                for i in range(n_steps):
                    a = _adaptee_action(ctx.rng, asp, 0)
                    aj = _to_jax_action(a, asp)
                    k = ctx.key(1000 * ei + 1 + i)
                    if api == "functional":
                        nst = env.transition(st, aj, key=k)
                        obs, r = env.observation(nst, key=k), env.reward(st, aj, nst, key=k)
                        done = bool(env.terminal(nst, key=k)) or bool(env.truncate(nst))
                        o_t, s_t, r_t, d_t, _ = genv.step_env(k, s_t, aj, params)
                    else:
                        # classic gymnax dynamics ignore the key; the twin restarts from the adapter's state after a reset
                        nst, obs, r, te, tr, _ = env.step(st, aj, key=k)
                        done = bool(te) or bool(tr)
                        o_t, s_t, r_t, d_t, _ = genv.step_env(k, s_t, aj, params)
                    ctx.monitor("adapter_steps")
                    ctx.case({"adapter": "GymnaxToLeraxEnv", "env": name, "api": api, "i": i, "a": digest(np.asarray(a)), "o": digest(np.asarray(o_t))},
                             nontrivial=bool(d_t), cls=f"gymnax2lerax/{gid}/{api}")
                    if done != bool(d_t):
                        ctx.violation(f"{pre}-done-flag-mismatch", {"env": name, "api": api, "i": i, "got": done, "want": bool(d_t)})
                        break
                    if abs(float(r) - float(r_t)) > 1e-6 * (1 + abs(float(r_t))):
                        ctx.violation(f"{pre}-reward-mismatch", {"env": name, "api": api, "i": i, "got": float(r), "want": float(r_t)})
                    if bool(d_t):
                        ctx.monitor("adapter_episode_boundaries")
                        if api == "functional":
                            if _tree_diff(obs, o_t, 1e-6 * (1 + _amax(o_t))):
                                ctx.violation(f"{pre}-observation-mismatch", {"env": name, "api": api, "i": i, "got": obs, "want": o_t})
                            k2 = ctx.key(1000 * ei + 500 + i)
                            nst = env.initial(key=k2)
                            o_t, s_t = genv.reset_env(k2, params)
                            if _tree_diff(env.observation(nst, key=k2), o_t, 0.0):
                                ctx.violation(f"{pre}-initial-observation-mismatch", {"env": name, "i": i})
                        else:
                            s_t = nst.env_state
                            if int(getattr(s_t, "time", 0)) != 0:
                                ctx.violation(f"{pre}-no-fresh-episode-after-done", {"env": name, "i": i})
                            if _tree_diff(obs, genv.get_obs(s_t), 1e-6 * (1 + _amax(obs))):
                                ctx.violation(f"{pre}-post-reset-observation-not-of-state", {"env": name, "i": i})
                    else:
                        if _tree_diff(obs, o_t, 1e-6 * (1 + _amax(o_t))):
                            ctx.violation(f"{pre}-observation-mismatch", {"env": name, "api": api, "i": i, "got": obs, "want": o_t})
                            break
                        if _tree_diff(nst.env_state, s_t, 1e-6 * (1 + _amax(s_t))):
                            ctx.violation(f"{pre}-inner-state-mismatch", {"env": name, "api": api, "i": i})
                            break
                    st = nst
                if gid == "Catch-bsuite":
                    break  # stochastic reset inside step: functional path only
            except Exception as e:
                ctx.violation(f"{pre}-raises", {"env": name, "api": api, "error": f"{type(e).__name__}: {e}"[-500:]})
    ctx.require("adapter_steps", 100)
    ctx.require("adapter_episode_boundaries", 10)


def run_unit(name, ctx):
    globals()[f"u_{name}"](ctx)
